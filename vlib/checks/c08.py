"""C08 - decoders are total, bounded and canonical; encode/decode are mutually inverse.

Every case is one decoder call (or one probe-then-copy pair, or one encode/decode round trip) on
exact-size heap buffers; the verdict comes from vlib/ref/der.py (strict X.690), vlib/ref/apdu.py
(rules 1-6 of apdu.h), the Python standard library (hex/base64/decimal) or a metamorphic relation
(Dec(Enc(v)) = v, Enc(Dec(x)) = x[:consumed], mutant => rejected).  Over-reads are found by ASan:
the runner turns a dead worker into a violation keyed by report kind and function.
"""
import base64, ctypes, hashlib, json, os, random, re, subprocess

from .. import build, core
from ..bee2 import errname
from ..core import Harness
from ..ref import apdu as A
from ..ref import der as D

LEVEL = "exploration"
SM = D.SIZE_MAX
H = bytes.fromhex


def models():
    try:
        D.selftest()
        A.selftest()
    except AssertionError as e:
        raise Harness("reference model self-test failed: %r" % (e,))


def xdesc(x):
    x = bytes(x)
    return x if len(x) <= 600 else {"len": len(x), "sha256": hashlib.sha256(x).hexdigest()[:16], "head": x[:24]}


def sig_of(x):
    """tag/length-field shape of the TL prefix, used as the minimal signature in 'rejects-valid' keys"""
    try:
        t, nt = D.tag_dec(x, 0)
        L, nl = D.len_dec(x, nt)
        return "tag-4-octets" if nt == 4 else "tag%d-len%d" % (nt, nl)
    except D.Bad as e:
        return e.reason


# =============================================================================================
# DER: callers (bee2 side).  Each returns a tuple whose first element is the function's return
# value; outputs follow only on success.  Sizes reported by a probe are checked against the input
# length *before* anything is allocated from them.
# =============================================================================================

class Odd(str):
    """marker for an anomaly observed by a caller (as opposed to a decoded string)"""


class Oversize(Exception):
    def __init__(self, what, val):
        Exception.__init__(self, what)
        self.what, self.val = what, val


class DerCalls:
    def __init__(self, lib):
        self.L = lib

    def u32(self, p):
        return int.from_bytes(self.L.rd(p, 4), "little")

    def bound(self, what, v, x, slack=0):
        if v > len(x) + slack:
            raise Oversize(what, v)
        return v

    def derTLDec(self, x):
        L = self.L
        p, t, l = L.mk(x), L.alloc(4), L.alloc(8)
        r = L.derTLDec(t, l, p, len(x))
        r0 = L.derTLDec(0, 0, p, len(x))
        if r0 != r:
            return (r, Odd("null-outputs-differ"), r0)
        return (r,) if r == SM else (r, self.u32(t), L.rd_size(l))

    def derDec(self, x):
        L = self.L
        p, t, l, v = L.mk(x), L.alloc(4), L.alloc(8), L.alloc(8)
        r = L.derDec(t, v, l, p, len(x))
        r0 = L.derDec(0, 0, 0, p, len(x))
        if r0 != r:
            return (r, Odd("null-outputs-differ"), r0)
        return (r,) if r == SM else (r, self.u32(t), L.rd_size(l), (L.rd_size(v) - p) & SM)

    def derDec2(self, x, tag):
        L = self.L
        p, l, v = L.mk(x), L.alloc(8), L.alloc(8)
        r = L.derDec2(v, l, p, len(x), tag)
        return (r,) if r == SM else (r, L.rd_size(l), (L.rd_size(v) - p) & SM)

    def derDec3(self, x, tag, n):
        L = self.L
        p, v = L.mk(x), L.alloc(8)
        r = L.derDec3(v, p, len(x), tag, n)
        return (r,) if r == SM else (r, (L.rd_size(v) - p) & SM)

    def derDec4(self, x, tag, val):
        L = self.L
        return (L.derDec4(L.mk(x), len(x), tag, L.mk(val), len(val)),)

    def derIsValid(self, x):
        return (self.L.derIsValid(self.L.mk(x), len(x)),)

    def derIsValid2(self, x, tag):
        return (self.L.derIsValid2(self.L.mk(x), len(x), tag),)

    def derStartsWith(self, x, tag):
        return (self.L.derStartsWith(self.L.mk(x), len(x), tag),)

    def derTSIZEDec(self, x, tag):
        L = self.L
        p, v = L.mk(x), L.alloc(8)
        r = L.derTSIZEDec(v, p, len(x), tag)
        return (r,) if r == SM else (r, L.rd_size(v))

    def derTSIZEDec2(self, x, tag, val):
        return (self.L.derTSIZEDec2(self.L.mk(x), len(x), tag, val),)

    def derTUINTDec(self, x, tag):
        L = self.L
        p, l = L.mk(x), L.alloc(8)
        r = L.derTUINTDec(0, l, p, len(x), tag)
        if r == SM:
            return (r,)
        n = self.bound("len", L.rd_size(l), x)
        v = L.alloc(n)
        r2 = L.derTUINTDec(v, 0, p, len(x), tag)
        return (r, L.rd(v, n)) if r2 == r else (r, Odd("copy-differs"), r2)

    def derTUINTDec2(self, x, tag, n):
        L = self.L
        p = L.mk(x)
        r = L.derTUINTDec2(0, p, len(x), tag, n)
        if r == SM:
            return (r,)
        self.bound("len", n, x)
        v = L.alloc(n)
        r2 = L.derTUINTDec2(v, p, len(x), tag, n)
        return (r, L.rd(v, n)) if r2 == r else (r, Odd("copy-differs"), r2)

    def derTBITDec(self, x, tag):
        L = self.L
        p, l = L.mk(x), L.alloc(8)
        r = L.derTBITDec(0, l, p, len(x), tag)
        if r == SM:
            return (r,)
        nbits = L.rd_size(l)
        n = self.bound("len", (nbits + 7) // 8, x)
        v = L.alloc(n)
        r2 = L.derTBITDec(v, 0, p, len(x), tag)
        return (r, nbits, L.rd(v, n)) if r2 == r else (r, Odd("copy-differs"), r2)

    def derTBITDec2(self, x, tag, nbits):
        L = self.L
        p = L.mk(x)
        r = L.derTBITDec2(0, p, len(x), tag, nbits)
        if r == SM:
            return (r,)
        n = self.bound("len", (nbits + 7) // 8, x)
        v = L.alloc(n)
        r2 = L.derTBITDec2(v, p, len(x), tag, nbits)
        return (r, L.rd(v, n)) if r2 == r else (r, Odd("copy-differs"), r2)

    def derTOCTDec(self, x, tag):
        L = self.L
        p, l = L.mk(x), L.alloc(8)
        r = L.derTOCTDec(0, l, p, len(x), tag)
        if r == SM:
            return (r,)
        n = self.bound("len", L.rd_size(l), x)
        v = L.alloc(n)
        r2 = L.derTOCTDec(v, 0, p, len(x), tag)
        return (r, L.rd(v, n)) if r2 == r else (r, Odd("copy-differs"), r2)

    def derTOCTDec2(self, x, tag, n):
        L = self.L
        p = L.mk(x)
        r = L.derTOCTDec2(0, p, len(x), tag, n)
        if r == SM:
            return (r,)
        self.bound("len", n, x)
        v = L.alloc(n)
        r2 = L.derTOCTDec2(v, p, len(x), tag, n)
        return (r, L.rd(v, n)) if r2 == r else (r, Odd("copy-differs"), r2)

    def derOIDDec(self, x):
        L = self.L
        p, l = L.mk(x), L.alloc(8)
        r = L.derOIDDec(0, l, p, len(x))
        if r == SM:
            return (r,)
        n = self.bound("len", L.rd_size(l), x, slack=11 * len(x))     # <= 10 digits and a dot per content octet
        v = L.alloc(n + 1)
        l2 = L.alloc(8)
        r2 = L.derOIDDec(v, l2, p, len(x))
        if r2 != r or L.rd_size(l2) != n:
            return (r, Odd("copy-differs"), r2)
        s = L.rd(v, n + 1)
        return (r, s[:-1].decode("latin1")) if s[-1] == 0 and 0 not in s[:-1] else (r, Odd("bad-c-string"), s)

    def derOIDDec2(self, x, oid):
        return (self.L.derOIDDec2(self.L.mk(x), len(x), self.L.cstr(oid)),)

    def oidFromDER(self, x):
        L = self.L
        p = L.mk(x)
        r = L.oidFromDER(0, p, len(x))
        if r == SM:
            return (r,)
        n = self.bound("len", r, x, slack=11 * len(x))
        v = L.alloc(n + 1)
        r2 = L.oidFromDER(v, p, len(x))
        s = L.rd(v, n + 1)
        return (r, s[:-1].decode("latin1")) if r2 == r and s[-1] == 0 else (r, Odd("copy-differs"), r2)

    def derTPSTRDec(self, x, tag):
        L = self.L
        p, l = L.mk(x), L.alloc(8)
        r = L.derTPSTRDec(0, l, p, len(x), tag)
        if r == SM:
            return (r,)
        n = self.bound("len", L.rd_size(l), x)
        v = L.alloc(n + 1)
        r2 = L.derTPSTRDec(v, 0, p, len(x), tag)
        s = L.rd(v, n + 1)
        if r2 != r:
            return (r, Odd("copy-differs"), r2)
        return (r, s[:-1].decode("latin1")) if s[-1] == 0 else (r, Odd("unterminated"), s)

    def derTSEQDecStart(self, x, tag):
        """-> (tl, anchored length, [stop(end of value), stop(end-1), stop(end+1)]) ; the stop probes only
        where the addressed octet lies inside (or one past) the buffer"""
        L = self.L
        p, a = L.mk(x), L.alloc(32)
        r = L.derTSEQDecStart(a, p, len(x), tag)
        if r == SM:
            return (r,)
        raw = L.rd(a, 32)
        alen, atag, ader = int.from_bytes(raw[24:32], "little"), int.from_bytes(raw[16:20], "little"), int.from_bytes(raw[0:8], "little")
        if atag != tag or ader != p:
            return (r, Odd("anchor-wrong"), atag)
        stops = []
        for d in (0, -1, 1):
            e = r + alen + d
            stops.append(L.derTSEQDecStop(p + e, a) if r <= e <= len(x) else None)
        return (r, alen, stops)


# --- model side ---------------------------------------------------------------------------------

def _tlv(x, tag):
    t, v, n = D.dec(x)
    if t != tag:
        raise D.Bad("tag-mismatch")
    return v, n


def uint_le(v):
    n = D.uint_dec(v)
    return n.to_bytes(max(1, (n.bit_length() + 7) // 8), "little")


def want(op, x, *a):
    """expected tuple in the same normal form as DerCalls, or D.Bad, or None where the header fixes nothing"""
    try:
        if op == "derTLDec":
            t, L, n = D.tl_dec(x)
            return (n, t, L)
        if op == "derDec":
            t, v, n = D.dec(x)
            return (n, t, len(v), n - len(v))
        if op == "derDec2":
            v, n = _tlv(x, a[0])
            return (n, len(v), n - len(v))
        if op == "derDec3":
            v, n = _tlv(x, a[0])
            if len(v) != a[1]:
                raise D.Bad("len-mismatch")
            return (n, n - len(v))
        if op == "derDec4":
            v, n = _tlv(x, a[0])
            if v != a[1]:
                raise D.Bad("value-mismatch")
            return (n,)
        if op == "derIsValid":
            return (1 if D.is_valid(x) else 0,)
        if op == "derIsValid2":
            return (1 if D.is_valid(x) and D.dec(x)[0] == a[0] else 0,)
        if op == "derStartsWith":
            try:
                t, _ = D.tag_dec(x, 0)
            except D.Bad:
                return (0,)                  # malformed tag field: no (valid) tag can match
            try:
                D.tl_dec(x)
            except D.Bad:
                return None                  # well-formed tag but no DER code behind it: unspecified
            return (1 if t == a[0] else 0,)
        if op == "derTSIZEDec":
            v, n = _tlv(x, a[0])
            return (n, D.size_dec(v))
        if op == "derTSIZEDec2":
            v, n = _tlv(x, a[0])
            if D.size_dec(v) != a[1]:
                raise D.Bad("value-mismatch")
            return (n,)
        if op == "derTUINTDec":
            v, n = _tlv(x, a[0])
            return (n, uint_le(v))
        if op == "derTUINTDec2":
            v, n = _tlv(x, a[0])
            u = uint_le(v)
            if len(u) != a[1]:
                raise D.Bad("len-mismatch")
            return (n, u)
        if op == "derTBITDec":
            v, n = _tlv(x, a[0])
            data, nbits = D.bit_dec(v)
            return (n, nbits, data)
        if op == "derTBITDec2":
            v, n = _tlv(x, a[0])
            data, nbits = D.bit_dec(v)
            if nbits != a[1]:
                raise D.Bad("len-mismatch")
            return (n, data)
        if op == "derTOCTDec":
            v, n = _tlv(x, a[0])
            return (n, v)
        if op == "derTOCTDec2":
            v, n = _tlv(x, a[0])
            if len(v) != a[1]:
                raise D.Bad("len-mismatch")
            return (n, v)
        if op == "derOIDDec":
            v, n = _tlv(x, 0x06)
            return (n, D.oid_dec(v))
        if op == "derOIDDec2":
            v, n = _tlv(x, 0x06)
            if D.oid_dec(v) != a[0]:
                raise D.Bad("value-mismatch")
            return (n,)
        if op == "oidFromDER":
            v, n = _tlv(x, 0x06)
            s = D.oid_dec(v)
            if n != len(x):
                raise D.Bad("trailing-octets")
            return (len(s), s)
        if op == "derTPSTRDec":
            v, n = _tlv(x, a[0])
            return (n, D.pstr_dec(v))
        if op == "derTSEQDecStart":
            t, L, n = D.tl_dec(x)
            if t != a[0]:
                raise D.Bad("tag-mismatch")
            stops = []
            for d in (0, -1, 1):
                e = n + L + d
                stops.append((0 if d == 0 else SM) if n <= e <= len(x) else None)
            return (n, L, stops)
    except D.Bad as e:
        return e
    raise Harness("no model for " + op)


RESULT_FIELDS = {"derTLDec": ("ret", "tag", "len"), "derDec": ("ret", "tag", "len", "val-offset"),
                 "derDec2": ("ret", "len", "val-offset"), "derDec3": ("ret", "val-offset"),
                 "derTSEQDecStart": ("ret", "anchor-len", "stop")}

# encoders per typed decoder, for Enc(Dec(x)) = x[:consumed]


def reencode(lib, op, a, got):
    """bee2's own encoding of what bee2 decoded (None if there is no encoder counterpart)"""
    def enc(f, *args):
        n = f(0, *args)
        if n == SM or n > 1 << 20:
            return ("enc-failed", f.__name__, n)
        o = lib.alloc(n)
        n2 = f(o, *args)
        return lib.rd(o, n) if n2 == n else ("enc-sizes-differ", n, n2)
    if op in ("derDec",):
        return None
    if op == "derTSIZEDec":
        return enc(lib.derTSIZEEnc, a[0], got[1])
    if op == "derTUINTDec":
        return enc(lib.derTUINTEnc, a[0], lib.mk(got[1]), len(got[1])) if len(got[1]) else ("decoded-empty-uint",)
    if op == "derTBITDec":
        return enc(lib.derTBITEnc, a[0], lib.mk(got[2]), got[1])
    if op == "derTOCTDec":
        return enc(lib.derEnc, a[0], lib.mk(got[1]), len(got[1]))
    if op == "derOIDDec":
        return enc(lib.derOIDEnc, lib.cstr(got[1]))
    if op == "derTPSTRDec":
        return enc(lib.derTPSTREnc, a[0], lib.cstr(got[1]))
    return None


def run_der_case(ctx, calls, op, x, a, cls, reported):
    """one decoder call + judgement; returns got"""
    lib = ctx.lib
    w = want(op, x, *a)
    try:
        got = getattr(calls, op)(x, *a)
    except Oversize as e:
        got = (0, Odd("probe-reports-size-beyond-input"), e.val)
    ctx.digest(*[g if isinstance(g, (int, bytes)) else repr(g) for g in got])

    def viol(key, what, **kw):
        if key in reported:
            return
        reported.add(key)
        d = {"op": op, "input": x.hex() if len(x) <= 400 else xdesc(x), "args": a, "got": got,
             "expected": ("reject: " + w.reason) if isinstance(w, D.Bad) else w}
        d.update(kw)
        ctx.violation(key, what, d)

    ok = got[0] != SM if op not in ("derIsValid", "derIsValid2", "derStartsWith") else None
    if len(got) > 1 and isinstance(got[1], Odd):
        viol("%s:%s" % (op, got[1]), "%s: %s" % (op, got[1]))
    elif ok is None:
        if w is not None and got != w:
            try:
                D.dec(x)
                why = "trailing-octets-or-tag"
            except D.Bad as e:
                why = e.reason
            viol("%s:%s:%s" % (op, "accepts-invalid" if got[0] else "rejects-valid", why if got[0] else sig_of(x)),
                 "%s answers %d, the DER model %d" % (op, got[0], w[0]))
    elif isinstance(w, D.Bad):
        if ok:
            viol("%s:accepts-invalid:%s" % (op, w.reason), "%s accepts an encoding the strict DER model rejects (%s)" % (op, w.reason))
    elif not ok:
        viol("%s:rejects-valid:%s" % (op, sig_of(x)), "%s rejects a valid DER encoding" % op)
    elif got != w:
        names = RESULT_FIELDS.get(op, ("ret", "value", "value2"))
        i = next(i for i in range(min(len(got), len(w))) if got[i] != w[i]) if len(got) == len(w) else 0
        viol("%s:wrong-result:%s" % (op, names[min(i, len(names) - 1)]), "%s decodes a valid encoding to a different value" % op)
    if ok and op != "oidFromDER" and got[0] > len(x) and not isinstance(got[1] if len(got) > 1 else 0, Odd):
        viol("%s:consumed>input" % op, "%s reports a consumed length beyond the input" % op)
    if ok and op == "derDec" and len(got) == 4 and got[2] > len(x):
        viol("derDec:len>input", "derDec reports a value length beyond the input (tl + len wraps)")
    # canonical: what was accepted re-encodes to exactly the accepted octets
    if ok and not isinstance(w, D.Bad) and got == w:
        e = reencode(lib, op, a, got)
        if isinstance(e, tuple) and e[0] == "enc-failed":
            viol("%s:refuses-what-%s-decoded:tag%d" % (e[1], op, D.tag_dec(x, 0)[1]), "the encoder refuses a value/tag its decoder accepted", reencoded=e)
        elif e is not None and e != x[:got[0]]:
            viol("%s:reencode-differs" % op, "Enc(Dec(x)) != x[:consumed]", reencoded=e)
    elif ok and isinstance(w, D.Bad) and len(got) > 1 and not isinstance(got[1], Odd):
        e = reencode(lib, op, a, got)
        if e is not None and not isinstance(e, tuple) and e != x[:got[0]] and got[0] <= len(x):
            viol("%s:noncanonical-accepted:%s" % (op, w.reason), "accepted octets re-encode differently", reencoded=e)
    return got


# --- workload -------------------------------------------------------------------------------------

def tag_forms(tag):
    """(label, tag octets, complete?)  complete=False: the form is only meaningful at the very end of the buffer"""
    t = D.tag_enc(tag)
    c = t[0] & 0xE0
    f = c | 0x1F
    return [("tag:orig", t, True), ("tag:1-octet-other", bytes([c | ((t[0] + 1) & 0x0F)]), True),
            ("tag:2-octet-min", bytes([f, 0x1F]), True), ("tag:2-octet-max", bytes([f, 0x7F]), True),
            ("tag:3-octet", bytes([f, 0x81, 0x01]), True), ("tag:3-octet-number-128", bytes([f, 0x81, 0x00]), True),
            ("tag:3-octet-max", bytes([f, 0xFF, 0x7F]), True),
            ("tag:4-octet", bytes([f, 0x81, 0x80, 0x01]), True), ("tag:4-octet-max", bytes([f, 0xFF, 0xFF, 0x7F]), True),
            ("tag:leading-zero-80", bytes([f, 0x80, 0x01]), True), ("tag:leading-zero-00", bytes([f, 0x00]), True),
            ("tag:long-form-small-number", bytes([f, 0x1E]), True),
            ("tag:5-octets", bytes([f, 0x81, 0x81, 0x81, 0x01]), True), ("tag:6-octets", bytes([f, 0x81, 0x81, 0x81, 0x81, 0x01]), True),
            ("tag:unterminated-1", bytes([f]), False), ("tag:unterminated-2", bytes([f, 0x81]), False),
            ("tag:unterminated-3", bytes([f, 0x81, 0x81]), False), ("tag:unterminated-4", bytes([f, 0x81, 0x81, 0x81]), False)]


def len_forms(n):
    out = [("len:minimal", D.len_enc(n))]
    for r in range(1, 10):
        if n < 256 ** r:
            e = bytes([0x80 + r]) + n.to_bytes(r, "big")
            if e != out[0][1]:
                out.append(("len:nonminimal-long%d" % r, e))
    out += [("len:0x80", b"\x80"), ("len:0xFF", b"\xff")]
    out += [("len:SIZE_MAX-%d" % k, b"\x88" + (SM - k).to_bytes(8, "big")) for k in range(0, 17)]
    out += [("len:n+1", D.len_enc(n + 1)), ("len:n+1000", D.len_enc(n + 1000)), ("len:2^32", b"\x85\x01\0\0\0\0"),
            ("len:2^63", b"\x88\x80" + bytes(7)), ("len:9-octets", b"\x89\x01" + bytes(8)), ("len:126-octets", b"\xfe" + b"\x01" * 126),
            ("len:long-cut-1", b"\x82"), ("len:long-cut-2", b"\x82\x01")]
    if n:
        out.append(("len:n-1", D.len_enc(n - 1)))
    return out


INT_VALUES = [("int:empty", b""), ("int:negative-80", b"\x80"), ("int:negative-ff7f", b"\xff\x7f"), ("int:padded-007f", b"\x00\x7f"),
              ("int:padded-0000", b"\x00\x00"), ("int:0080", b"\x00\x80"), ("int:9-octet-00ff..", b"\x00" + b"\xff" * 8),
              ("int:9-octet-0100..", b"\x01" + bytes(8)), ("int:10-octet", b"\x00\x80" + bytes(8)), ("int:8-octet-7fff..", b"\x7f" + b"\xff" * 7),
              ("int:9-zero-octets", bytes(9)), ("int:9-octet-0080..", b"\x00\x80" + bytes(7))]
BIT_VALUES = [("bit:empty", b""), ("bit:unused-8", b"\x08\x00"), ("bit:unused-without-octets", b"\x01"), ("bit:zero-bits", b"\x00"),
              ("bit:1-bit", b"\x07\x80"), ("bit:nonzero-padding-0781", b"\x07\x81"), ("bit:nonzero-padding-01ff", b"\x01\xff"),
              ("bit:8-bits", b"\x00\xff"), ("bit:unused-ff", b"\xff\x00")]
OID_VALUES = [("oid:empty", b""), ("oid:truncated-arc", H("2a86")), ("oid:single-truncated", b"\x80"), ("oid:leading-80", H("2a8001")),
              ("oid:arc=2^32", H("2a9080808000")), ("oid:arc=2^32-1", H("2a8fffffff7f")), ("oid:first=2^32-1", H("8fffffff7f")),
              ("oid:first=2^32", H("9080808000")), ("oid:0.0", b"\x00"), ("oid:0.39", b"\x27"), ("oid:1.0", b"\x28"), ("oid:1.39", b"\x4f"),
              ("oid:2.0", b"\x50"), ("oid:2.47", b"\x7f"), ("oid:2.48", H("8100")), ("oid:arc-6-octets", H("2a818080808000")),
              ("oid:truncated-after-full", H("2a864886f7"))]
PSTR_VALUES = [("pstr:NUL", b"\x00"), ("pstr:NUL-inside", b"AB\x00CD"), ("pstr:asterisk", b"a*b"), ("pstr:0x80", b"\x80"), ("pstr:at", b"@"),
               ("pstr:underscore", b"_"), ("pstr:ampersand", b"&"), ("pstr:all", bytes(sorted(D.PRINTABLE)))]


def der_samples(rng, extra=0):
    """valid typed samples: (type, tag, content octets)"""
    S = []
    for tag in (0x02, 0x5F29, 0x41):
        for n in (0, 1, 127, 128, 255, 256, 65535, 2 ** 31, 2 ** 32 - 1, 2 ** 32, 2 ** 63 - 1, 2 ** 63, SM - 1, SM):
            if tag == 0x02 or n in (0, 128, SM):
                S.append(("SIZE", tag, D.uint_enc(n)))
    for n in (0, 0x80, 0xFF, 0x100, 0x7FFF, 0x8000, 2 ** 64, 2 ** 255 + 19, 2 ** 256 - 1, 2 ** 511, rng.getrandbits(520) | 1 << 519):
        S.append(("UINT", 0x02, D.uint_enc(n)))
    S.append(("UINT", 0x9F21, D.uint_enc(0x1234)))
    for nbits in (0, 1, 7, 8, 9, 61, 64, 512, 1023):
        data = bytes(rng.getrandbits(8) for _ in range((nbits + 7) // 8))
        S.append(("BIT", 0x03 if nbits != 9 else 0x83, D.bit_enc(data, nbits)))
    for n in (0, 1, 2, 127, 128, 255, 256, 300):
        S.append(("OCT", 0x04 if n != 2 else 0x5F37, bytes(rng.getrandbits(8) for _ in range(n))))
    for s in ("1.2.840.113549", "2.999", "0.0", "1.39", "2.4294967215", "1.2.4294967295", "1.2.112.0.2.0.34.101.45.3.1", "2.5.4.3",
              "1.2.3456.78910.11121314.15161718.19202122.23242526.27282930.31323334.35363738", "0.39.0.128.16384"):
        S.append(("OID", 0x06, D.oid_enc(s)))
    for s in (b"", b"BYCA0000", b"a", b"Hello, world (1+1=2)?", b"A" * 128):
        S.append(("PSTR", 0x13 if s != b"a" else 0x42, s))
    for _ in range(extra):
        n = rng.choice((1, 2, 8, 9, 33, 65, 129))
        S.append(("UINT", 0x02, D.uint_enc(rng.getrandbits(8 * n) | 1 << (8 * n - 1 - rng.randrange(2)))))
        S.append(("SIZE", 0x02, D.uint_enc(rng.getrandbits(rng.randint(1, 64)))))
        S.append(("OCT", rng.choice((0x04, 0x80, 0x5F37, 0x9F8101)), bytes(rng.getrandbits(8) for _ in range(rng.choice((3, 126, 129, 254, 257))))))
        nb = rng.randint(1, 300)
        S.append(("BIT", 0x03, D.bit_enc(bytes(rng.getrandbits(8) for _ in range((nb + 7) // 8)), nb)))
        S.append(("OID", 0x06, D.oid_enc("%d.%d" % (rng.choice(((0, rng.randrange(40)), (1, rng.randrange(40)), (2, rng.getrandbits(rng.randint(1, 31))))))
                                          + "".join(".%d" % rng.getrandbits(rng.randint(1, 32)) for _ in range(rng.randint(0, 6))))))
        S.append(("PSTR", 0x13, bytes(rng.choice(sorted(D.PRINTABLE)) for _ in range(rng.randint(1, 40)))))
    S.append(("NULL", 0x05, b""))
    inner = D.enc(0x02, b"\x01") + D.enc(0x04, b"\xaa\xbb")
    S.append(("SEQ", 0x30, inner))
    S.append(("SEQ", 0x7F21, D.enc(0x7F4E, inner) + D.enc(0x5F37, bytes(48))))
    S.append(("SEQ", 0x30, b""))
    S.append(("SEQ", 0xA0, D.enc(0x30, bytes(130))))
    return S


TYPED_OPS = {"SIZE": ("derTSIZEDec",), "UINT": ("derTUINTDec",), "BIT": ("derTBITDec",), "OCT": ("derTOCTDec",),
             "OID": ("derOIDDec", "oidFromDER"), "PSTR": ("derTPSTRDec",), "NULL": ("derTOCTDec",), "SEQ": ("derTSEQDecStart",)}
VALUE_MUTANTS = {"SIZE": INT_VALUES, "UINT": INT_VALUES, "BIT": BIT_VALUES, "OID": OID_VALUES, "PSTR": PSTR_VALUES}
TL_OPS = ("derTLDec", "derDec", "derIsValid")


def op_args(op, tag):
    return () if op in ("derTLDec", "derDec", "derIsValid", "derOIDDec", "oidFromDER") else (tag,)


def asked_tag(tagoct, orig):
    """the tag code to pass to a decoder that expects one: the code of the (possibly mutated) tag octets when
    they form a valid tag, the original otherwise"""
    try:
        t, n = D.tag_dec(tagoct + b"\0", 0)
        return t if n == len(tagoct) else orig
    except D.Bad:
        return orig


def der_cases(ctx):
    """the complete deterministic list of (class, op, x, args) for the typed codecs"""
    rng = random.Random("c08/der/%s" % ctx.seed)          # the same list in every chunk job
    cases = []
    seen_types = set()
    samples = der_samples(rng, ctx.params.get("extra", 0))
    for ty, tag, val in samples:
        t = D.tag_enc(tag)
        ops = TYPED_OPS[ty]
        valid = t + D.len_enc(len(val)) + val
        # the valid sample through its own decoder, the TL level, and every other typed decoder (same tag asked)
        for op in ops + TL_OPS + ("derDec2", "derIsValid2", "derStartsWith"):
            cases.append(("der:valid:" + ty, op, valid, op_args(op, tag)))
        for oty, oops in TYPED_OPS.items():
            if oty != ty and oty not in ("NULL",):
                for op in oops:
                    if op != "derTSEQDecStart" or D.tag_constructed(tag):
                        cases.append(("der:cross-type:%s-as-%s" % (ty, oty), op, valid, op_args(op, tag)))
        # tag forms
        for label, tt, complete in tag_forms(tag):
            x = tt + D.len_enc(len(val)) + val if complete else tt
            at = asked_tag(tt, tag)
            for op in ops + TL_OPS + ("derStartsWith", "derDec2"):
                if op == "derTSEQDecStart" and not (D.tag_valid(at) and D.tag_constructed(at)):
                    continue
                if label.startswith("tag:4-octet") and op not in TL_OPS + ("derStartsWith", "derTOCTDec", "derTSEQDecStart"):
                    continue                 # one root cause: keep the number of functions that report it small
                cases.append(("der:" + label, op, x, op_args(op, at)))
            if label.startswith("tag:leading-zero"):
                # F11 shape: the first octet is then read as a short length; give it that many octets
                y = tt + bytes(max(0, tt[0] - len(tt) + 1))
                for op in TL_OPS + ("derTOCTDec", "derDec2"):
                    cases.append(("der:" + label + "+padding", op, y, op_args(op, tt[0])))
        # length forms (the SIZE_MAX-k family only on the first sample of every type for the decoders that walk the value)
        first = ty not in seen_types
        seen_types.add(ty)
        for label, ll in len_forms(len(val)):
            x = t + ll + val
            wrap = label.startswith("len:SIZE_MAX-")
            for op in ops + TL_OPS:
                if wrap and op in ops and not (first and label in ("len:SIZE_MAX-0", "len:SIZE_MAX-1", "len:SIZE_MAX-9", "len:SIZE_MAX-16")):
                    continue
                cases.append(("der:" + label, op, x, op_args(op, tag)))
            if wrap and ty == "OCT" and first:
                cases.append(("der:" + label, "derTOCTDec2", x, (tag, len(val))))
                cases.append(("der:" + label, "derDec3", x, (tag, (SM - int(label.split("-")[1])))))
        # value forms
        for label, vv in VALUE_MUTANTS.get(ty, ()):
            x = t + D.len_enc(len(vv)) + vv
            for op in ops + ("derDec",):
                cases.append(("der:" + label, op, x, op_args(op, tag)))
            cases.append(("der:" + label + "+trailing", ops[0], x + b"\x05\x00", op_args(ops[0], tag)))
        # every truncation of the valid sample
        for k in range(len(valid)):
            if len(valid) > 64 and 8 < k < len(valid) - 4 and k % 17:
                continue
            for op in ops + ("derDec", "derIsValid"):
                cases.append(("der:truncated", op, valid[:k], op_args(op, tag)))
        # one trailing octet / shifted
        cases.append(("der:trailing-octet", ops[0], valid + b"\x00", op_args(ops[0], tag)))
        cases.append(("der:trailing-octet", "derIsValid", valid + b"\x00", ()))
    # decode-and-compare variants, comparison values shorter / longer / different, exact-size buffers
    for ty, tag, val in samples:
        valid = D.enc(tag, val)
        if ty == "SIZE":
            n = D.uint_dec(val)
            for m in sorted({n, (n + 1) & SM, (n - 1) & SM, 0, SM, n >> 8, (n << 8) & SM}):
                cases.append(("der:dec2:SIZE", "derTSIZEDec2", valid, (tag, m)))
        elif ty == "UINT":
            n = len(uint_le(val))
            for m in sorted({n, n + 1, max(0, n - 1), 0, 1}):
                cases.append(("der:dec2:UINT", "derTUINTDec2", valid, (tag, m)))
        elif ty == "BIT":
            nb = D.bit_dec(val)[1]
            for m in sorted({nb, nb + 1, max(0, nb - 1), nb + 8, max(0, nb - 8), (nb + 7) // 8 * 8, 0}):
                cases.append(("der:dec2:BIT", "derTBITDec2", valid, (tag, m)))
        elif ty in ("OCT", "PSTR", "NULL"):
            for m in sorted({len(val), len(val) + 1, max(0, len(val) - 1), 0}):
                cases.append(("der:dec2:OCT", "derTOCTDec2", valid, (tag, m)))
                cases.append(("der:dec3", "derDec3", valid, (tag, m)))
            for label, vv in (("same", val), ("shorter", val[:-1]), ("longer", val + b"\0"), ("empty", b""),
                              ("last-differs", val[:-1] + bytes([val[-1] ^ 1]) if val else b"\1"),
                              ("first-differs", bytes([val[0] ^ 0x80]) + val[1:] if val else b"\x80")):
                cases.append(("der:dec4:" + label, "derDec4", valid, (tag, vv)))
            cases.append(("der:dec4:other-tag", "derDec4", valid, (tag ^ 0x01, val)))
        elif ty == "OID":
            s = D.oid_dec(val)
            arcs = s.split(".")
            alts = {s, ".".join(arcs[:-1]) if len(arcs) > 2 else "1.1", s + ".1", s + "0", s[:-1] if s[-2] != "." else s + "1",
                    ".".join(arcs[:-1] + [str(int(arcs[-1]) + 1)]), ".".join(arcs[:-1] + [arcs[-1][:-1] or "7"]),
                    "1.2", "2.5", "0.0", ".".join(arcs[:2])}
            for o in sorted(a for a in alts if D.oid_valid(a)):
                cases.append(("der:dec2:OID:" + ("same" if o == s else "shorter" if len(o) < len(s) else "longer-or-different"),
                              "derOIDDec2", valid, (o,)))
            if len(arcs[-1]) >= 3 and len(arcs) > 2:
                # the string ends inside the last arc, several digits early (exact-size C string)
                cases.append(("der:dec2:OID:ends-inside-last-arc", "derOIDDec2", valid, (".".join(arcs[:-1] + [arcs[-1][:1]]),)))
    # random structured strings through the TL level and every typed decoder (tag asked = the tag read)
    for _ in range(ctx.params.get("random", 600)):
        x = random_tlv_like(rng)
        try:
            tag = D.tag_dec(x, 0)[0]
        except D.Bad:
            tag = x[0] if x else 0
        for op in TL_OPS + ("derStartsWith",):
            cases.append(("der:random", op, x, op_args(op, tag)))
        for oops in TYPED_OPS.values():
            for op in oops:
                if tag >= 1 << 24 and op not in ("derTOCTDec",):
                    continue                 # 4-octet tags: same policy as in the tag-form family
                if op != "derTSEQDecStart" or (D.tag_valid(tag) and D.tag_constructed(tag) and tag < 0x100):
                    cases.append(("der:random", op, x, op_args(op, tag)))
    return cases


def random_tlv_like(rng):
    firsts = [0x02, 0x03, 0x04, 0x05, 0x06, 0x13, 0x30, 0x1F, 0x7F, 0x5F, 0xFF, 0x00, 0x1E, 0x9F]
    t = bytes([rng.choice(firsts)]) if rng.random() < 0.8 else bytes([rng.getrandbits(8)])
    if t[0] & 31 == 31:
        t += bytes(rng.choice((0x00, 0x80, 0x81, 0x1E, 0x1F, 0x7F, 0xFF, rng.getrandbits(8))) for _ in range(rng.randint(0, 4)))
    v = bytes(rng.choice((0x00, 0x01, 0x7F, 0x80, 0x81, 0xFF, 0x2A, 0x41, rng.getrandbits(8))) for _ in range(rng.choice((0, 1, 2, 3, 5, 9, 10, 17))))
    lf = rng.random()
    if lf < 0.55:
        l = D.len_enc(len(v))
    elif lf < 0.7:
        l = bytes([rng.getrandbits(7)])
    elif lf < 0.75:
        l = bytes([rng.choice((0x80, 0xFF))])
    else:
        r = rng.randint(1, 9)
        l = bytes([0x80 + r]) + bytes(rng.choice((0, 0, 1, 0x7F, 0x80, 0xFF, rng.getrandbits(8))) for _ in range(rng.randint(max(0, r - 1), r)))
    return t + l + v


WALKERS = ("derOIDDec", "oidFromDER", "derOIDDec2", "derTPSTRDec", "derTUINTDec", "derTUINTDec2", "derTBITDec", "derTBITDec2")


def crash_prone(cls, op, x, a):
    """shapes on which the current tree is known to read out of bounds or assert: they are run first, so that the rest of the
    job lies in the final worker segment (the runner keeps class statistics of the last segment only)"""
    if op in ("derTSIZEDec", "derTSIZEDec2") and tsize_overread_shape(x, a[0]):
        return True
    if op in WALKERS and b"\x88\xff\xff\xff\xff\xff\xff\xff" in x[:16]:
        return True
    if op == "derOIDDec2" and cls.endswith((":shorter", ":ends-inside-last-arc")):
        return True
    return op == "derTSEQDecStart" and cls == "der:tag:3-octet-number-128"


def tsize_overread_shape(x, tag):
    """inputs on which derTSIZEDec would have to look beyond the buffer to decide (value octets announced but
    absent): kept to a few per job, because each one that the library mishandles costs a worker restart"""
    try:
        t, L, n = D.tl_dec(x)
    except D.Bad:
        return False
    return t == tag and L <= 9 and (L > len(x) - n or (L == 0 and len(x) == n))


def unit_der(ctx):
    """structure-aware mutants of valid encodings through every DER codec (chunk k of n)"""
    models()
    lib = ctx.lib
    calls = DerCalls(lib)
    k, n = ctx.params["chunk"], ctx.params["of"]
    scale = ctx.params.get("scale", 1.0)
    reported = set()
    budget = {"tsize": 3, "oid2short": 2, "oid2inside": 1, "seqtag128": 1}
    skipped = 0
    mine = [(i, c) for i, c in enumerate(der_cases(ctx)) if i % n == k]
    mine.sort(key=lambda ic: 0 if crash_prone(*ic[1]) else 1)
    for i, (cls, op, x, a) in mine:
        if scale < 1.0 and (i // n) % max(1, round(1 / scale)) and not cls.startswith("der:valid") and not crash_prone(cls, op, x, a):
            continue
        if op in ("derTSIZEDec", "derTSIZEDec2") and tsize_overread_shape(x, a[0]):
            if budget["tsize"] <= 0:
                skipped += 1
                continue
            budget["tsize"] -= 1
            cls = "der:size-value-beyond-buffer"
        if op == "derOIDDec2" and cls.endswith(":shorter"):
            if budget["oid2short"] <= 0:
                skipped += 1
                continue
            budget["oid2short"] -= 1
        if op == "derOIDDec2" and cls.endswith(":ends-inside-last-arc"):
            if budget["oid2inside"] <= 0:
                skipped += 1
                continue
            budget["oid2inside"] -= 1
        if op == "derTSEQDecStart" and cls == "der:tag:3-octet-number-128":
            if budget["seqtag128"] <= 0:
                skipped += 1
                continue
            budget["seqtag128"] -= 1
        if not ctx.case([op, xdesc(x), list(a), cls], cls):
            lib.release()
            continue
        run_der_case(ctx, calls, op, x, a, cls, reported)
        lib.release()
    ctx.note("der_cases_withheld_to_bound_restarts", skipped)


# =============================================================================================
# DER encoders: Enc(v) = model encoding, Dec(Enc(v)) = v
# =============================================================================================

def enc_call(lib, f, *args):
    """probe (null output), allocate exactly, encode -> bytes | None (encoder refused) | Odd"""
    n = f(0, *args)
    if n == SM:
        return None
    if n > 1 << 24:
        return Odd("absurd-size")
    o = lib.alloc(n)
    n2 = f(o, *args)
    return lib.rd(o, n) if n2 == n else Odd("probe-and-encode-sizes-differ")


ENC_TAGS_VALID = [0x00, 0x02, 0x1E, 0x30, 0xDE, 0x1F1F, 0x7F21, 0x5F29, 0x1F7F, 0x1F8100, 0x7F8100, 0x1F8101, 0x1F9E00, 0x1FFF7F,
                  0x7F818001, 0x1FFFFF7F, 0xFFFFFF7F]
ENC_TAGS_INVALID = [0x1F, 0x3F, 0xFF, 0x100, 0x021F, 0x1F00, 0x1F1E, 0x1F80, 0x1F8001, 0x1F81, 0x1F8181, 0x1F008100, 0x1F818181, 0x1F800001]
ENC_LENS = [0, 1, 127, 128, 255, 256, 65535, 65536, 2 ** 24, 2 ** 32 - 1, 2 ** 32, 2 ** 56, 2 ** 63, SM - 1]
OID_STRINGS = ["1.2.840.113549", "2.999", "0.0", "0.39", "1.39", "2.40", "2.4294967215", "1.2.4294967295", "1.2.0", "2.5.4.3", "1.2.112.0.2.0.34.101.45.3.1",
               "", "1", "1.", ".1", "1..2", "3.1", "1.40", "0.40", "1.02", "01.2", "1.2.00", "2.4294967216", "2.4294967295", "1.2.4294967296",
               "1.2.99999999999", "1.2.a", "1.2 ", " 1.2", "1.2.-3", "1,2", "1.2.3.", "1.2.3..4", "2", "22.1", "1.2.+3", "1.2.18446744073709551617"]


def unit_der_enc(ctx):
    models()
    lib = ctx.lib
    calls = DerCalls(lib)
    rng = ctx.rng
    reported = set()

    def viol(key, what, **d):
        if key not in reported:
            reported.add(key)
            ctx.violation(key, what, d)

    def judge_enc(fn, desc, cls, tag, model_bytes, e, back):
        """e: what bee2 encoded; model_bytes: the model (None = must be refused); back: [(decoder, args)]"""
        ctx.digest(repr(e) if not isinstance(e, bytes) else e)
        ntag = "tag%d" % max(1, (tag.bit_length() + 7) // 8) if tag is not None else "-"
        if isinstance(e, Odd):
            viol("%s:%s" % (fn, e), "%s: %s" % (fn, e), case=desc)
        elif model_bytes is None:
            if e is not None:
                viol("%s:accepts-invalid:%s" % (fn, cls.split(":")[-1]), "%s encodes what its header excludes" % fn, case=desc, got=e)
        elif e is None:
            viol("%s:rejects-valid:%s" % (fn, ntag if cls.endswith("tag") or "tag" in cls else cls.split(":")[-1]), "%s refuses an admissible value" % fn, case=desc)
        elif e != model_bytes:
            viol("%s:wrong-encoding:%s" % (fn, cls.split(":")[-1]), "%s output differs from the DER model" % fn, case=desc, got=e, expected=model_bytes)
        else:
            for op, a in back:
                run_der_case(ctx, calls, op, e, a, cls, reported)

    # A. derTLEnc over tags x lengths
    for tag in ENC_TAGS_VALID + ENC_TAGS_INVALID:
        for n in ENC_LENS:
            valid = D.tag_valid(tag)
            cls = "enc:TL:" + ("valid-tag" if valid else "invalid-tag")
            if not ctx.case(["derTLEnc", tag, n], cls):
                continue
            e = enc_call(lib, lib.derTLEnc, tag, n)
            judge_enc("derTLEnc", ["derTLEnc", hex(tag), n], cls, tag, D.tag_enc(tag) + D.len_enc(n) if valid else None, e, [("derTLDec", ())])
            lib.release()
    # the one length the decoder cannot take back (SIZE_MAX doubles as the error value): recorded, not judged
    if ctx.case(["derTLEnc", 4, SM], "enc:TL:len=SIZE_MAX"):
        e = enc_call(lib, lib.derTLEnc, 4, SM)
        ctx.digest(repr(e))
        if isinstance(e, bytes):
            ctx.note("derTLEnc_len_SIZE_MAX_decodes", int(calls.derTLDec(e)[0] != SM))
        lib.release()
    # B. derEnc
    for tag in ENC_TAGS_VALID + ENC_TAGS_INVALID[:6]:
        for n in (0, 1, 127, 128, 255, 256, 300):
            val = bytes(rng.getrandbits(8) for _ in range(n))
            valid = D.tag_valid(tag)
            cls = "enc:TLV:" + ("valid-tag" if valid else "invalid-tag")
            if not ctx.case(["derEnc", tag, val], cls):
                continue
            e = enc_call(lib, lib.derEnc, tag, lib.mk(val), n)
            judge_enc("derEnc", ["derEnc", hex(tag), val.hex()], cls, tag, D.enc(tag, val) if valid else None, e,
                      [("derDec", ()), ("derTOCTDec", (tag,)), ("derIsValid", ()), ("derDec4", (tag, val))])
            lib.release()
    # C. SIZE
    for tag in (0x02, 0x5F29, 0x1F8100, 0x7F818001, 0x1F):
        for v in (0, 1, 127, 128, 255, 256, 32767, 32768, 2 ** 24 - 1, 2 ** 31, 2 ** 32 - 1, 2 ** 32, 2 ** 55, 2 ** 56 - 1, 2 ** 63 - 1, 2 ** 63, SM - 1, SM):
            if tag != 0x02 and v not in (0, 128, SM):
                continue
            valid = D.tag_valid(tag)
            cls = "enc:SIZE:" + ("valid-tag" if valid else "invalid-tag")
            if not ctx.case(["derTSIZEEnc", tag, v], cls):
                continue
            e = enc_call(lib, lib.derTSIZEEnc, tag, v)
            judge_enc("derTSIZEEnc", ["derTSIZEEnc", hex(tag), v], cls, tag, D.enc(tag, D.uint_enc(v)) if valid else None, e,
                      [("derTSIZEDec", (tag,)), ("derTSIZEDec2", (tag, v))])
            lib.release()
    # D. UINT (little-endian octets, insignificant high zero octets allowed on input)
    for i in range(60):
        n = rng.choice((1, 1, 2, 8, 9, 16, 31, 32, 33, 48, 64, 65))
        top = rng.choice((0, 0, 1, 0x7F, 0x80, 0xFF))
        zeros = rng.choice((0, 0, 1, 3)) if n > 1 else 0
        val = bytes(rng.getrandbits(8) for _ in range(n - 1 - min(zeros, n - 1))) + bytes([top]) + bytes(min(zeros, n - 1))
        tag = rng.choice((0x02, 0x02, 0x5F29))
        if not ctx.case(["derTUINTEnc", tag, val], "enc:UINT:top=%02x:zeros=%d" % (top, zeros)):
            continue
        m = int.from_bytes(val, "little")
        e = enc_call(lib, lib.derTUINTEnc, tag, lib.mk(val), len(val))
        judge_enc("derTUINTEnc", ["derTUINTEnc", hex(tag), val.hex()], "enc:UINT", tag, D.enc(tag, D.uint_enc(m)), e,
                  [("derTUINTDec", (tag,)), ("derTUINTDec2", (tag, max(1, (m.bit_length() + 7) // 8)))])
        lib.release()
    # E. BIT (the encoder must clear the padding bits itself)
    for nbits in list(range(0, 18)) + [61, 63, 64, 65, 511, 512, 1023, 1024]:
        val = bytes(rng.getrandbits(8) | 1 for _ in range((nbits + 7) // 8))
        tag = 0x03 if nbits % 5 else 0x83
        if not ctx.case(["derTBITEnc", tag, val, nbits], "enc:BIT:rem=%d" % (nbits % 8)):
            continue
        e = enc_call(lib, lib.derTBITEnc, tag, lib.mk(val), nbits)
        judge_enc("derTBITEnc", ["derTBITEnc", hex(tag), val.hex(), nbits], "enc:BIT", tag, D.enc(tag, D.bit_enc(val, nbits)), e,
                  [("derTBITDec", (tag,)), ("derTBITDec2", (tag, nbits))])
        lib.release()
    # F. OID strings: oidIsValid <=> model, derOIDEnc / oidToDER, and back
    alphabet = "0123459."
    strings = list(OID_STRINGS)
    strings += [a + b + c + d for a in "012." for b in "." + "04" for c in alphabet for d in alphabet + " "]
    strings += ["1.2." + "".join(rng.choice("0123456789") for _ in range(rng.randint(1, 11))) for _ in range(40)]
    strings += ["2." + str(v) for v in (2 ** 32 - 82, 2 ** 32 - 81, 2 ** 32 - 80, 2 ** 32 - 1)]
    for s in strings:
        s = s.rstrip(" ")
        valid = D.oid_valid(s)
        cls = "oid:string:" + ("valid" if valid else "invalid")
        if not ctx.case(["oid", s], cls):
            continue
        r = lib.oidIsValid(lib.cstr(s))
        ctx.digest(r)
        if bool(r) != valid:
            viol("oidIsValid:%s" % ("accepts-invalid" if r else "rejects-valid"), "oidIsValid disagrees with oid.h", oid=s, got=r)
        for fn in ("derOIDEnc", "oidToDER"):
            e = enc_call(lib, getattr(lib, fn), lib.cstr(s))
            judge_enc(fn, [fn, s], cls, None, D.enc(0x06, D.oid_enc(s)) if valid else None, e,
                      [("derOIDDec", ()), ("derOIDDec2", (s,)), ("oidFromDER", ())] if fn == "derOIDEnc" else [])
        lib.release()
    # G. PrintableString
    for s in (b"", b"BYCA0000", b"Hello, world (1+1=2)?", bytes(sorted(D.PRINTABLE)), b"a*b", b"a@b", b"a_b", b"a&b", b"\x80", b"\x7f", b"a\tb", b"A" * 200):
        valid = all(c in D.PRINTABLE for c in s)
        for tag in (0x13, 0x42, 0x5F20):
            cls = "enc:PSTR:" + ("printable" if valid else "not-printable")
            if not ctx.case(["derTPSTREnc", tag, s], cls):
                continue
            e = enc_call(lib, lib.derTPSTREnc, tag, lib.cstr(s))
            judge_enc("derTPSTREnc", ["derTPSTREnc", hex(tag), s.hex()], cls, tag, D.enc(tag, s) if valid else None, e, [("derTPSTRDec", (tag,))])
            lib.release()
    # H. SEQ: EncStart / content / EncStop (both the counting and the writing mode), then DecStart / DecStop
    for tag in (0x30, 0x7F21, 0xA0, 0x65):
        for n in (0, 1, 126, 127, 128, 129, 255, 256, 300, 65535, 65536):
            content = bytes(rng.getrandbits(8) for _ in range(min(n, 300))) + bytes(max(0, n - 300))
            if not ctx.case(["derTSEQEnc", tag, n], "enc:SEQ:lenlen=%d" % len(D.len_enc(n))):
                continue
            model = D.enc(tag, content)
            a = lib.alloc(32)
            t0 = lib.derTSEQEncStart(a, 0, 7, tag)
            s0 = lib.derTSEQEncStop(0, 7 + t0 + n, a) if t0 != SM else SM
            got = None
            if t0 != SM and s0 != SM and t0 + n + s0 == len(model):
                buf = lib.alloc(len(model))
                a2 = lib.alloc(32)
                t1 = lib.derTSEQEncStart(a2, buf, 0, tag)
                lib.wr(buf + t1, content)
                s1 = lib.derTSEQEncStop(buf + t1 + n, t1 + n, a2)
                got = lib.rd(buf, len(model)) if (t1, s1) == (t0, s0) else Odd("counting-and-writing-differ")
            ctx.digest(t0, s0, got if isinstance(got, bytes) else repr(got))
            if got != model:
                viol("derTSEQEnc:wrong-encoding:lenlen=%d" % len(D.len_enc(n)), "derTSEQEncStart/Stop do not produce the DER code of the content",
                     tag=hex(tag), n=n, start=t0, stop=s0, got=got if not isinstance(got, bytes) else got[:16], expected=model[:16])
            else:
                run_der_case(ctx, calls, "derTSEQDecStart", model, (tag,), "enc:SEQ", reported)
            lib.release()
    # SEQ with a primitive tag: SIZE_MAX expected on both sides
    for tag in (0x04, 0x5F29):
        if ctx.case(["derTSEQ-primitive-tag", tag], "enc:SEQ:primitive-tag"):
            a = lib.alloc(32)
            r1 = lib.derTSEQEncStart(a, 0, 0, tag)
            r2 = lib.derTSEQDecStart(a, lib.mk(D.enc(tag, b"")), len(D.enc(tag, b"")), tag)
            ctx.digest(r1, r2)
            if r1 != SM or r2 != SM:
                viol("derTSEQ:accepts-primitive-tag", "expect{SIZE_MAX}: the tag has no constructed bit", tag=hex(tag), got=[r1, r2])
            lib.release()


# =============================================================================================
# exhaustive TL domain (C harness drv/tl_exhaust.c)
# =============================================================================================

def _clean_env():
    env = {k: v for k, v in os.environ.items() if k not in ("LD_PRELOAD",)}
    env["ASAN_OPTIONS"] = "detect_leaks=0:handle_abort=1:symbolize=1:abort_on_error=0:exitcode=66"
    env["UBSAN_OPTIONS"] = "print_stacktrace=1:halt_on_error=1:exitcode=67"
    return env


def _harness_exe(cfg):
    saved = os.environ.pop("LD_PRELOAD", None)       # the compiler must not run under the preloaded sanitizer runtime
    try:
        return build.build_harness(cfg, "tl_exhaust", ["tl_exhaust.c"])
    except Exception as e:
        raise Harness("tl_exhaust harness build failed: %s" % e)
    finally:
        if saved is not None:
            os.environ["LD_PRELOAD"] = saved


def oracle_crosscheck(ctx, exe):
    """the harness' C oracle against ref/der.py: all strings of length <= 2 and a structured random sample"""
    rng = ctx.rng
    xs = [b""] + [bytes([a]) for a in range(256)] + [bytes([a, b]) for a in range(256) for b in range(256)]
    firsts = [0x04, 0x30, 0x1F, 0x7F, 0x5F, 0xFF, 0x00, 0x1E, 0x9F]
    for _ in range(int(20000 * ctx.params.get("scale", 1.0)) + 200):
        t = bytes([rng.choice(firsts)]) if rng.random() < 0.7 else bytes([rng.getrandbits(8)])
        if t[0] & 31 == 31:
            t += bytes(rng.choice((0x00, 0x80, 0x81, 0x1E, 0x1F, 0x7F, 0xFF, rng.getrandbits(8))) for _ in range(rng.randint(0, 4)))
        lf = rng.random()
        if lf < 0.4:
            l = bytes([rng.getrandbits(7)])
        elif lf < 0.5:
            l = bytes([rng.choice((0x80, 0xFF))])
        else:
            r = rng.randint(1, 10)
            l = bytes([0x80 + r]) + bytes(rng.choice((0, 0, 1, 0x7F, 0x80, 0xFF, rng.getrandbits(8))) for _ in range(rng.randint(max(0, r - 2), r)))
        xs.append(t + l + bytes(rng.getrandbits(8) for _ in range(rng.randint(0, 6))))
    p = subprocess.run([exe, "oracle"], input="".join(x.hex() + "\n" for x in xs), capture_output=True, text=True, env=_clean_env())
    lines = p.stdout.splitlines()
    if p.returncode != 0 or len(lines) != len(xs):
        raise Harness("tl_exhaust oracle mode failed: rc=%s %s" % (p.returncode, p.stderr[-500:]))
    for x, line in zip(xs, lines):
        o = json.loads(line)
        try:
            t, L, n = D.tl_dec(x)
            m = {"ok_tl": 1, "tag": t, "len": L, "tl": n}
            try:
                D.dec(x)
                m["ok_v"], why = 1, "ok"
            except D.Bad as e:
                m["ok_v"], why = 0, e.reason
        except D.Bad as e:
            m, why = {"ok_tl": 0, "ok_v": 0}, e.reason
        if any(o[k] != v for k, v in m.items()) or o["why"].split("-")[0] != why.split("-")[0]:
            raise Harness("C oracle and ref/der.py disagree on %s: C=%s python=%s/%s" % (x.hex(), o, m, why))
    return len(xs)


def unit_tl_exhaust(ctx):
    """all octet strings of length 0..3 whose first octet lies in [lo, hi) (plus the empty string in chunk 0)"""
    models()
    exe = _harness_exe(ctx.cfg)
    lo, hi = ctx.params["lo"], ctx.params["hi"]
    with_empty = 1 if lo == 0 else 0
    total = (hi - lo) * (1 + 256 + 65536) + with_empty
    if lo == 0:
        if ctx.case(["oracle-crosscheck"], "exhaustive:oracle-crosscheck"):
            n = oracle_crosscheck(ctx, exe)
            ctx.digest(n)
            ctx.note("c_oracle_vs_python_model_strings_compared", n)
    skip, crashes = 0, 0
    classes, mism = {}, {}
    while skip < total:
        if not ctx.case(["tl_exhaust", lo, hi, skip], "exhaustive:harness-run"):
            pass
        p = subprocess.run([exe, "run", str(lo), str(hi), str(skip), str(with_empty)], capture_output=True, text=True, env=_clean_env())
        done = None
        for line in p.stdout.splitlines():
            try:
                o = json.loads(line)
            except ValueError:
                continue
            if "class" in o:
                classes[o["class"]] = classes.get(o["class"], 0) + o["n"]
            elif "mismatch" in o:
                m = mism.setdefault(o["mismatch"], dict(o, n=0))
                m["n"] += o["n"]
            elif "done" in o:
                done = o["done"]
        if done is not None and p.returncode == 0:
            break
        m = re.search(r'\{"crash_index":(\d+),"input":"([0-9a-f]*)","fn":"([^"]*)"\}', p.stderr)
        if not m:
            raise Harness("tl_exhaust died without naming its input: rc=%s %s" % (p.returncode, p.stderr[-800:]))
        idx, inp, fn = int(m.group(1)), m.group(2), m.group(3)
        key, kind = core.classify_crash(p.stderr, p.returncode)
        if kind.startswith("exit:"):
            raise Harness("tl_exhaust failed: rc=%s %s" % (p.returncode, p.stderr[-800:]))
        parts = key.split(":")
        if parts[-1] == "?" or parts[-1] == "main" or parts[-1] == "one":
            parts[-1] = fn
        ctx.violation(":".join(parts), "library crashed / sanitizer report in the exhaustive TL domain: " + kind,
                      {"input": inp, "function": fn, "stderr": p.stderr[-3000:]},
                      replay={"unit": "c08:unit_tl_one", "params": {"input": inp}})
        crashes += 1
        skip = idx + 1
        if crashes > 40:
            raise Harness("tl_exhaust: more than 40 crashing inputs in [%d,%d); remaining inputs not run" % (lo, hi))
    for c, n in classes.items():
        ctx.count(n, "tl:" + c if not c.startswith("tl:") else c, distinct=n)
    ctx.digest(json.dumps(classes, sort_keys=True), json.dumps({k: v["n"] for k, v in mism.items()}, sort_keys=True))
    for key, o in sorted(mism.items()):
        ctx.violation(key, "exhaustive TL domain: %d input(s) in first-octet range [%d,%d) where bee2 and the strict DER oracle differ" % (o["n"], lo, hi),
                      {"first_input": o["input"], "got": o["got"], "expected": o["want"], "count": o["n"]},
                      replay={"unit": "c08:unit_tl_one", "params": {"input": o["input"]}})
    ctx.note("exhaustive_inputs", sum(classes.values()))


def unit_tl_one(ctx):
    """replay of one literal input through the harness (same functions, same oracle, same keys as unit_tl_exhaust)"""
    models()
    exe = _harness_exe(ctx.cfg)
    inp = ctx.params["input"]
    ctx.case(["tl_exhaust-one", inp], "replay")
    p = subprocess.run([exe, "one", inp], capture_output=True, text=True, env=_clean_env())
    for line in p.stdout.splitlines():
        try:
            o = json.loads(line)
        except ValueError:
            continue
        if "mismatch" in o:
            ctx.violation(o["mismatch"], "bee2 and the strict DER oracle differ", {"input": inp, "got": o["got"], "expected": o["want"]})
    if p.returncode != 0:
        m = re.search(r'"fn":"([^"]*)"', p.stderr)
        key, kind = core.classify_crash(p.stderr, p.returncode)
        parts = key.split(":")
        if parts[-1] in ("?", "main", "one") and m:
            parts[-1] = m.group(1)
        ctx.violation(":".join(parts), "library crashed / sanitizer report: " + kind, {"input": inp, "stderr": p.stderr[-3000:]})


# =============================================================================================
# APDU
# =============================================================================================
CMD_HDR, RESP_HDR = 24, 16          # sizeof(apdu_cmd_t), sizeof(apdu_resp_t): 4 octets + padding + two / one size_t


def cmd_struct(cla, ins, p1, p2, cdf, rdf_len):
    return bytes([cla, ins, p1, p2]) + bytes(4) + rdf_len.to_bytes(8, "little") + len(cdf).to_bytes(8, "little") + bytes(cdf)


def cmd_unstruct(b):
    return {"cla": b[0], "ins": b[1], "p1": b[2], "p2": b[3], "pad": b[4:8], "rdf_len": int.from_bytes(b[8:16], "little"),
            "cdf_len": int.from_bytes(b[16:24], "little"), "cdf": b[24:]}


def resp_struct(sw1, sw2, rdf):
    return bytes([sw1, sw2]) + bytes(6) + len(rdf).to_bytes(8, "little") + bytes(rdf)


def apdu_layout_check(lib):
    p = lib.mk(H("01020304"))
    if lib.apduCmdDec(0, p, 4) != CMD_HDR or lib.apduRespDec(0, p, 2) != RESP_HDR:
        raise Harness("apdu_cmd_t / apdu_resp_t layout is not what the check assumes")
    c = lib.alloc(CMD_HDR)
    lib.apduCmdDec(c, p, 4)
    if lib.rd(c, CMD_HDR) != cmd_struct(1, 2, 3, 4, b"", 0):
        raise Harness("apdu_cmd_t field offsets are not what the check assumes")
    lib.release()


def apdu_dec_inputs(rng, scale):
    """(class, octets) for apduCmdDec: every Lc form x Le form x data length, wrong announced lengths, truncations,
    header extremes, and all short bodies over a small alphabet"""
    out = []
    lens = list(range(0, 301))
    if scale < 1.0:
        keep = {0, 1, 2, 3, 4, 5, 6, 7, 8, 127, 128, 129, 254, 255, 256, 257, 258, 299, 300}
        lens = [n for n in lens if n in keep or n % max(2, round(1 / scale)) == 0]
    le_forms = [("none", b"")] + [("1", bytes([v])) for v in (0, 1, 0xFF)] + \
               [("2", v.to_bytes(2, "big")) for v in (0, 1, 0x100, 0x101, 0xFFFF)] + \
               [("3", b"\0" + v.to_bytes(2, "big")) for v in (0, 1, 0x100, 0x101, 0xFFFF)] + [("3nz", H("010000")), ("3nz", H("01ffff")), ("4", H("00000001"))]
    for n in lens:
        data = bytes(rng.getrandbits(8) | 1 for _ in range(n))
        hdr = bytes(rng.choice((0x00, 0xFF, 0x04, 0x80, rng.getrandbits(8))) for _ in range(4))
        lc_forms = [("none", b"")]
        for m in sorted({n, n + 1, max(0, n - 1)}):
            if 1 <= m <= 255:
                lc_forms.append(("short" if m == n else "short-wrong", bytes([m])))
            lc_forms.append(("ext" if m == n else "ext-wrong", b"\0" + m.to_bytes(2, "big")))
        for lcn, lc in lc_forms:
            for len_, le in le_forms:
                out.append(("apdu:dec:lc=%s:le=%s" % (lcn, len_), hdr + lc + (data if lcn != "none" or n <= 3 else b"") + le))
    for cdf_len, rdf_len in ((0, 0), (0, 1), (0, 256), (0, 257), (0, 65536), (3, 0), (3, 5), (255, 256), (255, 257), (256, 1), (300, 65536)):
        e = A.cmd_enc(0, 0xA4, 4, 4, bytes(range(1, 256)) * 2 if cdf_len > 255 else bytes(range(1, cdf_len + 1)), rdf_len)[:4 + 3 + cdf_len + 3]
        e = A.cmd_enc(0, 0xA4, 4, 4, (bytes(range(1, 256)) * 2)[:cdf_len], rdf_len)
        for k in range(len(e)):
            if len(e) > 40 and 12 < k < len(e) - 8 and k % 23:
                continue
            out.append(("apdu:dec:truncated", e[:k]))
    alpha = (0x00, 0x01, 0x02, 0x03, 0xFF)
    bodies = [b""]
    for _ in range(5):
        bodies = bodies + [b + bytes([a]) for b in bodies if len(b) == len(bodies[-1]) for a in alpha]
    for b in bodies:
        out.append(("apdu:dec:small-body-%d" % len(b), H("00a40400") + b))
    return out


def unit_apdu(ctx):
    models()
    lib = ctx.lib
    rng = ctx.rng
    apdu_layout_check(lib)
    scale = ctx.params.get("scale", 1.0)
    part = ctx.params["part"]
    reported = set()
    tally = {}

    def viol(key, what, **d):
        if key not in reported:
            reported.add(key)
            ctx.violation(key, what, d)

    def decode(x):
        """probe-then-copy apduCmdDec -> None | struct dict | Odd"""
        p = lib.mk(x)
        r = lib.apduCmdDec(0, p, len(x))
        if r == SM:
            return None
        if r < CMD_HDR or r - CMD_HDR > len(x):
            return Odd("size-beyond-input:%d" % r)
        c = lib.alloc(r)
        r2 = lib.apduCmdDec(c, p, len(x))
        if r2 != r:
            return Odd("probe-and-copy-differ")
        d = cmd_unstruct(lib.rd(c, r))
        return d if d["cdf_len"] == r - CMD_HDR and d["pad"] == bytes(4) else Odd("struct-inconsistent")

    if part == "roundtrip":
        for cdf_len in list(range(0, 301)) + [65535]:
            for rdf_len in (0, 1, 2, 255, 256, 257, 65535, 65536):
                hdr = (0x00, 0xA4, 0x04, 0x04) if (cdf_len + rdf_len) % 3 else (0xFF, 0xFF, 0xFF, 0xFF)
                cdf = bytes(rng.getrandbits(8) for _ in range(cdf_len))
                if not ctx.case(["apduCmd-roundtrip", hdr[0], cdf_len, rdf_len], "apdu:roundtrip:%s%s" % (
                        "lc0" if cdf_len == 0 else "lcS" if cdf_len < 256 else "lcE", "le0" if rdf_len == 0 else "leS" if rdf_len <= 256 else "leE")):
                    continue
                st = cmd_struct(*hdr, cdf, rdf_len)
                p = lib.mk(st)
                if not lib.apduCmdIsValid(p):
                    viol("apduCmdIsValid:rejects-valid", "admissible command declared invalid", cdf_len=cdf_len, rdf_len=rdf_len)
                    lib.release()
                    continue
                e = enc_call(lib, lib.apduCmdEnc, p)
                m = A.cmd_enc(*hdr, cdf, rdf_len)
                ctx.digest(e if isinstance(e, bytes) else repr(e))
                if e != m:
                    viol("apduCmdEnc:wrong-encoding", "apduCmdEnc differs from the coding rules of apdu.h", cdf_len=cdf_len, rdf_len=rdf_len,
                         got=e[:12] if isinstance(e, bytes) else e, expected=m[:12])
                else:
                    d = decode(e)
                    if isinstance(d, Odd) or d is None:
                        viol("apduCmdDec:rejects-own-encoding" if d is None else "apduCmdDec:" + d.split(":")[0], "Dec(Enc(cmd)) fails", cdf_len=cdf_len, rdf_len=rdf_len, got=d)
                    elif cmd_struct(d["cla"], d["ins"], d["p1"], d["p2"], d["cdf"], d["rdf_len"]) != st:
                        viol("apduCmdDec:roundtrip-differs", "Dec(Enc(cmd)) != cmd", cdf_len=cdf_len, rdf_len=rdf_len, got=d)
                lib.release()
        # commands the header excludes
        for cdf_len, rdf_len in ((65536, 0), (0, 65537), (70000, 1)):
            if ctx.case(["apduCmdIsValid", cdf_len, rdf_len], "apdu:isvalid:out-of-range"):
                r = lib.apduCmdIsValid(lib.mk(cmd_struct(0, 0, 0, 0, bytes(cdf_len), rdf_len)))
                ctx.digest(r)
                if r:
                    viol("apduCmdIsValid:accepts-invalid", "lengths beyond 65535 / 65536 accepted", cdf_len=cdf_len, rdf_len=rdf_len)
                lib.release()
    elif part == "dec":
        k, n = ctx.params["chunk"], ctx.params["of"]
        for i, (cls, x) in enumerate(apdu_dec_inputs(random.Random("c08/apdu/%s" % ctx.seed), scale)):
            if i % n != k:
                continue
            ps = A.cmd_parses(x)
            if len(ps) > 1:
                raise Harness("apdu model: ambiguous reading of " + x.hex())
            verdict = "illegal" if not ps else ("legal-" + ps[0]["form"] + ("" if ps[0]["minimal"] else "-nonminimal"))
            if not ctx.case(["apduCmdDec", xdesc(x), cls], cls):
                continue
            d = decode(x)
            ctx.digest(repr(d) if not isinstance(d, dict) else json.dumps({k_: (v.hex() if isinstance(v, bytes) else v) for k_, v in d.items()}, sort_keys=True))
            body = x[4:]
            if isinstance(d, Odd):
                viol("apduCmdDec:" + d.split(":")[0], "apduCmdDec: " + d, input=x.hex())
            elif d is None:
                tally[verdict + ":rejected"] = tally.get(verdict + ":rejected", 0) + 1
                if ps and ps[0]["minimal"]:
                    viol("apduCmdDec:rejects-legal:" + ps[0]["form"], "a command coded by rules 1-6 in its shortest form is rejected", input=x.hex())
            else:
                tally[verdict + ":accepted"] = tally.get(verdict + ":accepted", 0) + 1
                if not ps:
                    shape = "extended-Lc=0000" if len(body) > 3 and body[:3] == bytes(3) else "other"
                    viol("apduCmdDec:accepts-illegal:" + shape, "apduCmdDec accepts a string that rules 1-6 of apdu.h exclude",
                         input=x.hex() if len(x) < 200 else xdesc(x), got={"cdf_len": d["cdf_len"], "rdf_len": d["rdf_len"]})
                else:
                    q = ps[0]
                    if (d["cla"], d["ins"], d["p1"], d["p2"], d["cdf"], d["rdf_len"]) != (q["cla"], q["ins"], q["p1"], q["p2"], q["cdf"], q["rdf_len"]):
                        viol("apduCmdDec:wrong-result:" + q["form"], "decoded command differs from the reading apdu.h prescribes", input=x.hex(),
                             got={"cdf_len": d["cdf_len"], "rdf_len": d["rdf_len"]}, expected={"cdf_len": len(q["cdf"]), "rdf_len": q["rdf_len"]})
                # what was decoded must be encodable and decode to itself again
                st = cmd_struct(d["cla"], d["ins"], d["p1"], d["p2"], d["cdf"], d["rdf_len"])
                e = enc_call(lib, lib.apduCmdEnc, lib.mk(st))
                d2 = decode(e) if isinstance(e, bytes) else e
                if not isinstance(d2, dict) or cmd_struct(d2["cla"], d2["ins"], d2["p1"], d2["p2"], d2["cdf"], d2["rdf_len"]) != st:
                    viol("apduCmdDec:decoded-command-does-not-roundtrip", "Dec(Enc(Dec(x))) != Dec(x)", input=x.hex())
            lib.release()
        ctx.note("apdu_dec_tally", tally)
    elif part == "resp":
        for n in list(range(0, 303)) + [65538]:
            x = bytes(rng.getrandbits(8) for _ in range(n))
            if not ctx.case(["apduRespDec", n], "apdu:resp:" + ("short" if n < 2 else "sw-only" if n == 2 else "rdf")):
                continue
            p = lib.mk(x)
            r = lib.apduRespDec(0, p, n)
            m = A.resp_parse(x)
            ctx.digest(r)
            if (r == SM) != (m is None):
                viol("apduRespDec:%s" % ("rejects-valid" if m else "accepts-invalid"), "apduRespDec disagrees with apdu.h", n=n)
            elif m:
                if r != RESP_HDR + n - 2:
                    viol("apduRespDec:wrong-size", "size is not sizeof(apdu_resp_t) + rdf_len", n=n, got=r)
                else:
                    c = lib.alloc(r)
                    r2 = lib.apduRespDec(c, p, n)
                    st = lib.rd(c, r)
                    ctx.digest(st)
                    if r2 != r or st != resp_struct(m["sw1"], m["sw2"], m["rdf"]):
                        viol("apduRespDec:wrong-result", "decoded response differs", n=n)
                    elif not lib.apduRespIsValid(c) and n - 2 <= 65536:
                        viol("apduRespIsValid:rejects-decoded", "decoded response declared invalid", n=n)
                    elif n - 2 <= 65536:
                        e = enc_call(lib, lib.apduRespEnc, c)
                        if e != x:
                            viol("apduRespEnc:roundtrip-differs", "Enc(Dec(x)) != x", n=n)
            lib.release()


# =============================================================================================
# hex / base64 / decimal strings
# =============================================================================================
B64_ALPHABET = b"ABCDEFGHIJKLMNOPQRSTUVWXYZabcdefghijklmnopqrstuvwxyz0123456789+/"


def hex_valid(s):
    return len(s) % 2 == 0 and all(c in b"0123456789abcdefABCDEF" for c in s)


def dec_valid(s):
    return all(c in b"0123456789" for c in s)


def b64_valid(s):
    """b64.h: length multiple of 4, alphabet, optional 1-2 '=' at the end, zero padding bits - i.e. exactly the strings
    the standard encoder can produce"""
    if len(s) % 4 or any(c not in B64_ALPHABET + b"=" for c in s):
        return False
    try:
        return base64.b64encode(base64.b64decode(s, validate=True)) == s
    except Exception:
        return False


def luhn_ok(s):
    tot = 0
    for i, c in enumerate(reversed(s)):
        d = c - 48
        if i % 2:
            d = d * 2 - 9 if d * 2 > 9 else d * 2
        tot += d
    return tot % 10 == 0


DAMM = ["0317598642", "7092154863", "4206871359", "1750983426", "6123045978", "3674209581", "5869720134", "8945362017", "9438617205", "2581436790"]


def damm_digit(s):
    t = 0
    for c in s:
        t = int(DAMM[t][c - 48])
    return t


def text_selftest():
    if not (luhn_ok(b"79927398713") and not luhn_ok(b"79927398710") and damm_digit(b"572") == 4 and damm_digit(b"5724") == 0
            and b64_valid(b"AAA=") and not b64_valid(b"AAB=") and b64_valid(b"") and not b64_valid(b"A===") and hex_valid(b"aF") and not hex_valid(b"a")):
        raise Harness("text model self-test failed")


def unit_text(ctx):
    models()
    text_selftest()
    lib = ctx.lib
    rng = ctx.rng
    part = ctx.params["part"]
    scale = ctx.params.get("scale", 1.0)
    reported = set()

    def viol(key, what, **d):
        if key not in reported:
            reported.add(key)
            ctx.violation(key, what, d)

    def validators(s, cls):
        """hexIsValid / b64IsValid / decIsValid on one exact-size C string"""
        if not ctx.case(["IsValid", s], cls):
            return
        p = lib.cstr(s)
        got = (lib.hexIsValid(p), lib.b64IsValid(p), lib.decIsValid(p))
        ctx.digest(*got)
        for fn, g, m in zip(("hexIsValid", "b64IsValid", "decIsValid"), got, (hex_valid(s), b64_valid(s), dec_valid(s))):
            if bool(g) != m:
                viol("%s:%s" % (fn, "accepts-invalid" if g else "rejects-valid"), "%s disagrees with its header" % fn, string=s, got=g)
        lib.release()

    if part == "exhaustive":
        k, n = ctx.params["chunk"], ctx.params["of"]
        if k == 0:
            validators(b"", "text:len0")
        for a in range(1, 256):
            if a % n != k:
                continue
            validators(bytes([a]), "text:len1")
            for b in range(1, 256):
                validators(bytes([a, b]), "text:len2")
    elif part == "b64quads":
        tail = B64_ALPHABET + b"=-\x80"
        for head in (b"AA", b"Q/", b"=A", b"A="):
            for c in tail:
                for d in tail:
                    if scale < 1.0 and (c * 67 + d) % max(1, round(1 / scale)):
                        continue
                    validators(head + bytes([c, d]), "text:b64:quad:" + ("pad2" if (c, d) == (61, 61) else "pad1" if d == 61 else "pad-inside" if c == 61 else "nopad"))
    elif part == "random":
        cnt = int((1500 if ctx.params.get("deep") else 400) * scale) + 20
        for i in range(cnt):
            n = rng.choice((0, 1, 2, 3, 4, 5, 7, 8, 15, 16, 17, 31, 32, 33, 64, 100, 255))
            raw = bytes(rng.getrandbits(8) for _ in range(n))
            # --- hex
            style = rng.choice(("upper", "lower", "mixed"))
            hx = raw.hex().encode()
            hx = hx.upper() if style == "upper" else hx if style == "lower" else bytes(c ^ 0x20 if 97 <= c <= 102 and rng.random() < .5 else c for c in hx)
            bad = rng.choice(("none", "odd", "badchar"))
            s = hx if bad == "none" else hx[:-1] if bad == "odd" and hx else hx + b"g" if bad == "odd" else \
                (hx[:rng.randrange(len(hx))] + bytes([rng.choice(b"gGxX :-/@`\x80")]) + hx[:1] if hx else b"zz")
            validators(s, "text:hex:%s:%s" % (style, bad))
            if bad == "none" and ctx.case(["hex-roundtrip", raw, style], "text:hex:roundtrip:" + style):
                o = lib.alloc(2 * n + 1)
                lib.hexFrom(o, lib.mk(raw), n)
                e = lib.rd(o, 2 * n + 1)
                o2 = lib.alloc(2 * n + 1)
                lib.hexFromRev(o2, lib.mk(raw), n)
                e2 = lib.rd(o2, 2 * n + 1)
                d = lib.alloc(n)
                lib.hexTo(d, lib.cstr(hx))
                d2 = lib.alloc(n)
                lib.hexToRev(d2, lib.cstr(hx))
                up, lo = lib.cstr(hx), lib.cstr(hx)
                lib.hexUpper(up)
                lib.hexLower(lo)
                other = bytes([raw[0] ^ 1]) + raw[1:] if n else b""
                got = (e, e2, lib.rd(d, n), lib.rd(d2, n), lib.rd(up, 2 * n + 1), lib.rd(lo, 2 * n + 1),
                       lib.hexEq(lib.mk(raw), lib.cstr(hx)), lib.hexEqRev(lib.mk(raw[::-1]), lib.cstr(hx)),
                       lib.hexEq(lib.mk(other), lib.cstr(hx)) if n else 0, lib.hexEqRev(lib.mk(other[::-1]), lib.cstr(hx)) if n else 0)
                ctx.digest(*got)
                exp = (raw.hex().upper().encode() + b"\0", raw[::-1].hex().upper().encode() + b"\0", raw, raw[::-1],
                       hx.upper() + b"\0", hx.lower() + b"\0", 1, 1, 0, 0)
                names = ("hexFrom", "hexFromRev", "hexTo", "hexToRev", "hexUpper", "hexLower", "hexEq", "hexEqRev", "hexEq", "hexEqRev")
                for fn, g, m in zip(names, got, exp):
                    if g != m:
                        viol("%s:wrong-result" % fn, "%s disagrees with bytes.hex()/fromhex()" % fn, raw=raw, hex=hx, got=g, expected=m)
                lib.release()
            # --- base64
            b64 = base64.b64encode(raw)
            kind = rng.choice(("valid", "valid", "padbits", "pad-inside", "extra-pad", "len%4", "url-chars", "no-pad", "newline"))
            s = b64
            if kind == "padbits" and n % 3:
                pos = len(b64) - (2 if n % 3 == 2 else 3)
                s = b64[:pos] + bytes([B64_ALPHABET[(B64_ALPHABET.index(b64[pos]) | 1)]]) + b64[pos + 1:]
            elif kind == "pad-inside" and len(b64) >= 4:
                s = b64[:1] + b"=" + b64[2:]
            elif kind == "extra-pad":
                s = b64 + b"===="
            elif kind == "len%4":
                s = b64 + b"A"
            elif kind == "url-chars" and b64:
                s = bytes([45]) + b64[1:-1] + bytes([95])
            elif kind == "no-pad":
                s = b64.rstrip(b"=")
            elif kind == "newline" and len(b64) >= 4:
                s = b64[:4] + b"\n" + b64[4:]
            validators(s, "text:b64:" + kind)
            if ctx.case(["b64-roundtrip", raw], "text:b64:roundtrip:rem%d" % (n % 3)):
                o = lib.alloc(4 * ((n + 2) // 3) + 1)
                lib.b64From(o, lib.mk(raw), n)
                e = lib.rd(o, 4 * ((n + 2) // 3) + 1)
                pc = lib.mk_size(0)
                lib.b64To(0, pc, lib.cstr(b64))
                cnt_ = lib.rd_size(pc)
                back = Odd("count-beyond-input:%d" % cnt_)
                if cnt_ <= len(b64):
                    d = lib.alloc(cnt_)
                    pc2 = lib.mk_size(cnt_)
                    lib.b64To(d, pc2, lib.cstr(b64))
                    back = lib.rd(d, cnt_) if lib.rd_size(pc2) == cnt_ else Odd("probe-and-copy-count-differ")
                ctx.digest(e, back if isinstance(back, bytes) else repr(back))
                if e != b64 + b"\0":
                    viol("b64From:wrong-result", "b64From disagrees with RFC 4648", raw=raw, got=e)
                if back != raw:
                    viol("b64To:wrong-result", "b64To(b64From(v)) != v", raw=raw, got=back)
                lib.release()
            # --- decimal
            digits = bytes(rng.choice(b"0123456789") for _ in range(rng.choice((0, 1, 2, 9, 10, 11, 15, 19, 20, 21, 40))))
            digits = bytes(rng.choice((0, 0, 1, 3))) .replace(b"\0", b"0") + digits
            kind = rng.choice(("digits", "digits", "sign", "space", "letter", "dot"))
            s = digits if kind == "digits" else {"sign": b"-", "space": b" ", "letter": b"a", "dot": b"."}[kind] + digits
            if kind != "digits" and rng.random() < .5:
                s = digits + s[:1]
            validators(s, "text:dec:" + kind)
            if ctx.case(["dec-values", digits], "text:dec:values:len%d" % min(len(digits), 21)):
                v = int(digits) if digits else 0
                p = lib.cstr(digits)
                got = [lib.decToU32(p), lib.decToU64(p), lib.decCLZ(p)]
                exp = [v % 2 ** 32, v % 2 ** 64, len(digits) - len(digits.lstrip(b"0"))]
                cnt_ = len(digits)
                o32, o64 = lib.alloc(cnt_ + 1), lib.alloc(cnt_ + 1)
                lib.decFromU32(o32, cnt_, v % 2 ** 32)
                lib.decFromU64(o64, cnt_, v % 2 ** 64)
                got += [lib.rd(o32, cnt_ + 1), lib.rd(o64, cnt_ + 1)]
                exp += [(b"%0*d" % (cnt_, v % 2 ** 32))[-cnt_:] + b"\0" if cnt_ else b"\0", (b"%0*d" % (cnt_, v % 2 ** 64))[-cnt_:] + b"\0" if cnt_ else b"\0"]
                lc, dc = lib.decLuhnCalc(p), lib.decDammCalc(p)
                got += [lib.decLuhnVerify(lib.cstr(digits + bytes([lc & 0xFF]))), lib.decDammVerify(lib.cstr(digits + bytes([dc & 0xFF]))), dc & 0xFF]
                exp += [1, 1, 48 + damm_digit(digits)]
                ok_l = 48 <= (lc & 0xFF) <= 57 and luhn_ok(digits + bytes([lc & 0xFF]))
                ctx.digest(*got, lc & 0xFF)
                names = ("decToU32", "decToU64", "decCLZ", "decFromU32", "decFromU64", "decLuhnVerify", "decDammVerify", "decDammCalc")
                for fn, g, m in zip(names, got, exp):
                    if g != m:
                        viol("%s:wrong-result" % fn, "%s disagrees with int()/str()" % fn, digits=digits, got=g, expected=m)
                if not ok_l:
                    viol("decLuhnCalc:wrong-result", "Luhn check digit is not the one that validates", digits=digits, got=lc)
                lib.release()


# =============================================================================================
# containers: bign parameters, CV certificates, bpki containers, secure messaging
# =============================================================================================

def truncations(x, dense=64):
    for k in range(len(x)):
        yield "truncated", k, x[:k]


MUT_OPS = (("xor01", lambda b: b ^ 0x01), ("xor80", lambda b: b ^ 0x80), ("set00", lambda b: 0x00), ("setff", lambda b: 0xFF))


def octet_mutants(x, nops):
    for pos in range(len(x)):
        for name, f in MUT_OPS[:nops]:
            y = x[:pos] + bytes([f(x[pos])]) + x[pos + 1:]
            if y != x:
                yield "mutated:" + name, pos, y


def length_fields(x, base=0):
    """positions (offset, octets) of every length field of a valid nested DER object"""
    out, pos = [], 0
    while pos < len(x):
        tag, nt = D.tag_dec(x, pos)
        L, nl = D.len_dec(x, pos + nt)
        out.append((base + pos + nt, nl, L))
        if D.tag_constructed(tag):
            out += length_fields(x[pos + nt + nl:pos + nt + nl + L], base + pos + nt + nl)
        pos += nt + nl + L
    return out


def length_splices(x):
    for off, nl, L in length_fields(x):
        forms = [("0x80", b"\x80"), ("0xFF", b"\xff"), ("SIZE_MAX", b"\x88" + b"\xff" * 8), ("SIZE_MAX-1", b"\x88" + b"\xff" * 7 + b"\xfe"),
                 ("SIZE_MAX-9", b"\x88" + b"\xff" * 7 + b"\xf6"), ("SIZE_MAX-12", b"\x88" + b"\xff" * 7 + b"\xf3"), ("2^32-1", b"\x84\xff\xff\xff\xff"),
                 ("L+1", D.len_enc(L + 1)), ("L-1", D.len_enc(max(0, L - 1))), ("0", b"\x00"),
                 ("nonminimal", b"\x81" + bytes([L]) if L < 128 else b"\x83\x00" + L.to_bytes(2, "big") if L < 65536 else b"\x80")]
        for name, f in forms:
            y = x[:off] + f + x[off + nl:]
            if y != x:
                yield "spliced-length:" + name, off, y


def container_variants(x, nops):
    yield from truncations(x)
    yield from octet_mutants(x, nops)
    yield from length_splices(x)
    yield "extended", len(x), x + b"\x00"
    yield "extended", len(x), x + x[:2]


def oid_value_ranges(x, base=0):
    """[start, end) of the content octets of every OBJECT IDENTIFIER in a valid nested DER object"""
    out, pos = [], 0
    while pos < len(x):
        tag, nt = D.tag_dec(x, pos)
        L, nl = D.len_dec(x, pos + nt)
        v = pos + nt + nl
        if tag == 0x06:
            out.append((base + v, base + v + L))
        elif D.tag_constructed(tag):
            out += oid_value_ranges(x[v:v + L], base + v)
        pos = v + L
    return out


def ordered_variants(x, nops, size_tags=(0x02,)):
    """container_variants with the shapes the current tree is known to mishandle first (see crash_prone):
    truncations ending inside a SIZE field and mutations of OID content octets. -> (label, pos, y, crashy)"""
    oids = oid_value_ranges(x)
    out = []
    for label, pos, y in container_variants(x, nops):
        crashy = False
        if label == "truncated":
            crashy = any(tsize_overread_shape(y[o:], t) for t in size_tags for o in range(max(0, len(y) - 4), len(y)))
        elif label.startswith("mutated"):
            crashy = any(a <= pos < b for a, b in oids)
        out.append((label, pos, y, crashy))
    out.sort(key=lambda v: 0 if v[3] else 1)
    return out


def strict_ok(y):
    try:
        D.walk(y)
        return None
    except D.Bad as e:
        return e.reason
    except RecursionError:
        return "nesting"


def brng_keys(lib, seed_octet, level):
    """deterministic bign key pair of the given level from a brngCTR tape (the library's own generator as gen_i)"""
    name = {96: "1.2.112.0.2.0.34.101.45.3.0", 128: "1.2.112.0.2.0.34.101.45.3.1", 192: "1.2.112.0.2.0.34.101.45.3.2",
            256: "1.2.112.0.2.0.34.101.45.3.3"}[level]
    ps = lib.alloc(336)
    if (lib.bign96ParamsStd if level == 96 else lib.bignParamsStd)(ps, lib.cstr(name)):
        raise Harness("bignParamsStd failed")
    st = lib.alloc(lib.brngCTR_keep())
    lib.brngCTRStart(st, lib.mk(bytes([seed_octet]) * 32), lib.mk(bytes(32)))
    priv, pub = lib.alloc(level // 4), lib.alloc(level // 2)
    if (lib.bign96KeypairGen if level == 96 else lib.bignKeypairGen)(priv, pub, ps, lib.addr("brngCTRStepR"), st):
        raise Harness("bignKeypairGen failed")
    out = lib.rd(priv, level // 4), lib.rd(pub, level // 2)
    lib.release()
    return out


# ---- bign parameters -----------------------------------------------------------------------------

PARAMS_SIZE = 8 + 5 * 64 + 8
OID_PRIMEFIELD = "1.2.112.0.2.0.34.101.45.4.1"


def params_model(y):
    """ECParameters as bign_params.c documents it -> (bign_params struct octets, has_cofactor)"""
    tag, kids = D.walk(y)
    if tag != 0x30 or not isinstance(kids, list) or len(kids) not in (5, 6):
        raise D.Bad("params-shape")
    shape = [k[0] for k in kids]
    if shape[:5] != [0x02, 0x30, 0x30, 0x04, 0x02] or shape[5:] not in ([], [0x02]):
        raise D.Bad("params-shape")
    ver, field, curve, yG, q = kids[:5]
    if D.uint_dec(ver[1]) != 1 or (len(kids) == 6 and D.uint_dec(kids[5][1]) != 1):
        raise D.Bad("params-version-or-cofactor")
    if [k[0] for k in field[1]] != [0x06, 0x02] or D.oid_dec(field[1][0][1]) != OID_PRIMEFIELD:
        raise D.Bad("params-fieldid")
    p = uint_le(field[1][1][1])
    no = len(p)
    if no not in (32, 48, 64):
        raise D.Bad("params-p-size")
    if [k[0] for k in curve[1]] != [0x04, 0x04, 0x03] or len(curve[1][0][1]) != no or len(curve[1][1][1]) != no:
        raise D.Bad("params-curve")
    seed, nbits = D.bit_dec(curve[1][2][1])
    if nbits != 64 or len(yG[1]) != no or len(uint_le(q[1])) != no:
        raise D.Bad("params-sizes")
    pad = lambda b: b + bytes(64 - len(b))
    return (no * 4).to_bytes(8, "little") + pad(p) + pad(curve[1][0][1]) + pad(curve[1][1][1]) + pad(uint_le(q[1])) + pad(yG[1]) + seed, len(kids) == 6


def _der_is_constructed(tag):
    t = tag
    while t > 0xFF:
        t >>= 8
    return bool(t & 0x20)


def oversized_variants(x, sizes=(65, 100, 330, 1000)):
    """well-formed DER in which ONE primitive element carries far more content octets than any field of the decoded
    structure can hold (all enclosing lengths are re-computed): a decoder must check the length before it copies"""
    out = []

    def prims(v, path):
        pos, i = 0, 0
        while pos < len(v):
            tag, val, n = D.dec(v[pos:])
            if _der_is_constructed(tag):
                prims(val, path + [i])
            else:
                found.append(path + [i])
            pos += n
            i += 1

    def rebuild(v, path, content):
        pos, i, acc = 0, 0, b""
        while pos < len(v):
            tag, val, n = D.dec(v[pos:])
            if i == path[0]:
                acc += D.enc(tag, content if len(path) == 1 else rebuild(val, path[1:], content))
            else:
                acc += v[pos:pos + n]
            pos += n
            i += 1
        return acc

    found = []
    try:
        prims(x, [])
    except Exception:
        return out
    for k, path in enumerate(found):
        for sz in sizes:
            content = bytes([0x01] + [((k + j) * 37 + 11) & 0xFF for j in range(sz - 1)])
            out.append(("oversized-element", k * 10000 + sz, rebuild(x, path, content)))
    return out


def unit_params(ctx):
    models()
    lib = ctx.lib
    reported = set()
    nops = 2 if ctx.params.get("scale", 1.0) < 1.0 else 4
    budget = {"size-truncation": 4}
    withheld = 0

    def viol(key, what, **d):
        if key not in reported:
            reported.add(key)
            ctx.violation(key, what, d)

    def dec(y):
        out = lib.alloc(PARAMS_SIZE)
        r = lib.bignParamsDec(out, lib.mk(y), len(y))
        return r, lib.rd(out, PARAMS_SIZE)

    def enc(st):
        pc = lib.mk_size(0)
        r = lib.bignParamsEnc(0, pc, lib.mk(st))
        if r:
            return r
        n = lib.rd_size(pc)
        if n > 4096:
            return Odd("absurd-size")
        o = lib.alloc(n)
        pc2 = lib.mk_size(n)
        r = lib.bignParamsEnc(o, pc2, lib.mk(st))
        return lib.rd(o, n) if r == 0 and lib.rd_size(pc2) == n else Odd("probe-and-encode-differ")

    for name in ("1.2.112.0.2.0.34.101.45.3.1", "1.2.112.0.2.0.34.101.45.3.2", "1.2.112.0.2.0.34.101.45.3.3"):
        ps = lib.alloc(PARAMS_SIZE)
        if lib.bignParamsStd(ps, lib.cstr(name)):
            raise Harness("bignParamsStd(%s) failed" % name)
        st = lib.rd(ps, PARAMS_SIZE)
        lib.release()
        lvl = name[-1]
        x = None
        if ctx.case(["bignParams-roundtrip", name], "params:roundtrip"):
            x = enc(st)
            ctx.digest(x if isinstance(x, bytes) else repr(x))
            try:
                m = params_model(x) if isinstance(x, bytes) else None
            except D.Bad as e:
                m = e
            if not isinstance(x, bytes) or not isinstance(m, tuple) or m[0] != st:
                viol("bignParamsEnc:wrong-encoding", "the encoding of standard parameters is not the documented ECParameters DER", name=name, got=x, model=repr(m))
                x = None
            else:
                r, back = dec(x)
                if r or back != st:
                    viol("bignParamsDec:roundtrip-differs", "Dec(Enc(params)) != params", name=name, ret=errname(r))
            lib.release()
        if x is None:
            x = enc(st)
            lib.release()
            if not isinstance(x, bytes):
                continue
        # the same object with the optional cofactor present (re-length the outer SEQUENCE)
        tag, v, n = D.dec(x)
        with_cof = D.enc(0x30, v + H("020101"))
        for sample, base in (("std" + lvl, x), ("std" + lvl + "+cofactor", with_cof)):
            if sample.endswith("cofactor") and lvl != "1":
                continue
            for label, pos, y, crashy in [("valid", 0, base, False)] + ordered_variants(base, nops) + \
                    [(l, p_, y_, False) for l, p_, y_ in oversized_variants(base)]:
                cls = "params:" + label
                # truncations that end between the header and the content of a SIZE field: the library is known to read on;
                # a few per job show it, the rest would only cost worker restarts
                if label == "truncated" and crashy:
                    if budget["size-truncation"] <= 0:
                        withheld += 1
                        continue
                    budget["size-truncation"] -= 1
                    cls = "params:truncated-inside-SIZE"
                if not ctx.case(["bignParamsDec", sample, label, pos, xdesc(y) if label != "valid" else "valid"], cls):
                    continue
                r, out = dec(y)
                ctx.digest(r, out if r == 0 else b"")
                try:
                    m = params_model(y)
                except D.Bad as e:
                    m = e
                if r == 0 and isinstance(m, D.Bad):
                    viol("bignParamsDec:accepts-invalid:" + m.reason, "bignParamsDec accepts what the strict model of ECParameters rejects", sample=sample, variant=label, pos=pos,
                         input=y.hex())
                elif r != 0 and not isinstance(m, D.Bad):
                    viol("bignParamsDec:rejects-valid:" + label.split(":")[0], "bignParamsDec rejects a well-formed ECParameters", sample=sample, variant=label, pos=pos, ret=errname(r))
                elif r == 0:
                    if out != m[0]:
                        viol("bignParamsDec:wrong-result", "decoded parameters differ from the model's reading", sample=sample, variant=label, pos=pos)
                    e = enc(out)
                    if isinstance(e, bytes):
                        canon = e if not m[1] else D.enc(0x30, D.dec(e)[1] + H("020101"))
                        if canon != y:
                            viol("bignParamsDec:reencode-differs", "Enc(Dec(x)) != x", sample=sample, variant=label, pos=pos, input=y.hex(), reencoded=e.hex())
                    elif isinstance(e, Odd):
                        viol("bignParamsEnc:" + e, "bignParamsEnc: " + e, sample=sample)
                lib.release()
    ctx.note("params_cases_withheld_to_bound_restarts", withheld)


# ---- CV certificates -----------------------------------------------------------------------------

class CVC(ctypes.Structure):
    _fields_ = [("authority", ctypes.c_char * 13), ("holder", ctypes.c_char * 13), ("pubkey", ctypes.c_ubyte * 128),
                ("pubkey_len", ctypes.c_size_t), ("from_", ctypes.c_ubyte * 6), ("until", ctypes.c_ubyte * 6),
                ("hat_eid", ctypes.c_ubyte * 5), ("hat_esign", ctypes.c_ubyte * 2), ("sig", ctypes.c_ubyte * 96), ("sig_len", ctypes.c_size_t)]


OID_BIGN_PUBKEY, OID_EID, OID_ESIGN, OID_ESIGN_EXT = "1.2.112.0.2.0.34.101.45.2.1", "1.2.112.0.2.0.34.101.79.6.1", "1.2.112.0.2.0.34.101.79.6.2", "1.2.112.0.2.0.34.101.79.8.1"


def cvc_model_enc(c, explicit_zero_eid=False, explicit_zero_esign=False):
    """the certificate btok_cvc.c documents, from decoded fields"""
    e, oid = D.enc, lambda s: D.enc(0x06, D.oid_enc(s))
    body = e(0x5F29, b"\0") + e(0x42, bytes(c.authority)) + e(0x7F49, oid(OID_BIGN_PUBKEY) + e(0x03, b"\0" + bytes(c.pubkey)[:c.pubkey_len])) + e(0x5F20, bytes(c.holder))
    if any(c.hat_eid) or explicit_zero_eid:
        body += e(0x7F4C, oid(OID_EID) + e(0x04, bytes(c.hat_eid)))
    body += e(0x5F25, bytes(c.from_)) + e(0x5F24, bytes(c.until))
    if any(c.hat_esign) or explicit_zero_esign:
        body += e(0x65, e(0x73, oid(OID_ESIGN_EXT) + e(0x7F4C, oid(OID_ESIGN) + e(0x04, bytes(c.hat_esign)))))
    return e(0x7F21, e(0x7F4E, body) + e(0x5F37, bytes(c.sig)[:c.sig_len]))


def cvc_make(lib, level, seed_octet, eid, esign, names=(b"BYCA0000", b"BYCA0000")):
    priv, pub = brng_keys(lib, seed_octet, level)
    c = CVC()
    c.authority, c.holder = names
    for i, v in enumerate((2, 2, 0, 7, 0, 7)):
        c.from_[i] = v
    for i, v in enumerate((9, 9, 1, 2, 3, 1)):
        c.until[i] = v
    for i in range(5):
        c.hat_eid[i] = eid[i]
    for i in range(2):
        c.hat_esign[i] = esign[i]
    pl = lib.mk_size(0)
    pc = lib.mk(bytes(c))
    if lib.btokCVCWrap(0, pl, pc, lib.mk(priv), len(priv)):
        raise Harness("btokCVCWrap (probe) failed")
    n = lib.rd_size(pl)
    cert = lib.alloc(n)
    pc = lib.mk(bytes(c))
    r = lib.btokCVCWrap(cert, pl, pc, lib.mk(priv), len(priv))
    if r or lib.rd_size(pl) != n:
        raise Harness("btokCVCWrap failed: %s" % errname(r))
    out = lib.rd(cert, n), CVC.from_buffer_copy(lib.rd(pc, ctypes.sizeof(CVC))), priv, pub
    lib.release()
    return out


CVC_SAMPLES = [(128, 0x11, (0xEE,) * 5, (0x77, 0x01)), (128, 0x12, (0,) * 5, (0, 0)), (192, 0x13, (1, 0, 0, 0, 0), (0, 0)), (256, 0x14, (0,) * 5, (0, 0x80)),
               (96, 0x15, (0, 0, 0, 0, 2), (0x10, 0))]          # 24-octet (bign96) key: the signature is 34 octets, not 36


def unit_cvc(ctx):
    models()
    lib = ctx.lib
    reported = set()
    nops = 2 if ctx.params.get("scale", 1.0) < 1.0 else 4
    level, seed_octet, eid, esign = CVC_SAMPLES[ctx.params["sample"]]
    budget = {"size-truncation": 3}
    withheld = 0

    def viol(key, what, **d):
        if key not in reported:
            reported.add(key)
            ctx.violation(key, what, d)

    cert, cvc, priv, pub = cvc_make(lib, level, seed_octet, eid, esign)
    sample = "cvc%d" % level
    if ctx.case(["cvc-model", sample], "cvc:encoder-vs-model"):
        m = cvc_model_enc(cvc)
        ctx.digest(cert)
        if m != cert:
            viol("btokCVCWrap:wrong-encoding", "btokCVCWrap output differs from the structure documented in btok_cvc.c", got=cert.hex(), model=m.hex())
    # the documented exception: a present all-zero access word is accepted and dropped on re-encoding
    extra = []
    if not any(eid) and not any(esign):
        extra.append(("explicit-zero-hats", 0, cvc_model_enc(cvc, True, True)))
    for label, pos, y, crashy in [("valid", 0, cert, False)] + [e + (False,) for e in extra] + ordered_variants(cert, nops, (0x5F29,)) + \
            [(l, p_, y_, False) for l, p_, y_ in oversized_variants(cert, (130, 600))]:
        cls = "cvc:" + label
        if label == "truncated" and crashy:
            if budget["size-truncation"] <= 0:
                withheld += 1
                continue
            budget["size-truncation"] -= 1
            cls = "cvc:truncated-inside-SIZE"
        if label.startswith("mutated") and crashy:
            cls = "cvc:mutated-OID-octet"       # run first: the current tree compares a merged arc beyond the expected string's end
        # btokCVCLen: exact DER length of the outer TLV, two-sided oracle
        if ctx.case(["btokCVCLen", sample, label, pos, xdesc(y) if label != "valid" else "valid"], cls):
            r = lib.btokCVCLen(lib.mk(y), len(y))
            ctx.digest(r)
            w = want("derDec2", y, 0x7F21)
            wl = SM if isinstance(w, D.Bad) else w[0]
            if r != wl:
                viol("btokCVCLen:%s" % ("accepts-invalid:" + w.reason if wl == SM else "rejects-valid:" + sig_of(y) if r == SM else "wrong-length"),
                     "btokCVCLen disagrees with the DER model", variant=label, pos=pos, input=y[:16].hex(), got=r, expected=wl)
            if r != SM and r > len(y):
                viol("btokCVCLen:length>input", "returned length exceeds the input", variant=label, pos=pos, got=r)
            lib.release()
        for mode in ("noverify", "verify"):
            if not ctx.case(["btokCVCUnwrap", sample, mode, label, pos, xdesc(y) if label != "valid" else "valid"], cls + ":" + mode):
                continue
            out = lib.alloc(ctypes.sizeof(CVC))
            p = lib.mk(y)
            r = lib.btokCVCUnwrap(out, p, len(y), lib.mk(pub), len(pub)) if mode == "verify" else lib.btokCVCUnwrap(out, p, len(y), 0, 0)
            got = CVC.from_buffer_copy(lib.rd(out, ctypes.sizeof(CVC)))
            ctx.digest(r, bytes(got) if r == 0 else b"")
            if label == "valid":
                if r or bytes(got) != bytes(cvc):
                    viol("btokCVCUnwrap:roundtrip-differs", "Unwrap(Wrap(cvc)) != cvc", mode=mode, ret=errname(r))
            elif r == 0:
                why = strict_ok(y)
                if why:
                    viol("btokCVCUnwrap:accepts-non-DER:" + why, "an accepted certificate is not strict DER", mode=mode, variant=label, pos=pos, input=y.hex())
                elif got.pubkey_len > 128 or got.sig_len > 96:
                    viol("btokCVCUnwrap:lengths-beyond-fields", "decoded lengths exceed the structure's fields", pubkey_len=got.pubkey_len, sig_len=got.sig_len)
                else:
                    m = cvc_model_enc(got)
                    # btok.h: an all-zero access word may be present in a certificate and is dropped when encoding
                    alts = {cvc_model_enc(got, a, b) for a in (False, True) for b in (False, True)}
                    if m != y and y in alts:
                        ctx.note("cvc_explicit_zero_access_word_accepted", 1)
                    elif m != y:
                        viol("btokCVCUnwrap:reencode-differs", "an accepted certificate does not re-encode to itself", mode=mode, variant=label, pos=pos,
                             input=y.hex(), reencoded=m.hex())
                    elif mode == "verify" and label.startswith(("mutated", "spliced", "extended", "truncated")):
                        viol("btokCVCUnwrap:accepts-mutant", "a modified certificate passes signature verification", variant=label, pos=pos, input=y.hex())
            lib.release()
    ctx.note("cvc_cases_withheld_to_bound_restarts", withheld)


# ---- bpki -------------------------------------------------------------------------------------------

def csr_make(lib, priv):
    """a minimal PKCS#10 request in the profile bpki.c documents, signed by the library (bpkiCSRRewrap)"""
    e, oid = D.enc, lambda s: D.enc(0x06, D.oid_enc(s))
    name = e(0x30, e(0x31, e(0x30, oid("2.5.4.3") + e(0x0C, b"verif C08"))))
    spki = e(0x30, e(0x30, oid(OID_BIGN_PUBKEY) + oid("1.2.112.0.2.0.34.101.45.3.1")) + e(0x03, b"\0" + bytes(64)))
    info = e(0x30, e(0x02, b"\0") + name + spki + e(0xA0, b""))
    csr = e(0x30, info + e(0x30, oid("1.2.112.0.2.0.34.101.45.12") + e(0x05, b"")) + e(0x03, b"\0" + bytes(48)))
    p = lib.mk(csr)
    r = lib.bpkiCSRRewrap(p, len(csr), lib.mk(priv), 32)
    if r:
        raise Harness("bpkiCSRRewrap on the model's CSR failed: %s" % errname(r))
    out = lib.rd(p, len(csr))
    lib.release()
    return out


def unit_bpki(ctx):
    models()
    lib = ctx.lib
    reported = set()
    kind = ctx.params["kind"]
    k, n = ctx.params.get("chunk", 0), ctx.params.get("of", 1)
    nops = 1 if ctx.params.get("scale", 1.0) < 1.0 else 4 if ctx.params.get("deep") else 2
    budget = {"size-truncation": 4}
    withheld = 0
    pwd, salt, it = b"zed", bytes(range(1, 9)), 10000

    def viol(key, what, **d):
        if key not in reported:
            reported.add(key)
            ctx.violation(key, what, d)

    priv, pub = brng_keys(lib, 0x21, 128)
    if kind in ("privkey", "share"):
        secret = priv if kind == "privkey" else bytes([5]) + priv[:16]
        wrap, unwrap = (lib.bpkiPrivkeyWrap, lib.bpkiPrivkeyUnwrap) if kind == "privkey" else (lib.bpkiShareWrap, lib.bpkiShareUnwrap)
        fn = "bpkiPrivkeyUnwrap" if kind == "privkey" else "bpkiShareUnwrap"

        def do_wrap(sec, salt_, it_):
            pl = lib.mk_size(0)
            r = wrap(0, pl, 0, len(sec), 0, 0, 0, it_)
            if r:
                return r
            m = lib.rd_size(pl)
            o = lib.alloc(m)
            r = wrap(o, 0, lib.mk(sec), len(sec), lib.mk(pwd), len(pwd), lib.mk(salt_), it_)
            return lib.rd(o, m) if r == 0 else r

        def do_unwrap(y):
            pl = lib.mk_size(0)
            p = lib.mk(y)
            r = unwrap(0, pl, p, len(y), lib.mk(pwd), len(pwd))
            if r:
                return r
            m = lib.rd_size(pl)
            if m > len(y):
                return Odd("length-beyond-input:%d" % m)
            o = lib.alloc(m)
            pl2 = lib.mk_size(0)
            r = unwrap(o, pl2, p, len(y), lib.mk(pwd), len(pwd))
            return lib.rd(o, m) if r == 0 and lib.rd_size(pl2) == m else Odd("probe-and-copy-differ")

        x = do_wrap(secret, salt, it)
        lib.release()
        if not isinstance(x, bytes):
            raise Harness("bpki wrap failed: %s" % errname(x))
        # region names for keys
        iter_pos = x.index(H("02022710"))
        tlv = D.dec(x)[1]
        alg_len = D.dec(tlv)[2]
        edata_start = len(x) - len(tlv) + alg_len

        def region(pos):
            return "salt" if iter_pos - 8 <= pos < iter_pos else "iter" if iter_pos <= pos < iter_pos + 4 else "edata" if pos >= edata_start else "structure"

        if k == 0 and ctx.case([fn, "model"], "bpki:encoder-vs-model"):
            why = strict_ok(x)
            ctx.digest(x)
            if why:
                viol(fn.replace("Unwrap", "Wrap") + ":non-DER:" + why, "the container is not strict DER", got=x.hex())
        allv = [("valid", 0, x, False)] + list(c + (False,) for c in container_variants(x, nops))
        mine = [(v[0], v[1], v[2], v[0] == "truncated" and any(tsize_overread_shape(v[2][o:], 0x02) for o in range(max(0, len(v[2]) - 4), len(v[2]))))
                for i, v in enumerate(allv) if i % n == k]
        mine.sort(key=lambda v: 0 if v[3] else 1)
        for label, pos, y, crashy in mine:
            cls = "bpki:%s:%s" % (kind, label) + (":" + region(pos) if label.startswith("mutated") else "")
            if crashy:
                if budget["size-truncation"] <= 0:
                    withheld += 1
                    continue
                budget["size-truncation"] -= 1
                cls = "bpki:%s:truncated-inside-SIZE" % kind
            if not ctx.case([fn, label, pos, xdesc(y) if label != "valid" else "valid"], cls):
                continue
            r = do_unwrap(y)
            ctx.digest(r if isinstance(r, (int, bytes)) else repr(r))
            if isinstance(r, Odd):
                viol("%s:%s" % (fn, r.split(":")[0]), "%s: %s" % (fn, r), variant=label, pos=pos)
            elif label == "valid":
                if r != secret:
                    viol(fn + ":roundtrip-differs", "Unwrap(Wrap(key)) != key", got=r if isinstance(r, bytes) else errname(r))
            elif isinstance(r, bytes):
                viol("%s:accepts-mutant:%s" % (fn, region(pos) if label.startswith("mutated") else label.split(":")[0]),
                     "a modified container is accepted", variant=label, pos=pos, input=y.hex(), key_equal=(r == secret))
            lib.release()
    else:
        x = csr_make(lib, priv)

        def do_unwrap(y):
            pl = lib.mk_size(0)
            p = lib.mk(y)
            r = lib.bpkiCSRUnwrap(0, pl, p, len(y))
            if r:
                return r
            m = lib.rd_size(pl)
            if m > len(y):
                return Odd("length-beyond-input:%d" % m)
            o = lib.alloc(m)
            r = lib.bpkiCSRUnwrap(o, 0, p, len(y))
            return lib.rd(o, m) if r == 0 else Odd("probe-and-copy-differ")

        for label, pos, y, crashy in [("valid", 0, x, False)] + ordered_variants(x, 2 if ctx.params.get("scale", 1.0) < 1.0 else 4) + \
                [(l, p_, y_, False) for l, p_, y_ in oversized_variants(x, (130, 1100))]:
            cls = "bpki:csr:" + label
            if label == "truncated" and crashy:
                if budget["size-truncation"] <= 0:
                    withheld += 1
                    continue
                budget["size-truncation"] -= 1
                cls = "bpki:csr:truncated-inside-SIZE"
            if not ctx.case(["bpkiCSRUnwrap", label, pos, xdesc(y) if label != "valid" else "valid"], cls):
                continue
            r = do_unwrap(y)
            ctx.digest(r if isinstance(r, (int, bytes)) else repr(r))
            if isinstance(r, Odd):
                viol("bpkiCSRUnwrap:" + r.split(":")[0], "bpkiCSRUnwrap: " + r, variant=label, pos=pos)
            elif label == "valid":
                if r != pub:
                    viol("bpkiCSRUnwrap:roundtrip-differs", "the public key of a freshly signed request is not returned", got=r if isinstance(r, bytes) else errname(r))
            elif isinstance(r, bytes):
                viol("bpkiCSRUnwrap:accepts-mutant:" + label.split(":")[0], "a modified request passes signature verification", variant=label, pos=pos, input=y.hex())
            lib.release()
    ctx.note("bpki_cases_withheld_to_bound_restarts", withheld)


# ---- secure messaging -----------------------------------------------------------------------------

def unit_sm(ctx):
    models()
    lib = ctx.lib
    rng = ctx.rng
    apdu_layout_check(lib)
    reported = set()
    nops = 2 if ctx.params.get("scale", 1.0) < 1.0 else 4
    keep = lib.btokSM_keep()
    key = bytes(range(32))

    def viol(key_, what, **d):
        if key_ not in reported:
            reported.add(key_)
            ctx.violation(key_, what, d)

    def state(ctr):
        st = lib.alloc(keep)
        lib.btokSMStart(st, lib.mk(key))
        for _ in range(ctr):
            lib.btokSMCtrInc(st)
        return st

    def wrap(fn, st_bytes, ctr, protect=True):
        pc = lib.mk_size(0)
        st = state(ctr) if protect else 0
        r = fn(0, pc, lib.mk(st_bytes), st)
        if r:
            return r
        n = lib.rd_size(pc)
        o = lib.alloc(n)
        pc2 = lib.mk_size(0)
        r = fn(o, pc2, lib.mk(st_bytes), st)
        return lib.rd(o, n) if r == 0 and lib.rd_size(pc2) == n else (r or Odd("probe-and-wrap-sizes-differ"))

    def unwrap(fn, hdr, y, ctr, protect=True):
        """probe (null output) then exact copy -> err | struct octets | Odd"""
        ps = lib.mk_size(0)
        p = lib.mk(y)
        st = state(ctr) if protect else 0
        r = fn(0, ps, p, len(y), st)
        if r:
            return r
        n = lib.rd_size(ps)
        if n < hdr or n - hdr > len(y):
            return Odd("size-beyond-input:%d" % n)
        o = lib.alloc(n)
        ps2 = lib.mk_size(0)
        r = fn(o, ps2, p, len(y), st)
        if r:
            return r
        return lib.rd(o, n) if lib.rd_size(ps2) == n else Odd("probe-and-copy-sizes-differ")

    cmds = []
    for cdf_len in (0, 1, 2, 100, 239, 240, 241, 242, 255, 256, 300):
        for rdf_len in (0, 1, 256, 257, 65536):
            cmds.append(cmd_struct(0x00 if cdf_len % 2 else 0x80, 0xA4, 0x04, 0x0C, bytes(rng.getrandbits(8) for _ in range(cdf_len)), rdf_len))
    for st_ in cmds:
        d = cmd_unstruct(st_)
        if not ctx.case(["SMCmd-roundtrip", d["cdf_len"], d["rdf_len"]], "sm:cmd:roundtrip"):
            continue
        for protect in (True, False):
            w = wrap(lib.btokSMCmdWrap, st_, 1, protect)
            u = unwrap(lib.btokSMCmdUnwrap, CMD_HDR, w, 1, protect) if isinstance(w, bytes) else w
            ctx.digest(w if isinstance(w, bytes) else repr(w), u if isinstance(u, bytes) else repr(u))
            if u != st_:
                viol("btokSMCmdUnwrap:roundtrip-differs:" + ("protected" if protect else "plain"), "Unwrap(Wrap(cmd)) != cmd", cdf_len=d["cdf_len"], rdf_len=d["rdf_len"],
                     wrapped=w[:24] if isinstance(w, bytes) else errname(w) if isinstance(w, int) else w, got=u[:24] if isinstance(u, bytes) else errname(u) if isinstance(u, int) else u)
        lib.release()
    for n_ in (0, 1, 2, 100, 255, 256, 300):
        st_ = resp_struct(0x90, 0x00, bytes(rng.getrandbits(8) for _ in range(n_)))
        if not ctx.case(["SMResp-roundtrip", n_], "sm:resp:roundtrip"):
            continue
        for protect in (True, False):
            w = wrap(lib.btokSMRespWrap, st_, 2, protect)
            u = unwrap(lib.btokSMRespUnwrap, RESP_HDR, w, 2, protect) if isinstance(w, bytes) else w
            ctx.digest(w if isinstance(w, bytes) else repr(w), u if isinstance(u, bytes) else repr(u))
            if u != st_:
                viol("btokSMRespUnwrap:roundtrip-differs:" + ("protected" if protect else "plain"), "Unwrap(Wrap(resp)) != resp", rdf_len=n_,
                     got=u[:24] if isinstance(u, bytes) else errname(u) if isinstance(u, int) else u)
        lib.release()

    def sm_variants(x, body_off):
        yield from truncations(x)
        yield from octet_mutants(x, nops)
        for name, f in (("0x80", b"\x80"), ("0xFF", b"\xff"), ("SIZE_MAX-1", b"\x88" + b"\xff" * 7 + b"\xfe"), ("SIZE_MAX-9", b"\x88" + b"\xff" * 7 + b"\xf6"),
                        ("L+1", None), ("nonminimal", None)):
            # splice the length of the first inner TLV (0x87 or 0x8E) of the protected body
            try:
                t, nt = D.tag_dec(x, body_off)
                L, nl = D.len_dec(x, body_off + nt)
            except D.Bad:
                return
            ff = f if f is not None else D.len_enc(L + 1) if name == "L+1" else (b"\x81" + bytes([L]) if L < 128 else b"\x82\x00" + bytes([L & 0xFF]))
            yield "spliced-length:" + name, body_off + nt, x[:body_off + nt] + ff + x[body_off + nt + nl:]
        yield "extended", len(x), x + b"\x00"

    for what, fn, hdr, ctr, samples in (
            ("cmd", lib.btokSMCmdUnwrap, CMD_HDR, 1, [cmd_struct(0, 0xA4, 4, 0x0C, bytes(range(1, 9)), 0), cmd_struct(0, 0xB0, 0, 0, b"", 256),
                                                       cmd_struct(0x80, 0x2A, 0, 0, bytes(range(40)), 300)]),
            ("resp", lib.btokSMRespUnwrap, RESP_HDR, 2, [resp_struct(0x90, 0, bytes(range(1, 12))), resp_struct(0x6A, 0x82, b"")])):
        wfn = lib.btokSMCmdWrap if what == "cmd" else lib.btokSMRespWrap
        name = "btokSMCmdUnwrap" if what == "cmd" else "btokSMRespUnwrap"
        for si, st_ in enumerate(samples):
            x = wrap(wfn, st_, ctr)
            lib.release()
            if not isinstance(x, bytes):
                raise Harness("SM wrap failed")
            body_off = (4 + (1 if x[4] else 3)) if what == "cmd" else 0
            for label, pos, y in sm_variants(x, body_off):
                if not ctx.case([name, si, label, pos, xdesc(y)], "sm:%s:%s" % (what, label)):
                    continue
                u = unwrap(fn, hdr, y, ctr)
                ctx.digest(u if isinstance(u, (int, bytes)) else repr(u))
                if isinstance(u, Odd):
                    viol("%s:%s" % (name, u.split(":")[0]), "%s: %s" % (name, u), variant=label, pos=pos, input=y.hex())
                elif isinstance(u, bytes):
                    viol("%s:accepts-mutant:%s" % (name, label.split(":")[0]), "a modified protected APDU is accepted", variant=label, pos=pos, input=y.hex(),
                         same_content=(u == st_))
                # and the plain path (state == 0) on the same octets: plain apduCmdDec / apduRespDec behaviour, size bounded
                u2 = unwrap(fn, hdr, y, ctr, protect=False)
                ctx.digest(u2 if isinstance(u2, (int, bytes)) else repr(u2))
                if isinstance(u2, Odd):
                    viol("%s:plain:%s" % (name, u2.split(":")[0]), "%s without state: %s" % (name, u2), variant=label, pos=pos, input=y.hex())
                lib.release()


# =============================================================================================
# jobs
# =============================================================================================

def jobs(tier, scale=1.0):
    q = tier == "quick"
    P = lambda **kw: dict(kw, **({"scale": round(scale, 4)} if scale != 1.0 else {}), **({} if q else {"deep": 1}))
    js = []
    # exhaustive TL domain: the whole of it unless scaled down (then a spread of first-octet ranges incl. the long-tag ones)
    if scale >= 1.0:
        nchunk = 4 if q else 8
        for i in range(nchunk):
            js.append({"unit": "c08:unit_tl_exhaust", "params": P(lo=i * 256 // nchunk, hi=(i + 1) * 256 // nchunk)})
    else:
        for lo in (0, 28, 60, 124, 156, 252):
            js.append({"unit": "c08:unit_tl_exhaust", "params": P(lo=lo, hi=lo + 4)})
    nder = (4 if q else 16) if scale >= 1.0 else 2
    for k in range(nder):
        js.append({"unit": "c08:unit_der", "params": P(chunk=k, of=nder, **({} if q else {"extra": 40, "random": 200000}))})
    js.append({"unit": "c08:unit_der_enc", "params": P()})
    js.append({"unit": "c08:unit_apdu", "params": P(part="roundtrip")})
    js.append({"unit": "c08:unit_apdu", "params": P(part="resp")})
    napdu = 2 if q else 4
    for k in range(napdu):
        js.append({"unit": "c08:unit_apdu", "params": P(part="dec", chunk=k, of=napdu)})
    ntext = (4 if q else 8) if scale >= 1.0 else 32
    for k in range(ntext if scale >= 1.0 else 2):
        js.append({"unit": "c08:unit_text", "params": P(part="exhaustive", chunk=k, of=ntext)})
    js.append({"unit": "c08:unit_text", "params": P(part="b64quads")})
    for k in range(1 if q else 8):
        js.append({"unit": "c08:unit_text", "params": P(part="random", stream=k)})
    js.append({"unit": "c08:unit_params", "params": P()})
    for i in range(len(CVC_SAMPLES) if scale >= 1.0 else 2):
        js.append({"unit": "c08:unit_cvc", "params": P(sample=i)})
    nb = 3 if scale >= 1.0 else 6
    for kind in ("privkey", "share"):
        for k in range(nb if scale >= 1.0 else 1):
            js.append({"unit": "c08:unit_bpki", "params": P(kind=kind, chunk=k, of=nb)})
    js.append({"unit": "c08:unit_bpki", "params": P(kind="csr")})
    js.append({"unit": "c08:unit_sm", "params": P()})
    return js


REQUIRED = ("exhaustive:harness-run", "exhaustive:oracle-crosscheck", "tl:ok-exact", "tl:value-truncated", "tl:tag-leading-zero", "tl:len-long-form-for-short",
            "der:tag:4-octet", "der:tag:leading-zero-80", "der:tag:unterminated-4", "der:len:SIZE_MAX-1", "der:len:SIZE_MAX-16", "der:len:nonminimal-long8",
            "der:len:0x80", "der:len:0xFF", "der:len:n+1", "der:int:empty", "der:int:negative-80", "der:int:padded-007f", "der:int:9-octet-0100..",
            "der:oid:empty", "der:oid:truncated-arc", "der:oid:arc=2^32", "der:oid:leading-80", "der:bit:nonzero-padding-0781", "der:truncated",
            "der:dec2:OID:longer-or-different", "der:dec4:shorter", "der:dec4:longer", "enc:TL:valid-tag", "enc:SEQ:lenlen=3", "oid:string:invalid",
            "apdu:roundtrip:lcEleE", "apdu:dec:lc=ext:le=2", "apdu:dec:lc=short:le=3", "apdu:dec:truncated", "apdu:resp:rdf",
            "text:len2", "text:b64:quad:pad1", "text:hex:roundtrip:mixed", "text:b64:padbits",
            "params:truncated", "params:mutated:xor80", "params:spliced-length:SIZE_MAX-1",
            "cvc:truncated", "cvc:mutated:xor01:verify", "cvc:spliced-length:L+1:noverify",
            "bpki:privkey:truncated", "bpki:share:mutated:xor80:edata", "bpki:csr:mutated:xor01", "sm:cmd:roundtrip", "sm:cmd:mutated:xor01", "sm:resp:truncated")


def main(run):
    js = [dict(j, cfg="asan64") for j in jobs(run.tier)]
    if run.tier == "thorough":
        reduced = ("c08:unit_der", "c08:unit_der_enc", "c08:unit_apdu", "c08:unit_params", "c08:unit_tl_exhaust", "c08:unit_sm")
        js += [dict(j, cfg="asan32") for j in jobs("quick", 0.5) if j["unit"] in reduced]
    run.run_jobs(js)
    run.coverage_extra["exhaustive_domain"] = ("all 16 843 009 octet strings of length 0..3 through derTLDec/derDec/derDec2-4/derIsValid(2)/derStartsWith/"
                                                "derTOCTDec/derTSEQDecStart/derTLEnc/derEnc on exact-size heap copies (asan64), judged by an in-harness C oracle "
                                                "that is compared with ref/der.py on ~86 000 strings every run")
    return run.finish(
        rule="a case = one decoder call (probe-then-copy pairs and encode/decode round trips count once) on one octet/character string; "
             "distinct = distinct (function, input, arguments); bulk cases of the C harness are all distinct inputs. Generated as: the exhaustive "
             "TL domain; valid samples of every typed codec x {tag forms, length forms, value forms, every truncation, comparison values}; all "
             "Lc/Le form combinations x data lengths 0..300; all strings <= 2 characters; every truncation / single-octet mutation / length splice "
             "of library-made parameter sets, CV certificates, bpki containers, CSRs and protected APDUs",
        assumptions=["APDU: acceptance is judged by rules 1-6 of apdu.h; legal but non-minimal (extended-for-short) codings may be accepted or rejected",
                     "hex is case-insensitive: only Dec(Enc(v)) = v and hexIsValid <=> model are demanded there",
                     "CVC: a present all-zero access word is accepted and dropped on re-encoding (documented in btok.h)",
                     "bignParams: the optional cofactor is accepted and dropped on re-encoding",
                     "inputs on which a SIZE decoder would have to read beyond the buffer are limited to a few per job (each costs a worker restart when "
                     "the library does read on); the number withheld is reported as *_withheld_to_bound_restarts",
                     "derTLEnc(len = SIZE_MAX) is recorded, not judged: SIZE_MAX doubles as the decoders' error value",
                     "bpki containers: the PBKDF2 iteration count of a mutant is bounded because single-octet mutants keep the two-octet INTEGER"],
        min_eval=100000, required_classes=REQUIRED)
