"""C09 (argument-contract half) -- every err_t high-level function called with ONE argument outside its documented
domain returns the error class its header names, does not crash, and a failed authentication / integrity check
never releases the plaintext or key.

The declarative table lives in c09_contracts.py (one row per function, transcribed from the \\expect{ERR_...}
clauses of /repo/include/bee2/crypto/*.h).  This module is the engine:

  for every row, for rep in range(reps):
      base  = row.build(E, r)            a fully valid call (exact-size heap buffers, keys made by the library's own
                                         generators on a deterministic brngHMAC tape) and the list of single-argument
                                         violations with the class(es) the header lists for each
      case "valid"                       must return ERR_OK (otherwise Harness: the generator is wrong, not bee2)
      case per violation                 (1) return code in the documented class(es), never ERR_OK
                                         (2) crash / ASSERT / sanitizer report: captured by the runner (automatic key)
                                         (3) verify-before-release: after a failed unwrap no window of >= 8 octets of the
                                             true plaintext/key (obtained from the untampered token) is in the output

Output canaries are only *recorded* (note "outputs_written_on_error") -- the headers never promise untouched outputs.
No main(): c09.py combines this with the allocation-failure half.
"""
import random

from ..core import Harness
from ..bee2 import errcode, errname
from . import c09_contracts as T

LEVEL = "exploration"
SIZE_MAX = T.SIZE_MAX


# ---------------------------------------------------------------------------
# materialising and executing one call
# ---------------------------------------------------------------------------

def materialise(lib, args):
    """-> (argument values, {name: (ptr, size)} of outputs, canary octet)"""
    ptr, vals, outs = {}, [], {}
    for a in args:
        k = a["k"]
        if k == "in":
            ptr[a["n"]] = lib.mk(a["data"])
        elif k == "out":
            ptr[a["n"]] = lib.alloc(a["size"])
            outs[a["n"]] = (ptr[a["n"]], a["size"], None)
        elif k == "io":
            ptr[a["n"]] = lib.mk(a["data"])
            outs[a["n"]] = (ptr[a["n"]], len(a["data"]), bytes(a["data"]))
        elif k == "szp":
            ptr[a["n"]] = lib.mk_size(a["v"])
            outs[a["n"]] = (ptr[a["n"]], 8, (a["v"] & SIZE_MAX).to_bytes(8, "little"))
        elif k == "rngst":
            ptr[a["n"]] = T.start_gen(lib, a["key"], a["iv"])
        elif k == "prep":
            # an object brought into a documented state by valid calls (e.g. an SM state after btokSMStart + CtrInc)
            ptr[a["n"]] = a["f"](lib)
            if a.get("outsize"):
                outs[a["n"]] = (ptr[a["n"]], a["outsize"], None)
        elif k == "struct":
            # octet image with embedded pointers: fields = [(offset, argname-or-("fn", symbol)-or-int)]
            ptr[a["n"]] = None
    # second pass: structures (may point to buffers created above), aliases
    for a in args:
        if a["k"] == "struct":
            img = bytearray(a["data"])
            for off, ref in a.get("ptrs", ()):
                if isinstance(ref, int):
                    v = ref
                elif isinstance(ref, tuple):
                    v = T.fnaddr(lib, ref[1])
                else:
                    v = ptr[ref]
                img[off:off + 8] = (v or 0).to_bytes(8, "little")
            ptr[a["n"]] = lib.mk(bytes(img))
            if a.get("out"):
                outs[a["n"]] = (ptr[a["n"]], len(img), bytes(img))
    for a in args:
        if a["k"] == "at":
            ptr[a["n"]] = ptr[a["base"]] + a["off"]
            if a.get("outsize") is not None:
                outs[a["n"]] = (ptr[a["n"]], a["outsize"], None)
    for a in args:
        k = a["k"]
        if a.get("hid"):
            continue
        if k == "val":
            vals.append(a["v"])
        elif k == "fn":
            vals.append(T.fnaddr(lib, a["sym"]))
        else:
            vals.append(ptr[a["n"]])
    return vals, outs, ptr


def execute(lib, fn, args, post=None):
    """one call on fresh exact-size buffers -> (ret, {name: bytes}, {name: state in untouched/written})"""
    vals, outs, ptr = materialise(lib, args)
    before = {}
    for n, (p, size, init) in outs.items():
        before[n] = lib.rd(p, size)
    ret = getattr(lib, fn)(*vals)
    got, touched = {}, {}
    for n, (p, size, init) in outs.items():
        got[n] = lib.rd(p, size)
        touched[n] = got[n] != before[n]
    extra = post(lib, ptr, ret) if post else None
    lib.release()
    return ret, got, touched, extra


def windows(secret, w=8):
    return [secret[i:i + w] for i in range(0, max(0, len(secret) - w + 1))]


def leaked(secret, outputs):
    """first window of >= 8 octets of the secret found in any output, or None"""
    if secret is None or len(secret) < 8:
        return None
    for n, data in outputs.items():
        for i in range(0, len(secret) - 7):
            if secret[i:i + 8] in data:
                return n, i
    return None


# ---------------------------------------------------------------------------
# the unit
# ---------------------------------------------------------------------------

def unit_rows(ctx):
    lib = ctx.lib
    P = ctx.params
    base = ctx.rng.getrandbits(64)
    E = T.Env(lib, base)
    reported = set()
    touched_note, okset = {}, {}
    for fn in P["rows"]:
        row = T.ROWS[fn]
        for rep in range(P.get("rep0", 0), P.get("rep0", 0) + P.get("reps", 1)):
            if rep % row.every:
                continue
            r = random.Random("%d/%s/%d" % (base, fn, rep))
            # setup: may call the library with valid arguments only (key generation, producing tokens)
            ctx.case([fn, rep, "setup"], fn + ":setup", nontrivial=False)
            try:
                call = row.build(E, r)
            except T.Skip:
                lib.release()
                continue
            lib.release()
            fname = call.get("fn", fn)
            if P.get("only_valid"):
                call["cases"] = []
            # the valid call itself
            if call.get("novalid"):
                ctx.classes[fn + ":valid"] += 0
            elif ctx.case([fn, rep, "valid"], fn + ":valid"):
                ret, got, touched, extra = execute(lib, fname, call["args"], call.get("post"))
                okc = call.get("ok", ("ERR_OK",))
                if errname(ret) not in okc:
                    raise Harness("%s: the row's valid call returned %s (rep %d)" % (fn, errname(ret), rep))
                # outputs holding addresses (protocol states) are not part of the transcript
                ctx.digest(ret, *[got[k] for k in sorted(got) if k not in call.get("nodigest", ("state",))])
            for v in call["cases"]:
                args = T.clone(call["args"])
                v["mut"](args)
                label = "%s=%s" % (v["arg"], v["cls"])
                if not ctx.case([fn, rep, label, v.get("show")], "%s:%s" % (fn, v["arg"])):
                    continue
                ctx.classes["class:" + v["kind"]] += 1
                ret, got, touched, extra = execute(lib, v.get("fn", fname), args, v.get("post"))
                name = errname(ret)
                exp = v["expect"]
                bad = None
                if ret == 0:
                    bad = "ERR_OK"
                elif "ANY" not in exp and name not in exp:
                    bad = name
                # only the return code: what a failed call leaves in its outputs is not promised by any header and
                # "written or not" is not observable independently of the canary value
                ctx.digest(ret)
                wr = sorted(k for k in touched if touched[k])
                if wr and ret != 0:
                    touched_note["%s:%s" % (fn, v["arg"])] = 1
                if bad is not None:
                    # one report per (function, argument, wrong outcome): the key carries the first offending class in
                    # the row's fixed sweep order, so the same defect always yields the same key
                    key = "%s:contract:%s:%s" % (fn, label, bad)
                    if (fn, v["arg"], bad) not in reported:
                        reported.add((fn, v["arg"], bad))
                        ctx.violation(key, "%s with %s returned %s; bee2 header: %s" % (
                            fn, label, name, v["quote"]),
                            {"function": fn, "violated": label, "expected": sorted(exp), "got": name,
                             "header": v["quote"], "call": T.describe(args), "outputs_written": wr})
                sec = v.get("secret")
                if sec is not None and ret != 0:
                    ctx.classes["release-check"] += 1
                    lk = leaked(sec, got)
                    if lk:
                        key = "%s:release:plaintext-in-%s" % (fn, lk[0])
                        if key not in reported:
                            reported.add(key)
                            ctx.violation(key, "%s failed with %s but the output %s holds >= 8 octets of the true "
                                          "plaintext/key (offset %d)" % (fn, name, lk[0], lk[1]),
                                          {"function": fn, "violated": label, "got": name, "secret": sec,
                                           "output": got[lk[0]], "header": v["quote"], "call": T.describe(args)})
    ctx.note("outputs_written_on_error", touched_note)


# ---------------------------------------------------------------------------
# jobs
# ---------------------------------------------------------------------------

def jobs(tier, scale=1.0):
    q = tier == "quick"
    js = []
    for gname, rows, rq, rt in T.GROUPS:
        reps = rq if q else rt
        reps = max(1, int(round(reps * scale))) if scale < 1 else reps
        # split the repetitions of a group over several workers
        per = T.SPLIT.get(gname, (1, 2))[0 if q else 1]
        per = max(1, min(per, reps))
        step = (reps + per - 1) // per
        r0 = 0
        while r0 < reps:
            n = min(step, reps - r0)
            js.append({"unit": "c09_args:unit_rows", "params": {"group": gname, "rows": rows, "reps": n, "rep0": r0}})
            r0 += n
    # inventory: the valid call of every row once more in workers that cannot be taken down by a crashing violation
    # (the statistics of a worker segment that ends in a crash are lost), so that "<function>:valid" is always observed
    names = [fn for g in T.GROUPS for fn in g[1]]
    for i in range(4):
        js.append({"unit": "c09_args:unit_rows", "params": {"group": "inventory", "rows": names[i::4], "reps": 2, "rep0": 6000, "only_valid": True}})
    return js


ROWS = sorted(T.ROWS)
REQUIRED_CLASSES = tuple([fn + ":valid" for g in T.GROUPS for fn in g[1] if fn not in T.NO_VALID] +
                         ["class:length", "class:release", "class:overlap", "class:privkey", "class:pubkey", "class:generator",
                          "class:level", "class:params", "class:identifier", "release-check"])


RULE = ("case = (function row, repetition, one violated argument); the row builds a fully valid call on exact-size heap "
        "buffers (checked: returns ERR_OK), one argument is moved outside the domain its header documents, the return "
        "code is compared with the class(es) the header's \\expect lists for that argument; tampered tokens are "
        "checked for verify-before-release; distinct = distinct (function, repetition, violation)")
ASSUMPTIONS = ["only arguments for which the public header states a domain / an error class are violated; where the "
               "header names no class ('error code otherwise') any code other than ERR_OK is accepted",
               "null pointers only where the header defines them (memIsValid is a stub)",
               "outputs written on a failed call are recorded, not flagged: no header promises untouched outputs"]
