"""C06 — EC group law and scalar multiplication are exact in every special case.

Library side: the ec_o function table (neg/add/adda/sub/suba/dbl/dbla/tpl/froma/toa, called through
ctypes mirrors of ec_o / qr_o), ecpAddAA/SubAA/NegA/IsOnA/SWU, ec2AddAA/SubAA/NegA/IsOnA, ecMulA,
ecAddMulA, ecHasOrderA, ecpIsValid/SeemsValidGroup/IsSafeGroup and the ec2 analogues.
Oracle: ref/ec.py and ref/ec2m.py (affine chord-and-tangent with explicit O), scalar multiples as
iterated sums.  Field elements cross the boundary only through the field's own from/to functions.
"""
import ctypes, os, re
from collections import Counter
from ctypes import c_void_p, c_size_t, c_int, CFUNCTYPE

from .. import build
from ..core import Harness
from ..ref import ec as refec, ec2m, gf2poly

LEVEL = "exploration"

# ----------------------------------------------------------------------------------------------
# ctypes mirrors of obj_hdr_t / qr_o / ec_o  (include/bee2/core/obj.h, math/qr.h, math/ec.h)
# ----------------------------------------------------------------------------------------------

_S = {}


def structs(W):
    if W in _S:
        return _S[W]
    wt = ctypes.c_uint64 if W == 8 else ctypes.c_uint32

    class Hdr(ctypes.Structure):
        _fields_ = [("keep", c_size_t), ("p_count", c_size_t), ("o_count", c_size_t)]

    class Qr(ctypes.Structure):
        _fields_ = ([("hdr", Hdr), ("mod", c_void_p), ("unity", c_void_p), ("params", c_void_p),
                     ("n", c_size_t), ("no", c_size_t)] +
                    [(k, c_void_p) for k in ("from_", "to", "add", "sub", "neg", "mul", "sqr", "inv", "div")] +
                    [("deep", c_size_t)])

    class Ec(ctypes.Structure):
        _fields_ = ([("hdr", Hdr), ("f", c_void_p), ("A", c_void_p), ("B", c_void_p), ("base", c_void_p),
                     ("order", c_void_p), ("params", c_void_p), ("d", c_size_t), ("cofactor", wt)] +
                    [(k, c_void_p) for k in ("froma", "toa", "neg", "add", "adda", "sub", "suba", "dbl", "dbla", "tpl")] +
                    [("deep", c_size_t)])

    _S[W] = (Qr, Ec)
    return _S[W]


VP = c_void_p
B4 = CFUNCTYPE(c_int, VP, VP, VP, VP)
V4 = CFUNCTYPE(None, VP, VP, VP, VP)
V5 = CFUNCTYPE(None, VP, VP, VP, VP, VP)


def persist(lib, p):
    """take a block out of the per-case release list (curve / field descriptions live for the whole job)"""
    lib._live.remove(p)
    return p


# ----------------------------------------------------------------------------------------------
# model adapters: one interface over ref/ec.py (GF(p)) and ref/ec2m.py (GF(2^m))
# ----------------------------------------------------------------------------------------------

class ModP:
    kind = "p"
    pre = "ecp"

    def __init__(self, p, a, b):
        self.p, self.a, self.b = p, a % p, b % p
        self.E = refec.Curve(p, a, b)
        self.no = (p.bit_length() + 7) // 8
        self.bits = p.bit_length()
        self.a3 = (self.a == p - 3)

    def tag(self):
        return "GF(%d):a=%d,b=%d" % (self.p, self.a, self.b)

    def is_on(self, P):
        return self.E.is_on(P)

    def neg(self, P):
        return self.E.neg(P)

    def add(self, P, Q):
        return self.E.add(P, Q)

    def sub(self, P, Q):
        return self.E.sub(P, Q)

    def dbl(self, P):
        return self.E.add(P, P)

    def tpl(self, P):
        return self.E.add(self.E.add(P, P), P)

    def mul(self, k, P):
        return self.E.mul(k, P)

    def is_order2(self, P):
        return P is not None and P[1] == 0

    def rand_elem(self, rng):
        return rng.randrange(self.p)

    def rand_nz(self, rng):
        return rng.randrange(1, self.p)

    def proj(self, P, lam):
        p = self.p
        return (P[0] * lam * lam % p, P[1] * lam * lam * lam % p, lam)

    def o_canon(self, t):
        return (t * t % self.p, t * t * t % self.p, 0)

    def in_field(self, v):
        return 0 <= v < self.p

    def lift_x(self, x):
        r = refec.sqrt_mod((x * x * x + self.a * x + self.b) % self.p, self.p)
        return None if r is None else (x, r)

    def names(self):
        return {"froma": "ecpFromAJ", "toa": "ecpToAJ", "neg": "ecpNegJ", "add": "ecpAddJ", "adda": "ecpAddAJ",
                "sub": "ecpSubJ", "suba": "ecpSubAJ", "dbl": "ecpDblJA3" if self.a3 else "ecpDblJ",
                "dbla": "ecpDblAJ", "tpl": "ecpTplJA3" if self.a3 else "ecpTplJ"}


class Mod2:
    kind = "2"
    pre = "ec2"

    def __init__(self, poly, a, b):
        self.poly = list(poly)
        f = 1
        for e in poly:
            if e:
                f |= 1 << e
        self.fpoly = f
        self.F = ec2m.Field2(f)
        self.m = self.F.m
        self.a, self.b = a, b
        self.E = ec2m.Curve2(self.F, a, b)
        self.no = (self.m + 7) // 8
        self.bits = self.m
        self.a3 = False

    def tag(self):
        return "GF(2^%d)%s:a=%x,b=%x" % (self.m, self.poly[1:], self.a, self.b)

    def is_on(self, P):
        return self.E.is_on(P)

    def neg(self, P):
        return self.E.neg(P)

    def add(self, P, Q):
        return self.E.add(P, Q)

    def sub(self, P, Q):
        return self.E.sub(P, Q)

    def dbl(self, P):
        return self.E.add(P, P)

    def tpl(self, P):
        return self.E.add(self.E.add(P, P), P)

    def mul(self, k, P):
        return self.E.mul(k, P)

    def is_order2(self, P):
        return P is not None and P[0] == 0

    def rand_elem(self, rng):
        return rng.getrandbits(self.m)

    def rand_nz(self, rng):
        return rng.randrange(1, 1 << self.m)

    def proj(self, P, lam):
        F = self.F
        return (F.mul(P[0], lam), F.mul(P[1], F.mul(lam, lam)), lam)

    def o_canon(self, t):
        return (t, 0, 0)

    def in_field(self, v):
        return 0 <= v < (1 << self.m)

    def lift_x(self, x):
        return self.E.lift_x(x)

    def names(self):
        return {"froma": "ec2FromALD", "toa": "ec2ToALD", "neg": "ec2NegLD", "add": "ec2AddLD", "adda": "ec2AddALD",
                "sub": "ec2SubLD", "suba": "ec2SubALD", "dbl": "ec2DblLD", "dbla": "ec2DblALD", "tpl": "ec2Tpl"}


def pair_cls(M, P, Q):
    if P is None and Q is None:
        return "O,O"
    if P is None:
        return "O,P"
    if Q is None:
        return "P,O"
    if P == Q:
        return "P=Q=-Q(order2)" if M.is_order2(P) else "P=Q"
    if P == M.neg(Q):
        return "P=-Q"
    if M.is_order2(P) or M.is_order2(Q):
        return "order2-operand"
    return "generic"


def unary_cls(M, P):
    if P is None:
        return "O"
    if M.is_order2(P):
        return "order2"
    D = M.dbl(P)
    if D == M.neg(P):
        return "order3"
    if M.is_order2(D):
        return "order4"
    return "generic"


def factorize(n):
    fs, d = [], 2
    while d * d <= n:
        while n % d == 0:
            fs.append(d)
            n //= d
        d += 1
    if n > 1:
        fs.append(n)
    return fs


def point_order(M, P, bound=1 << 20, N=None):
    """order of P; with the group order N given: by stripping prime factors (N P = O is checked)"""
    if P is None:
        return 1
    if N is not None and N > 1500:
        if M.mul(N, P) is not None:
            raise Harness("model: N P != O")
        o = N
        for q in factorize(N):
            if M.mul(o // q, P) is None:
                o //= q
        return o
    R, n = P, 1
    while R is not None:
        R = M.add(R, P)
        n += 1
        if n > bound:
            raise Harness("point order above bound")
    return n


# ----------------------------------------------------------------------------------------------
# library side: field, curve construction
# ----------------------------------------------------------------------------------------------

class Fld:
    """a qr_o living in the library; conversion int <-> internal element through f->from / f->to"""

    def __init__(self, lib, fptr):
        self.lib, self.ptr = lib, fptr
        Qr, _ = structs(lib.W)
        q = Qr.from_buffer_copy(lib.rd(fptr, ctypes.sizeof(Qr)))
        self.n, self.no, self.deep = q.n, q.no, q.deep
        self.nb = self.n * lib.W
        if not (q.from_ and q.to and 0 < self.n < 64 and 0 < self.no <= self.nb):
            raise Harness("qr_o layout")
        self._from = B4(q.from_)
        self._to = V4(q.to)
        self.unity = lib.rd(q.unity, self.nb)
        self._e, self._d = {}, {}

    def enc(self, x):
        b = self._e.get(x)
        if b is not None:
            return b
        lib = self.lib
        o = lib.alloc(self.nb)
        r = self._from(o, lib.mk(x.to_bytes(self.no, "little")), self.ptr, lib.alloc(self.deep))
        if r != 1:
            raise Harness("f->from rejected a field element")
        b = lib.rd(o, self.nb)
        if len(self._e) < 100000:
            self._e[x] = b
            self._d[b] = x
        return b

    def dec(self, b):
        x = self._d.get(b)
        if x is not None:
            return x
        lib = self.lib
        o = lib.alloc(self.no)
        self._to(o, lib.mk(b), self.ptr, lib.alloc(self.deep))
        x = int.from_bytes(lib.rd(o, self.no), "little")
        if len(self._d) < 100000:
            self._d[b] = x
        return x


def make_field(lib, M, keep=True):
    if M.kind == "p":
        no = M.no
        f = lib.alloc(lib.gfpCreate_keep(no))
        r = lib.gfpCreate(f, lib.mk(M.p.to_bytes(no, "little")), no, lib.alloc(lib.gfpCreate_deep(no)))
    else:
        f = lib.alloc(lib.gf2Create_keep(M.m))
        pp = lib.mk(b"".join(int(v).to_bytes(8, "little") for v in M.poly))
        r = lib.gf2Create(f, pp, lib.alloc(lib.gf2Create_deep(M.m)))
    if r != 1:
        raise Harness("field creation failed for %s" % M.tag())
    if keep:
        persist(lib, f)
    return f


def make_curve(lib, M, f, fld, keep=True, group=None):
    """ec_o in a block of exactly ecpCreateJ_keep / ec2CreateLD_keep octets.
    group = (base point or None, order, cofactor)"""
    n, no = fld.n, fld.no
    A, B = lib.mk(M.a.to_bytes(no, "little")), lib.mk(M.b.to_bytes(no, "little"))
    if M.kind == "p":
        ec = lib.alloc(lib.ecpCreateJ_keep(n))
        r = lib.ecpCreateJ(ec, f, A, B, lib.alloc(lib.ecpCreateJ_deep(n, fld.deep)))
    else:
        ec = lib.alloc(lib.ec2CreateLD_keep(n))
        r = lib.ec2CreateLD(ec, f, A, B, lib.alloc(lib.ec2CreateLD_deep(n, fld.deep)))
    if r != 1:
        raise Harness("curve creation failed for %s" % M.tag())
    if group is not None:
        base, order, cof = group
        ol = max(1, (order.bit_length() + 7) // 8)
        xb = lib.mk(base[0].to_bytes(no, "little")) if base else 0
        yb = lib.mk(base[1].to_bytes(no, "little")) if base else 0
        r = lib.ecCreateGroup(ec, xb, yb, lib.mk(order.to_bytes(ol, "little")), ol, cof,
                              lib.alloc(lib.ecCreateGroup_deep(fld.deep)))
        if r != 1:
            raise Harness("ecCreateGroup failed for %s" % M.tag())
    if keep:
        persist(lib, ec)
    return ec


# ----------------------------------------------------------------------------------------------
# the engine: executes operations of one curve and compares with the model
# ----------------------------------------------------------------------------------------------

class Eng:
    def __init__(self, ctx, M, group=None, ec=None, f=None):
        self.ctx, self.lib, self.M = ctx, ctx.lib, M
        lib = self.lib
        self.fptr = f if f is not None else make_field(lib, M)
        self.fld = Fld(lib, self.fptr)
        self.ec = ec if ec is not None else make_curve(lib, M, self.fptr, self.fld, group=group)
        lib.release()
        _, Ec = structs(lib.W)
        e = Ec.from_buffer_copy(lib.rd(self.ec, ctypes.sizeof(Ec)))
        self.n, self.nb = self.fld.n, self.fld.nb
        keepf = lib.ecpCreateJ_keep if M.kind == "p" else lib.ec2CreateLD_keep
        if not (e.d == 3 and e.hdr.p_count == 6 and e.hdr.o_count == 1 and e.hdr.keep == keepf(self.n)
                and e.deep >= self.fld.deep and e.deep < (1 << 24)):
            raise Harness("ec_o layout (d=%d p_count=%d keep=%d deep=%d)" % (e.d, e.hdr.p_count, e.hdr.keep, e.deep))
        if self.fld.no != M.no:
            raise Harness("field octet length")
        self.deep = e.deep
        self.fn = {}
        for k in ("froma", "toa"):
            self.fn[k] = B4(getattr(e, k))
        for k in ("neg", "dbl", "dbla", "tpl"):
            a = getattr(e, k)
            self.fn[k] = V4(a) if a else None
        for k in ("add", "adda", "sub", "suba"):
            self.fn[k] = V5(getattr(e, k))
        if any(self.fn[k] is None for k in ("neg", "dbl", "dbla")):
            raise Harness("null function pointer in ec_o")
        if M.kind == "2" and self.fn["tpl"] is not None:
            raise Harness("ec2 curve unexpectedly supports tpl (model mapping needed)")
        self.nm = M.names()
        self.pre = M.pre
        self.aa_deep = getattr(lib, self.pre + "AddAA_deep")(self.n, self.fld.deep)
        self.sa_deep = getattr(lib, self.pre + "SubAA_deep")(self.n, self.fld.deep)
        self.on_deep = getattr(lib, self.pre + "IsOnA_deep")(self.n, self.fld.deep)
        self.AddAA, self.SubAA = getattr(lib, self.pre + "AddAA"), getattr(lib, self.pre + "SubAA")
        self.NegA, self.IsOnA = getattr(lib, self.pre + "NegA"), getattr(lib, self.pre + "IsOnA")
        self.ops = Counter()
        self.nbad = Counter()
        self.tag = M.tag()
        self.fillw = bytes([lib.fillbyte]) * self.nb

    # ---- encodings ----
    def enc2(self, P):
        return self.fld.enc(P[0]) + self.fld.enc(P[1])

    def enc3(self, rep):
        e = self.fld.enc
        return e(rep[0]) + e(rep[1]) + e(rep[2])

    def dec2(self, b):
        return (self.fld.dec(b[:self.nb]), self.fld.dec(b[self.nb:2 * self.nb]))

    def stack(self):
        return self.lib.alloc(self.deep)

    def raw_in_field(self, b):
        return self.M.in_field(int.from_bytes(b, "little"))

    def read3(self, c, op="?", al="none"):
        """projective result -> affine through toa (FALSE means O).  Regression guard for the former
        "result is O with unwritten X, Y" defect: an O (Z == 0, the ecIsO macro) whose X or Y is not a field
        element cannot be handed to any function of the interface; it is reported and not passed to toa."""
        lib, nb = self.lib, self.nb
        raw = lib.rd(c, 3 * nb)
        zero_z = not any(raw[2 * nb:])
        if zero_z and not (self.raw_in_field(raw[:nb]) and self.raw_in_field(raw[nb:2 * nb])):
            self.bad(self.nm.get(op, op), "O-result-with-coordinates-outside-field", "fresh-output-buffer",
                     {"op": op, "alias": al, "X_words": raw[:nb].hex(), "Y_words": raw[nb:2 * nb].hex()})
            return None
        out = lib.alloc(2 * nb)
        r = self.fn["toa"](out, c, self.ec, self.stack())
        if r == 0:
            return None if zero_z else ("toa-returned-FALSE-for-Z!=0",)
        if r != 1 or zero_z:
            return ("toa-returned", r, "Z=0" if zero_z else "Z!=0")
        return self.dec2(lib.rd(out, 2 * nb))

    # ---- verdicts ----
    def bad(self, fn, cat, cls, detail):
        key = "%s:%s:%s" % (fn, cat, cls)
        self.nbad[key] += 1
        if self.nbad[key] <= 2:
            d = {"curve": self.tag, "cfg": self.ctx.cfg}
            d.update(detail)
            self.ctx.violation(key, "%s disagrees with the group law (%s, case %s)" % (fn, cat, cls), d)

    def cmp(self, op, exp, got, cls, al, detail):
        self.ops["alias:" + al] += 1
        if got == exp:
            return
        cat = "infinity-flag" if (got is None) != (exp is None) else "wrong-result"
        d = {"op": op, "alias": al, "expected": exp, "got": got}
        d.update(detail)
        self.bad(self.nm.get(op, op), cat, cls + "/" + al, d)

    def unchanged(self, op, ptr, data, cls, al):
        if self.lib.rd(ptr, len(data)) != data:
            self.bad(self.nm.get(op, op), "input-modified", cls + "/" + al, {"op": op})

    # ---- operations through the ec_o table ----
    def op_pp(self, op, A3, B3, al, cls):
        lib = self.lib
        if al == "none":
            a, b, c = lib.mk(A3), lib.mk(B3), lib.alloc(3 * self.nb)
        elif al == "c=a":
            a, b = lib.mk(A3), lib.mk(B3)
            c = a
        elif al == "c=b":
            a, b = lib.mk(A3), lib.mk(B3)
            c = b
        else:  # a=b
            a = b = lib.mk(A3)
            c = lib.alloc(3 * self.nb)
        self.fn[op](c, a, b, self.ec, self.stack())
        if c != a:
            self.unchanged(op, a, A3, cls, al)
        if c != b and b != a:
            self.unchanged(op, b, B3, cls, al)
        return self.read3(c, op, al)

    def op_pa(self, op, A3, B2, al, cls):
        """a projective, b affine. 'a=b': one buffer (x : y : 1) read as both operands"""
        lib = self.lib
        if al == "none":
            a, b, c = lib.mk(A3), lib.mk(B2), lib.alloc(3 * self.nb)
        elif al == "c=a":
            a, b = lib.mk(A3), lib.mk(B2)
            c = a
        elif al == "c=b":
            a = lib.mk(A3)
            b = c = lib.mk(B2 + self.fillw)
        else:  # a=b
            a = b = lib.mk(B2 + self.fld.unity)
            c = lib.alloc(3 * self.nb)
        self.fn[op](c, a, b, self.ec, self.stack())
        if c != a and al != "a=b":
            self.unchanged(op, a, A3, cls, al)
        if c != b:
            self.unchanged(op, b, B2, cls, al)
        return self.read3(c, op, al)

    def op_u(self, op, A3, al):
        lib = self.lib
        a = lib.mk(A3)
        b = a if al == "b=a" else lib.alloc(3 * self.nb)
        self.fn[op](b, a, self.ec, self.stack())
        if b != a:
            self.unchanged(op, a, A3, "-", al)
        return self.read3(b, op, al)

    def op_au(self, op, A2, al):
        """affine -> projective (dbla, froma)"""
        lib = self.lib
        if al == "b=a":
            a = b = lib.mk(A2 + self.fillw)
        else:
            a, b = lib.mk(A2), lib.alloc(3 * self.nb)
        r = self.fn[op](b, a, self.ec, self.stack())
        if op == "froma" and r != 1:
            return ("froma-returned", r)
        if b != a:
            self.unchanged(op, a, A2, "-", al)
        return self.read3(b, op, al)

    def op_toa(self, A3, al):
        lib = self.lib
        a = lib.mk(A3)
        b = a if al == "b=a" else lib.alloc(2 * self.nb)
        r = self.fn["toa"](b, a, self.ec, self.stack())
        if r == 0:
            return None
        if r != 1:
            return ("toa-returned", r)
        return self.dec2(lib.rd(b, 2 * self.nb))

    def op_aa(self, which, A2, B2):
        lib = self.lib
        a, b, c = lib.mk(A2), lib.mk(B2), lib.alloc(2 * self.nb)
        if which == "AddAA":
            r = self.AddAA(c, a, b, self.ec, lib.alloc(self.aa_deep))
        else:
            r = self.SubAA(c, a, b, self.ec, lib.alloc(self.sa_deep))
        self.unchanged(self.pre + which, a, A2, "-", "none")
        self.unchanged(self.pre + which, b, B2, "-", "none")
        if r == 0:
            return None
        if r != 1:
            return ("returned", r)
        return self.dec2(lib.rd(c, 2 * self.nb))

    def op_nega(self, A2, adjacent=False):
        lib = self.lib
        if adjacent:
            # two consecutive affine points of one array: a = pts[0], b = pts[1]
            a = lib.mk(A2 + self.fillw * 2)
            b = a + 2 * self.nb
        else:
            a, b = lib.mk(A2), lib.alloc(2 * self.nb)
        self.NegA(b, a, self.ec)
        return self.dec2(lib.rd(b, 2 * self.nb))

    # ---- batteries ----
    def draw_rep(self, rng, P):
        """random projective representative (ints) of P; all randomness is drawn here"""
        M = self.M
        lam = M.rand_nz(rng)
        sel = rng.randrange(8)
        x, y = M.rand_elem(rng), M.rand_elem(rng)
        if P is None:
            return (x, y, 0) if sel < 5 else M.o_canon(lam)
        if sel == 0:
            lam = 1
        return M.proj(P, lam)

    def battery_pair(self, P, Q, rp, rq, aa="with"):
        """aa: 'with' = function table + direct affine functions, 'no' = table only, 'only' = affine only"""
        M = self.M
        cls = pair_cls(M, P, Q)
        e_add, e_sub = M.add(P, Q), M.sub(P, Q)
        det = {"P": P, "Q": Q, "rep_P": rp, "rep_Q": rq}
        res = []
        if aa == "only":
            if P is not None and Q is not None:
                A2, B2 = self.enc2(P), self.enc2(Q)
                for which, exp in (("AddAA", e_add), ("SubAA", e_sub)):
                    got = self.op_aa(which, A2, B2)
                    self.cmp(self.pre + which, exp, got, cls, "none", det)
                    res.append(got)
            return cls, res
        A3, B3 = self.enc3(rp), self.enc3(rq)
        for op, exp in (("add", e_add), ("sub", e_sub)):
            for al in ("none", "c=a", "c=b") + (("a=b",) if P == Q else ()):
                exp1 = exp
                got = self.op_pp(op, A3, B3, al, cls)
                self.cmp(op, exp1, got, cls, al, det)
                res.append(got)
        if Q is not None:
            B2 = self.enc2(Q)
            for op, exp in (("adda", e_add), ("suba", e_sub)):
                for al in ("none", "c=a", "c=b") + (("a=b",) if P == Q else ()):
                    got = self.op_pa(op, A3, B2, al, cls)
                    self.cmp(op, exp, got, cls, al, det)
                    res.append(got)
            if P is not None and aa == "with":
                A2 = self.enc2(P)
                for which, exp in (("AddAA", e_add), ("SubAA", e_sub)):
                    got = self.op_aa(which, A2, B2)
                    self.cmp(self.pre + which, exp, got, cls, "none", det)
                    res.append(got)
        return cls, res

    def battery_unary(self, P, rp, aa="with"):
        M = self.M
        cls = unary_cls(M, P)
        det = {"P": P, "rep_P": rp}
        res = []
        if aa == "only":
            if P is not None:
                got = self.op_nega(self.enc2(P))
                self.cmp(self.pre + "NegA", M.neg(P), got, cls, "none", det)
                res.append(got)
            return cls, res
        A3 = self.enc3(rp)
        todo = [("neg", M.neg(P)), ("dbl", M.dbl(P))]
        if self.fn["tpl"] is not None:
            todo.append(("tpl", M.tpl(P)))
        for op, exp in todo:
            for al in ("none", "b=a"):
                got = self.op_u(op, A3, al)
                self.cmp(op, exp, got, cls, al, det)
                res.append(got)
        for al in ("none", "b=a"):
            got = self.op_toa(A3, al)
            self.cmp("toa", P, got, cls, al, det)
            res.append(got)
        if P is not None:
            A2 = self.enc2(P)
            for op, exp in (("dbla", M.dbl(P)), ("froma", P)):
                for al in ("none", "b=a"):
                    got = self.op_au(op, A2, al)
                    self.cmp(op, exp, got, cls, al, det)
                    res.append(got)
            if aa == "with":
                got = self.op_nega(A2)
                self.cmp(self.pre + "NegA", M.neg(P), got, cls, "none", det)
                res.append(got)
        return cls, res

    def flush_counts(self):
        for k, v in self.ops.items():
            self.ctx.count(v, k)
        self.ops = Counter()


# ----------------------------------------------------------------------------------------------
# scalar multiplication / multi-scalar sums / order test / on-curve test
# ----------------------------------------------------------------------------------------------

def naf_width(bits):
    # window selection documented in ec.c is not part of the interface; used for class labels only
    return 6 if bits >= 336 else 5 if bits >= 120 else 4 if bits >= 40 else 3


def words_for(lib, mbits):
    return max(1, (mbits + lib.B - 1) // lib.B)


def sz(v):
    return c_size_t(v)


class Scal:
    """ecMulA / ecAddMulA / ecHasOrderA on one engine"""

    def __init__(self, eng):
        self.e = eng
        self.lib = eng.lib

    def mul(self, P, d, mbits):
        e, lib = self.e, self.lib
        m = words_for(lib, mbits)
        if d >> (m * lib.B):
            raise Harness("scalar does not fit its declared length")
        b = lib.alloc(2 * e.nb)
        A2 = e.enc2(P)
        a = lib.mk(A2)
        st = lib.alloc(lib.ecMulA_deep(e.n, 3, e.deep, m))
        r = lib.ecMulA(b, a, e.ec, lib.mkw(d, m), m, st)
        e.unchanged("ecMulA", a, A2, "-", "none")
        e.ops["naf-w%d" % naf_width(m * lib.B)] += 1
        if r == 0:
            return None
        if r != 1:
            return ("returned", r)
        return e.dec2(lib.rd(b, 2 * e.nb))

    def addmul(self, terms):
        """terms: list of (P, d, mbits)"""
        e, lib = self.e, self.lib
        k = len(terms)
        ms = [words_for(lib, t[2]) for t in terms]
        deep = lib.ecAddMulA_deep(sz(e.n), sz(3), sz(e.deep), sz(k), *[sz(m) for m in ms])
        b = lib.alloc(2 * e.nb)
        st = lib.alloc(deep)
        args = [VP(b), VP(e.ec), VP(st), sz(k)]
        for (P, d, _), m in zip(terms, ms):
            if d >> (m * lib.B):
                raise Harness("scalar does not fit its declared length")
            args += [VP(lib.mk(e.enc2(P))), VP(lib.mkw(d, m)), sz(m)]
        r = lib.ecAddMulA(*args)
        e.ops["addmul-k%d" % k] += 1
        if r == 0:
            return None
        if r != 1:
            return ("returned", r)
        return e.dec2(lib.rd(b, 2 * e.nb))

    def hasorder(self, P, q, mbits):
        e, lib = self.e, self.lib
        m = words_for(lib, mbits)
        st = lib.alloc(lib.ecHasOrderA_deep(e.n, 3, e.deep, m))
        r = lib.ecHasOrderA(lib.mk(e.enc2(P)), e.ec, lib.mkw(q, m), m, st)
        return r

    def ison_raw(self, xb, yb):
        e, lib = self.e, self.lib
        return e.IsOnA(lib.mk(xb + yb), e.ec, lib.alloc(e.on_deep))


def scalar_cls(d, order):
    if d == 0:
        return "d=0"
    if d == 1:
        return "d=1"
    if d == order:
        return "d=order"
    if d == order - 1:
        return "d=order-1"
    if d == order + 1:
        return "d=order+1"
    if d == 2 * order:
        return "d=2*order"
    if d % order == 0:
        return "d=k*order"
    if d > order:
        return "d>order"
    return "d<order"


def at_risk(order):
    """ecMulA's table of odd multiples (and 2a) contains O for these orders (class label only; these were the
    cases that died in ASSERT(ecpSeemsOn3) before O was written with all coordinates)"""
    return order == 2 or (order % 2 == 1 and order <= 31)


def check_mul(ctx, eng, sc, P, order, d, mbits, exp, extra=""):
    """one ecMulA case (already announced); returns result"""
    if at_risk(order):
        eng.ops["mul:table-contains-O"] += 1
    got = sc.mul(P, d, mbits)
    cls = scalar_cls(d, order)
    if got != exp:
        cat = "infinity-flag" if (got is None) != (exp is None) else "wrong-result"
        eng.bad("ecMulA", cat, cls + "/" + unary_cls(eng.M, P) + extra,
                {"P": P, "order_of_P": order, "d": d, "length_bits": mbits, "words": words_for(eng.lib, mbits),
                 "expected": exp, "got": got})
    return got


def check_addmul(ctx, eng, sc, terms, exp, cls):
    got = sc.addmul(terms)
    if got != exp:
        cat = "infinity-flag" if (got is None) != (exp is None) else "wrong-result"
        eng.bad("ecAddMulA", cat, cls, {"terms": [[t[0], t[1], t[2]] for t in terms], "expected": exp, "got": got})
    return got


def check_hasorder(ctx, eng, sc, P, order, q, mbits):
    """header: TRUE iff a has order q, with the documented tolerance: for composite q a point whose
    order is a proper divisor of q may be accepted"""
    r = sc.hasorder(P, q, mbits)
    if q == order:
        exp, cls = 1, "q=order"
    elif q % order == 0:
        exp, cls = None, "order|q(tolerated)"
    else:
        exp, cls = 0, "order-does-not-divide-q"
    if r not in (0, 1) or (exp is not None and r != exp):
        eng.bad("ecHasOrderA", "wrong-answer", cls, {"P": P, "order_of_P": order, "q": q, "length_bits": mbits,
                                                     "expected": exp, "got": r})
    return r, cls


# ----------------------------------------------------------------------------------------------
# generic workloads over a finite set of points closed under the group law
# ----------------------------------------------------------------------------------------------

MBITS = (32, 64, 96, 128, 192, 352, 384)


def run_pairs(ctx, eng, pts, rows, maxq, label, aa="with"):
    """for every P = pts[i], i in rows: the unary battery, then the pair battery against all Q (or,
    if the set is larger than maxq, against the special Q's plus a random sample)"""
    M, rng, lib = eng.M, ctx.rng, ctx.lib
    order2 = [P for P in pts if M.is_order2(P)]
    for i in rows:
        P = pts[i]
        rp = eng.draw_rep(rng, P)
        ucls = unary_cls(M, P)
        if ctx.case(["unary", label, P, rp] + ([aa] if aa != "with" else []), "unary:" + ucls):
            _, res = eng.battery_unary(P, rp, aa)
            ctx.digest(repr(res))
            lib.release()
        if maxq >= len(pts):
            qs = pts
        else:
            D = M.dbl(P)
            special = [None, P, M.neg(P), D, M.neg(D)] + order2
            pick = rng.sample(range(len(pts)), maxq)
            qs, seen = [], set()
            for Q in special + [pts[j] for j in pick]:
                if Q not in seen:
                    seen.add(Q)
                    qs.append(Q)
        for Q in qs:
            rp, rq = eng.draw_rep(rng, P), eng.draw_rep(rng, Q)
            cls = pair_cls(M, P, Q)
            if aa == "only" and (P is None or Q is None):
                continue
            if not ctx.case(["pair", label, P, Q, rp, rq] + ([aa] if aa != "with" else []), "pair:" + cls):
                continue
            _, res = eng.battery_pair(P, Q, rp, rq, aa)
            ctx.digest(repr(res))
            lib.release()
    eng.flush_counts()


def run_mul_all(ctx, eng, sc, P, order, label, every=7):
    """ALL d in [0, 2*order+2]: expected value is literally the iterated group sum"""
    M, lib = eng.M, ctx.lib
    acc = None
    for d in range(0, 2 * order + 3):
        exp = acc
        acc = M.add(acc, P)
        lens = (32,) if d % every else (32, 64, 128, 384)
        for mb in lens:
            if not ctx.case(["mul", label, P, d, mb], "mul:" + scalar_cls(d, order)):
                continue
            got = check_mul(ctx, eng, sc, P, order, d, mb, exp)
            ctx.digest(repr(got))
            lib.release()
    if acc != M.mul(2 * order + 3, P) or M.mul(order, P) is not None:
        raise Harness("model: double-and-add disagrees with the iterated sum")


def run_mul_long(ctx, eng, sc, P, order, label, count):
    """scalars longer than the order, every window width, boundary bit patterns"""
    M, rng, lib = eng.M, ctx.rng, ctx.lib
    for mb in MBITS:
        ds = [0, 1, (1 << mb) - 1, 1 << (mb - 1), (1 << (mb - 1)) - 1, order, order * ((1 << mb) // order),
              order * ((1 << mb) // order) - 1, max(0, order * ((1 << mb) // order - 1)) + 1]
        ds += [rng.getrandbits(mb) for _ in range(count)]
        ds += [rng.getrandbits(rng.randrange(1, mb + 1)) for _ in range(count // 2)]
        for d in ds:
            if d >> mb:
                d &= (1 << mb) - 1
            if not ctx.case(["mul", label, P, d, mb], "mul:" + scalar_cls(d, order)):
                continue
            got = check_mul(ctx, eng, sc, P, order, d, mb, M.mul(d % order, P), "/long")
            ctx.digest(repr(got))
            lib.release()


def run_addmul(ctx, eng, sc, cand, label, count):
    """cand: list of (P, order). k = 2, 3 with grids of small scalars, order-related scalars and long ones"""
    M, rng, lib = eng.M, ctx.rng, ctx.lib

    def expect(terms):
        R = None
        for P, d, _ in terms:
            R = M.add(R, M.mul(d % point_ord[P], P))
        return R

    point_ord = dict(cand)
    pts = [c[0] for c in cand]
    # k = 2: full grid on the first two candidate pairs
    grids = []
    for (P1, o1) in cand[:3]:
        for P2 in (P1, M.neg(P1), cand[-1][0], cand[len(cand) // 2][0]):
            o2 = point_ord.get(P2) or point_order(M, P2)
            point_ord[P2] = o2
            g1 = sorted({0, 1, 2, 3, 4, 5, 7, 8, o1 - 1, o1, o1 + 1, 2 * o1, 2 * o1 + 1})
            g2 = sorted({0, 1, 2, 3, 5, 6, 8, o2 - 2, o2 - 1, o2, o2 + 1, 2 * o2 - 1})
            for d1 in g1:
                for d2 in g2:
                    if d1 >= 0 and d2 >= 0:
                        grids.append([(P1, d1, 32), (P2, d2, 32)])
    for terms in grids:
        exp = expect(terms)
        cls = "k2-grid" + ("/sum=O" if exp is None else "")
        if not ctx.case(["addmul", label, [list(t) for t in terms]], "addmul:" + cls):
            continue
        got = check_addmul(ctx, eng, sc, terms, exp, cls)
        ctx.digest(repr(got))
        lib.release()
    # random k = 1, 2, 3 with mixed lengths; every third case is forced to sum to O
    for it in range(count):
        k = 1 + it % 3
        force = (it % 6 == 4)
        terms = []
        for j in range(k):
            P = pts[rng.randrange(len(pts))]
            mb = MBITS[rng.randrange(len(MBITS))]
            d = rng.getrandbits(mb) if rng.randrange(4) else rng.randrange(0, 4)
            terms.append((P, d, mb))
        if force:
            # force the total to be O: the first point again with the complementary scalar
            P, d, mb = terms[0]
            o = point_ord[P]
            comp = (o - d % o) % o + o * rng.randrange(3)
            terms = [(P, d, mb), (P, comp, max(32, 32 * ((comp.bit_length() + 31) // 32)))]
        exp = expect(terms)
        cls = "k%d-mixed" % len(terms) + ("/sum=O" if exp is None else "")
        if not ctx.case(["addmul", label, [list(t) for t in terms]], "addmul:" + cls):
            continue
        got = check_addmul(ctx, eng, sc, terms, exp, cls)
        ctx.digest(repr(got))
        lib.release()


def run_demo(ctx, eng, sc, cand, label):
    """regression cases for defects fixed in /repo (stable class labels): ecMulA on points whose table contains O,
    ecAddMulA (t starts as O on scratch memory), a small-order point in a later ecAddMulA term, the O produced
    by dbl into a fresh buffer handed to toa"""
    M, lib = eng.M, ctx.lib
    done = set()
    for P, o in cand:
        kind = "order2" if o == 2 else "odd-order<=31" if at_risk(o) else None
        if kind is None or kind in done:
            continue
        done.add(kind)
        for d, mb in ((11, 64),):
            if ctx.case(["demo-mul", label, P, o, d, mb], "demo:mul-pattern-stack/" + kind):
                got = check_mul(ctx, eng, sc, P, o, d, mb, M.mul(d % o, P), "/pattern-stack")
                ctx.digest(repr(got))
                lib.release()
    P, o = cand[0]
    terms = [(P, 3, 32), (cand[-1][0], 5, 32)]
    if ctx.case(["demo-addmul", label, [list(t) for t in terms]], "demo:addmul-pattern-stack"):
        exp = M.add(M.mul(3, P), M.mul(5, cand[-1][0]))
        got = check_addmul(ctx, eng, sc, terms, exp, "pattern-stack")
        ctx.digest(repr(got))
        lib.release()
    for Pr, o in cand:
        if at_risk(o):
            terms = [(P, 3, 32), (Pr, 5, 32)]
            if ctx.case(["demo-addmul-tail", label, [list(t) for t in terms]], "demo:addmul-small-order-point-in-later-term"):
                exp = M.add(M.mul(3, P), M.mul(5 % o, Pr))
                got = check_addmul(ctx, eng, sc, terms, exp, "small-order-point-in-later-term")
                ctx.digest(repr(got))
                lib.release()
            break
    rep = M.o_canon(1)
    if ctx.case(["demo-toa", label, rep], "demo:toa-of-O-produced-by-dbl"):
        a, b = lib.mk(eng.enc3(rep)), lib.alloc(3 * eng.nb)
        eng.fn["dbl"](b, a, eng.ec, eng.stack())
        out = lib.alloc(2 * eng.nb)
        r = eng.fn["toa"](out, b, eng.ec, eng.stack())
        if r != 0:
            eng.bad(eng.nm["toa"], "infinity-flag", "O-produced-by-dbl", {"got": r})
        ctx.digest(r)
        lib.release()


def run_hasorder(ctx, eng, sc, cand, N, label):
    """cand: (P, order) list; q over small integers, divisors and multiples of the group order N"""
    lib = ctx.lib
    qs = set(range(1, 40))
    for d in range(1, N + 1):
        if N % d == 0:
            qs.update((d, 2 * d, d + 1))
    qs.update((N, N + 1, N - 1, 2 * N, 3 * N))
    for P, o in cand:
        for q in sorted(x for x in qs | {o, o - 1, o + 1, 2 * o, o * o} if x > 0):
            for mb in ((32,) if q % 5 else (32, 128)):
                if q >> mb:
                    continue
                cls = "q=order" if q == o else "order|q(tolerated)" if q % o == 0 else "order-does-not-divide-q"
                if not ctx.case(["hasorder", label, P, q, mb], "hasorder:" + cls):
                    continue
                r, _ = check_hasorder(ctx, eng, sc, P, o, q, mb)
                ctx.digest(r)
                lib.release()


# ----------------------------------------------------------------------------------------------
# on-curve test, SWU, validators
# ----------------------------------------------------------------------------------------------

def swu_model(p, a, b, s):
    """SWU as STB 34.101.66 (6.2.3, steps after s = H mod p) states it; p = 3 (mod 4), a, b != 0"""
    t = (-s * s) % p
    u = (t + t * t) % p
    x1 = (-b * (1 + u) * pow(a * u % p, p - 2, p)) % p
    x2 = t * x1 % p
    y = (x1 * x1 * x1 + a * x1 + b) % p
    s3 = s * s * s * y % p
    r = pow(y, p - 1 - (p + 1) // 4, p)
    if r * r * y % p == 1:
        return (x1, r * y % p)
    return (x2, r * s3 % p)


def run_ison(ctx, eng, sc, pts, label, exhaustive, nrand):
    M, rng, lib = eng.M, ctx.rng, ctx.lib
    fld = eng.fld
    top = 1 << (fld.n * lib.B)

    def raw(v):
        return v.to_bytes(fld.nb, "little")

    cases = []
    if exhaustive and M.kind == "p":
        for x in range(M.p):
            for y in range(M.p):
                cases.append((x, y))
    else:
        aff = [P for P in pts if P is not None]
        for P in aff[:nrand]:
            cases.append(P)
        for _ in range(nrand):
            cases.append((M.rand_elem(rng), M.rand_elem(rng)))
        for P in aff[:nrand // 2]:
            # a point of the quadratic twist / same x, wrong y
            cases.append((P[0], M.rand_elem(rng)))
    for (x, y) in cases:
        exp = 1 if M.is_on((x, y)) else 0
        if not ctx.case(["ison", label, x, y], "ison:on-curve" if exp else "ison:off-curve"):
            continue
        r = sc.ison_raw(fld.enc(x), fld.enc(y))
        if r != exp:
            eng.bad(eng.pre + "IsOnA", "wrong-answer", "on-curve" if exp else "off-curve",
                    {"x": x, "y": y, "expected": exp, "got": r})
        ctx.digest(r)
        lib.release()
    # coordinates outside the field (raw words): the header has no \\pre on them, the answer must be FALSE.
    # The list of cases is the same in every configuration; a value that does not exist for this word size
    # (e.g. nothing lies between the field and the word boundary) becomes a no-op case with the same digest.
    aff = [P for P in pts if P is not None][:6]
    if M.kind == "p":
        outs = [("p", M.p), ("p+1", M.p + 1), ("all-ones", top - 1), ("p+x", M.p + aff[0][0]), ("p+y", M.p + aff[0][1]),
                ("2p", 2 * M.p)]
    else:
        # includes values in [2^m, mod): degree m but numerically below the modulus
        fp = M.fpoly
        outs = [("mod", fp), ("mod+1", fp + 1), ("mod|x^(m-1)", fp | (1 << (M.m - 1))), ("all-ones", top - 1),
                ("x^m", 1 << M.m), ("x^m+1", (1 << M.m) | 1), ("x^m+x", (1 << M.m) | 2)]
    for P in aff:
        for name, v in outs:
            for pos in (0, 1):
                if not ctx.case(["ison-range", label, P, name, pos], "ison:coordinate-out-of-field"):
                    continue
                r = 0
                if v < top and not M.in_field(v):
                    xb = raw(v) if pos == 0 else fld.enc(P[0])
                    yb = raw(v) if pos == 1 else fld.enc(P[1])
                    r = sc.ison_raw(xb, yb)
                    if r != 0:
                        eng.bad(eng.pre + "IsOnA", "wrong-answer", "coordinate-out-of-field",
                                {"P": P, "raw_value": v, "which": name, "position": "xy"[pos], "expected": 0, "got": r})
                ctx.digest(r)
                lib.release()


def run_ison_gap(ctx, eng, sc, P, label):
    """binary fields with m not a multiple of the word size: coordinates of degree m whose value is numerically
    below the modulus"""
    M, lib, fld = eng.M, ctx.lib, eng.fld
    if M.kind != "2":
        return
    for name, v, pos in (("x^m", 1 << M.m, 0), ("x^m+1", (1 << M.m) | 1, 1)):
        if not ctx.case(["ison-range", label, P, name, pos], "ison:degree-m-coordinate-below-mod"):
            continue
        r = 0
        if M.m < fld.n * lib.B:
            raw = v.to_bytes(fld.nb, "little")
            xb = raw if pos == 0 else fld.enc(P[0])
            yb = raw if pos == 1 else fld.enc(P[1])
            r = sc.ison_raw(xb, yb)
            if r != 0:
                eng.bad(eng.pre + "IsOnA", "wrong-answer", "degree-m-coordinate-below-mod",
                        {"P": P, "raw_value": v, "position": "xy"[pos], "expected": 0, "got": r})
        ctx.digest(r)
        lib.release()


def run_swu(ctx, eng, label, inputs):
    M, lib = eng.M, ctx.lib
    p, a, b = M.p, M.a, M.b
    if p % 4 != 3 or a == 0 or b == 0:
        return
    bqr = refec.legendre(b, p) == 1
    deep = lib.ecpSWU_deep(eng.n, eng.fld.deep)
    for s in inputs:
        cls = "swu:s=0" if s == 0 else "swu:s=1" if s == 1 else "swu:s=p-1" if s == p - 1 else "swu:generic"
        if not ctx.case(["swu", label, s], cls):
            continue
        exp = swu_model(p, a, b, s)
        out = lib.alloc(2 * eng.nb)
        lib.ecpSWU(out, lib.mk(eng.fld.enc(s)), eng.ec, lib.alloc(deep))
        got = eng.dec2(lib.rd(out, 2 * eng.nb))
        # header: when B is a non-residue the output is off the curve for s in {0, p-1}; s = 1 has the same
        # t = -s^2 = -1 as s = p-1, so it is degenerate as well (the header's list is incomplete, not the map)
        must_on = bqr or s not in (0, 1, p - 1)
        if must_on and not M.is_on(exp):
            raise Harness("SWU model output not on the curve")
        if must_on and not M.is_on(got):
            eng.bad("ecpSWU", "not-on-curve", cls[4:], {"s": s, "got": got, "model": exp})
        elif got != exp:
            eng.bad("ecpSWU", "differs-from-STB-34.101.66-map", cls[4:], {"s": s, "got": got, "model": exp})
        ctx.digest(repr(got))
        lib.release()


def isqrt(n):
    import math
    return math.isqrt(n)


def run_validators_p(ctx, M, N, base, label):
    """ecpIsValid / ecpSeemsValidGroup / ecpIsSafeGroup exactly as ecp.h defines them; every case builds its
    own field and curve (exact _keep sizes) and releases them"""
    lib = ctx.lib
    p = M.p

    def build(Mx, group):
        f = make_field(lib, Mx, keep=False)
        fld = Fld(lib, f)
        ec = make_curve(lib, Mx, f, fld, keep=False, group=group)
        return f, fld, ec

    # --- ecpIsValid
    tests = [("valid", M, 1)]
    c = 2 % p
    sing = ModP(p, (-3 * c * c) % p, (2 * c * c * c) % p)
    tests.append(("singular", sing, 0))
    for q in (3, 5, 7, 11, 13):
        if q != p:
            comp = ModP(p * q, M.a, M.b)
            tests.append(("composite-modulus", comp, 0))
            break
    for name, Mx, exp in tests:
        if not ctx.case(["ecpIsValid", label, name, Mx.p, Mx.a, Mx.b], "valid:" + name):
            continue
        f, fld, ec = build(Mx, None)
        r = lib.ecpIsValid(ec, lib.alloc(lib.ecpIsValid_deep(fld.n, fld.deep)))
        if r != exp:
            ctx.violation("ecpIsValid:wrong-answer:" + name, "ecpIsValid disagrees with its header",
                          {"p": Mx.p, "a": Mx.a, "b": Mx.b, "expected": exp, "got": r})
        ctx.digest(r)
        lib.release()
    # --- ecpSeemsValidGroup: Hasse boundary with cofactor 1, true order with cofactors, base off the curve
    h = isqrt(4 * p)          # |t| <= 2 sqrt(p)  <=>  t^2 <= 4p  <=>  |t| <= isqrt(4p)
    groups = [("true-order", base, N, 1, 1)]
    for cof in (2, 3, 4):
        if N % cof == 0:
            groups.append(("true-order-cofactor%d" % cof, base, N // cof, cof, 1))
    for t, exp in ((h, 1), (-h, 1), (h + 1, 0), (-h - 1, 0), (0, 1), (p, 0)):
        groups.append(("hasse-%s" % ("inside" if exp else "outside"), base, p + 1 + t, 1, exp))
    off = None
    for y in range(p):
        if not M.is_on((base[0], y)):
            off = (base[0], y)
            break
    groups.append(("base-off-curve", off, N, 1, 0))
    for name, bp, order, cof, exp in groups:
        if order <= 0:
            continue
        if not ctx.case(["ecpSeemsValidGroup", label, name, bp, order, cof], "group:" + name):
            continue
        f, fld, ec = build(M, (bp, order, cof))
        r = lib.ecpSeemsValidGroup(ec, lib.alloc(lib.ecpSeemsValidGroup_deep(fld.n, fld.deep)))
        if r != exp:
            ctx.violation("ecpSeemsValidGroup:wrong-answer:" + name, "ecpSeemsValidGroup disagrees with its header",
                          {"p": p, "a": M.a, "b": M.b, "base": bp, "order": order, "cofactor": cof,
                           "hasse_bound_isqrt4p": h, "expected": exp, "got": r})
        ctx.digest(r)
        lib.release()
    # --- ecpIsSafeGroup
    cands = {N, p, p + 1}
    for cof in (2, 3, 4, 6):
        if N % cof == 0:
            cands.add(N // cof)
    d = 2
    n = N
    while d * d <= n:
        while n % d == 0:
            cands.add(d)
            n //= d
        d += 1
    if n > 1:
        cands.add(n)
    for order in sorted(cands):
        for mov in (0, 1, 2, 6, 50):
            prime = refec.is_probable_prime(order)
            exp = 1 if prime and order != p and all(pow(p, i, order) != 1 % order for i in range(1, mov + 1)) else 0
            name = "safe" if exp else ("composite-order" if not prime else "anomalous" if order == p else "mov")
            if not ctx.case(["ecpIsSafeGroup", label, order, mov], "safegroup:" + name):
                continue
            f, fld, ec = build(M, (base, order, 1))
            r = lib.ecpIsSafeGroup(ec, mov, lib.alloc(lib.ecpIsSafeGroup_deep(fld.n)))
            if r != exp:
                ctx.violation("ecpIsSafeGroup:wrong-answer:" + name, "ecpIsSafeGroup disagrees with its header",
                              {"p": p, "order": order, "mov_threshold": mov, "expected": exp, "got": r})
            ctx.digest(r)
            lib.release()


# ----------------------------------------------------------------------------------------------
# units: small complete curves over GF(p)
# ----------------------------------------------------------------------------------------------

def small_setup(ctx):
    pr = ctx.params
    M = ModP(pr["p"], pr["a"], pr["b"])
    if not M.E.discriminant_nonzero() or not refec.is_probable_prime(M.p):
        raise Harness("catalogue curve is not valid")
    pts = [None] + sorted(M.E.points())
    N = len(pts)
    if (N - M.p - 1) ** 2 > 4 * M.p:
        raise Harness("model point count violates Hasse")
    return M, pts, N


def pick_points(M, pts, N, rng, want=5):
    """(P, order) candidates: maximal order, order 2, order 3, order 4, random"""
    seen, out = set(), []
    by = {}
    aff = [P for P in pts if P is not None]
    sample = aff if len(aff) <= 300 else [aff[i] for i in sorted(rng.sample(range(len(aff)), 120))]
    for P in sample:
        o = point_order(M, P, N=N)
        if N % o:
            raise Harness("model: point order does not divide the group order")
        by.setdefault(o, P)
    best = max(by)
    for o in [best, 2, 3, 4] + sorted(by, reverse=True):
        if o in by and by[o] not in seen and len(out) < want:
            seen.add(by[o])
            out.append((by[o], o))
    return out


def unit_sp_pairs(ctx):
    M, pts, N = small_setup(ctx)
    pr = ctx.params
    eng = Eng(ctx, M)
    rows = [i for i in range(N) if i % pr["nchunks"] == pr["chunk"]]
    if pr.get("maxrows"):
        rows = rows[:pr["maxrows"]]
    run_pairs(ctx, eng, pts, rows, pr.get("maxq", 1 << 30), "sp")
    ctx.note("curves", [eng.tag + " #E=%d" % N])


def demo_common(ctx, eng, sc, cand, label):
    """cases that are expected to die in ASSERT on the current tree live in their own small jobs, so that a
    crash does not take the statistics of a bulk job with it"""
    M = eng.M
    P = cand[0][0]
    if ctx.case(["nega-adjacent", label, P], "nega:adjacent-array-elements"):
        # NegA on two neighbouring elements of one array of affine points: a = pts[0], b = pts[1]
        got = eng.op_nega(eng.enc2(P), adjacent=True)
        eng.cmp(eng.pre + "NegA", M.neg(P), got, "adjacent-array-elements", "none", {"P": P})
        ctx.digest(repr(got))
        ctx.lib.release()
    if ctx.case(["nega-consecutive-allocations", label, P], "nega:consecutive-heap-blocks"):
        got = eng.op_nega(eng.enc2(P))
        eng.cmp(eng.pre + "NegA", M.neg(P), got, "consecutive-heap-blocks", "none", {"P": P})
        ctx.digest(repr(got))
        ctx.lib.release()
    run_ison_gap(ctx, eng, sc, P, label)
    run_demo(ctx, eng, sc, cand, label)
    eng.flush_counts()


def unit_sp_demo(ctx):
    M, pts, N = small_setup(ctx)
    cand = pick_points(M, pts, N, ctx.rng, want=8)
    eng = Eng(ctx, M)
    demo_common(ctx, eng, Scal(eng), cand, "sp")


def unit_sp_scalar(ctx):
    M, pts, N = small_setup(ctx)
    pr = ctx.params
    part = pr["part"]
    rng = ctx.rng
    cand = pick_points(M, pts, N, rng)
    base = cand[0][0]
    eng = Eng(ctx, M, group=(base, cand[0][1], N // cand[0][1] if N // cand[0][1] < (1 << 32) else 1))
    sc = Scal(eng)
    lib = ctx.lib
    if part == "mul":
        for P, o in cand:
            run_mul_all(ctx, eng, sc, P, o, "sp")
        for P, o in cand[:3]:
            run_mul_long(ctx, eng, sc, P, o, "sp", pr.get("nlong", 6))
    elif part == "addmul":
        run_addmul(ctx, eng, sc, cand, "sp", pr.get("nrand", 60))
        run_hasorder(ctx, eng, sc, cand, N, "sp")
    elif part == "misc":
        run_ison(ctx, eng, sc, pts, "sp", M.p <= pr.get("exh_p", 67), pr.get("nison", 150))
        if M.p <= 300:
            inputs = list(range(M.p))
        else:
            inputs = [0, 1, 2, M.p - 1, M.p - 2, (M.p - 1) // 2] + [rng.randrange(M.p) for _ in range(pr.get("nswu", 150))]
        run_swu(ctx, eng, "sp", inputs)
        run_validators_p(ctx, M, N, base, "sp")
        # ecpCreateJ over GF(3) must be refused (expect{FALSE} f->mod > 3)
        if ctx.case(["create-p3"], "create:p=3"):
            M3 = ModP(3, 1, 1)
            f = make_field(lib, M3, keep=False)
            fld = Fld(lib, f)
            ec = lib.alloc(lib.ecpCreateJ_keep(fld.n))
            r = lib.ecpCreateJ(ec, f, lib.mk(b"\1"), lib.mk(b"\1"), lib.alloc(lib.ecpCreateJ_deep(fld.n, fld.deep)))
            if r != 0:
                ctx.violation("ecpCreateJ:accepts:p=3", "ecpCreateJ accepted GF(3)", {"got": r})
            ctx.digest(r)
            lib.release()
    else:
        raise Harness("unknown part")
    eng.flush_counts()


# ----------------------------------------------------------------------------------------------
# units: multi-word prime fields, supersingular curves y^2 = x^3 + a x  (p = 3 mod 4, #E = p + 1)
# ----------------------------------------------------------------------------------------------

SMALL_PRIMES = [q for q in range(3, 200) if all(q % d for d in range(2, q))]


def ss_prime(bits, form, r, idx):
    """deterministic prime p = 3 (mod 4) of exactly `bits` bits with r | p + 1.
    form 'rand': p = 4 r k - 1;  form 'crandall': p = 2^bits - c, c < 2^32 (r is then found, not chosen)"""
    if form == "crandall":
        c = 1 + 4 * (idx * 5000)
        while True:
            p = (1 << bits) - c
            if refec.is_probable_prime(p):
                for q in SMALL_PRIMES:
                    if q >= 5 and (p + 1) % q == 0:
                        return p, q
            c += 4
            if c >= 1 << 32:
                raise Harness("no crandall prime")
    k = ((1 << (bits - 1)) + (1 << (bits - 3)) * (1 + idx % 3)) // (4 * r) + 7919 * idx + 1
    while True:
        p = 4 * r * k - 1
        if p.bit_length() != bits:
            raise Harness("prime search left the bit range")
        if refec.is_probable_prime(p):
            return p, r
        k += 1


def closure(M, gens, limit=4096):
    S = {None}
    frontier = [None]
    while frontier:
        nxt = []
        for P in frontier:
            for G in gens:
                R = M.add(P, G)
                if R not in S:
                    S.add(R)
                    nxt.append(R)
                    if len(S) > limit:
                        raise Harness("subgroup larger than expected")
        frontier = nxt
    return [None] + sorted(P for P in S if P is not None)


def ss_setup(ctx):
    pr = ctx.params
    p, r = ss_prime(pr["bits"], pr["form"], pr.get("r", 0), pr.get("idx", 0))
    a = p - 3 if pr["a"] == "A3" else int(pr["a"]) % p
    M = ModP(p, a, 0)
    N = p + 1
    rng = ctx.rng
    # generator of the r-part and a point of 2-power order <= 4, found by cofactor multiplication in the model
    G = T = None
    e2 = (N & -N)
    while G is None or T is None:
        P = M.lift_x(M.rand_elem(rng))
        if P is None or not M.is_on(P):
            continue
        if M.mul(N, P) is not None:
            raise Harness("supersingular order p+1 not confirmed by the model")
        if G is None:
            G = M.mul(N // r, P)
        if T is None:
            T = M.mul(N // e2, P)
            while T is not None and M.dbl(M.dbl(T)) is not None:
                T = M.dbl(T)
    gens = [G, T, (0, 0)]
    s = refec.sqrt_mod((-a) % p, p)
    if s is not None:
        gens += [(s, 0), (p - s, 0)]
    pts = closure(M, gens)
    return M, pts, N, r


def unit_ss(ctx):
    pr = ctx.params
    M, pts, N, r = ss_setup(ctx)
    label = "ss%d%s" % (pr["bits"], pr["form"][0])
    rng = ctx.rng
    part = pr["part"]
    if part == "demo":
        eng = Eng(ctx, M)
        cand = [(P, point_order(M, P)) for P in pts[1:]]
        cand.sort(key=lambda c: (-c[1], c[0]))
        demo_common(ctx, eng, Scal(eng), cand[:1] + [c for c in cand if at_risk(c[1])][:8] + cand[-1:], label)
        return
    eng = Eng(ctx, M, group=(pts[1], N // 4, 4))
    sc = Scal(eng)
    if part == "pairs":
        rows = [i for i in range(len(pts)) if i % pr["nchunks"] == pr["chunk"]]
        run_pairs(ctx, eng, pts, rows, pr.get("maxq", 1 << 30), label, "no")
    elif part == "affine":
        # the direct affine functions get stacks of exactly ecpAddAA_deep / ecpSubAA_deep / ecpIsOnA_deep
        run_pairs(ctx, eng, pts, list(range(len(pts))), pr.get("maxq", 12), label, "only")
        run_ison(ctx, eng, sc, pts, label, False, 40)
    elif part == "scalar":
        byo = {}
        for P in pts[1:]:
            byo.setdefault(point_order(M, P), P)
        cand = [(byo[o], o) for o in sorted(byo, reverse=True)][:6]
        if 2 in byo and (byo[2], 2) not in cand:
            cand.append((byo[2], 2))
        for P, o in cand[:3] + cand[-1:]:
            run_mul_all(ctx, eng, sc, P, o, label, every=5)
        for P, o in cand[:2] + cand[-1:]:
            run_mul_long(ctx, eng, sc, P, o, label, pr.get("nlong", 4))
        run_addmul(ctx, eng, sc, cand, label, pr.get("nrand", 40))
        H = len(pts)
        run_hasorder(ctx, eng, sc, cand[:4], H, label)
        # a point of large order: random point of the whole curve, scalars around the group order p + 1
        lib = ctx.lib
        for it in range(pr.get("nbig", 4)):
            P = None
            while P is None:
                P = M.lift_x(M.rand_elem(rng))
            for d in (N, N - 1, N + 1, 2 * N, rng.randrange(N), rng.getrandbits(pr["bits"] + 40)):
                mb = 32 * ((max(d.bit_length(), 1) + 31) // 32) + 32 * (it % 2)
                exp = M.mul(d % N, P)
                if not ctx.case(["mul", label, P, d, mb], "mul:big-order/" + scalar_cls(d, N)):
                    continue
                got = sc.mul(P, d, mb)
                if got != exp:
                    eng.bad("ecMulA", "wrong-result", "big-order/" + scalar_cls(d, N),
                            {"P": P, "d": d, "length_bits": mb, "expected": exp, "got": got})
                ctx.digest(repr(got))
                lib.release()
    else:
        raise Harness("unknown part")
    eng.flush_counts()
    ctx.note("curves", ["%s #E=p+1 subgroup=%d" % (eng.tag, len(pts))])


# ----------------------------------------------------------------------------------------------
# units: binary curves whose coefficients lie in a small subfield GF(2^k) of GF(2^m): E(GF(2^k)) is a
# complete small subgroup of E(GF(2^m)) (all pairs), #E(GF(2^m)) follows from Weil's recursion
# ----------------------------------------------------------------------------------------------

def b2_setup(ctx):
    pr = ctx.params
    poly = pr["poly"]
    f = 1
    for e in poly:
        if e:
            f |= 1 << e
    if not gf2poly.is_irreducible(f):
        raise Harness("catalogue polynomial is reducible")
    F = ec2m.Field2(f)
    k = pr["k"]
    sub = ec2m.subfield_elements(F, k)
    a, b = sub[pr["ia"] % len(sub)], sub[1 + pr["ib"] % (len(sub) - 1)]
    M = Mod2(poly, a, b)
    pts = [None]
    for x in sub:
        for y in sub:
            if M.is_on((x, y)):
                pts.append((x, y))
    pts = [None] + sorted(pts[1:])
    N = ec2m.subfield_curve_order(M.F, a, b, k)
    if (len(pts) - (1 << k) - 1) ** 2 > 4 << k or N % len(pts):
        raise Harness("subfield point count inconsistent")
    S = set(pts)
    for P in pts[:8]:
        for Q in pts[-8:]:
            if M.add(P, Q) not in S:
                raise Harness("subfield points not closed")
    return M, pts, N


def unit_b2(ctx):
    pr = ctx.params
    M, pts, N = b2_setup(ctx)
    label = "b2m%dk%d" % (M.m, pr["k"])
    rng, lib = ctx.rng, ctx.lib
    part = pr["part"]
    H = len(pts)
    byo = {}
    for P in pts[1:]:
        byo.setdefault(point_order(M, P), P)
    cand = [(byo[o], o) for o in sorted(byo, reverse=True)][:6]
    if (byo[2], 2) not in cand:
        cand.append((byo[2], 2))
    if part == "demo":
        eng = Eng(ctx, M)
        demo_common(ctx, eng, Scal(eng), cand, label)
        return
    base = cand[0][0]
    eng = Eng(ctx, M, group=(base, cand[0][1], 2))
    sc = Scal(eng)
    if part == "pairs":
        rows = [i for i in range(H) if i % pr["nchunks"] == pr["chunk"]]
        run_pairs(ctx, eng, pts, rows, pr.get("maxq", 1 << 30), label, "no")
    elif part == "affine":
        run_pairs(ctx, eng, pts, list(range(H)), pr.get("maxq", 24), label, "only")
        run_ison(ctx, eng, sc, pts, label, False, 40)
    elif part == "scalar":
        for P, o in cand[:2] + cand[-1:]:
            run_mul_all(ctx, eng, sc, P, o, label, every=5)
        for P, o in cand[:2] + cand[-1:]:
            run_mul_long(ctx, eng, sc, P, o, label, pr.get("nlong", 3))
        run_addmul(ctx, eng, sc, cand, label, pr.get("nrand", 30))
        run_hasorder(ctx, eng, sc, cand[:3] + cand[-1:], H, label)
        # points of the big field: scalars around the full group order N
        for it in range(pr.get("nbig", 3)):
            P = None
            while P is None:
                P = M.lift_x(M.rand_elem(rng))
            if M.mul(N, P) is not None:
                raise Harness("Weil order not confirmed by the model")
            for d in (N, N - 1, N + 1, 2 * N, rng.randrange(N)):
                mb = 32 * ((max(d.bit_length(), 1) + 31) // 32) + 32 * (it % 2)
                exp = M.mul(d % N, P)
                if not ctx.case(["mul", label, P, d, mb], "mul:big-order/" + scalar_cls(d, N)):
                    continue
                got = sc.mul(P, d, mb)
                if got != exp:
                    eng.bad("ecMulA", "wrong-result", "big-order/" + scalar_cls(d, N),
                            {"P": P, "d": d, "length_bits": mb, "expected": exp, "got": got})
                ctx.digest(repr(got))
                lib.release()
        run_validators_2(ctx, M, N, base, label)
    else:
        raise Harness("unknown part")
    eng.flush_counts()
    ctx.note("curves", ["%s #E(GF(2^%d))=%d, #E=%d" % (eng.tag, pr["k"], H, N)])


def run_validators_2(ctx, M, N, base, label):
    """ec2IsValid / ec2SeemsValidGroup / ec2IsSafeGroup as ec2.h defines them"""
    lib = ctx.lib
    m = M.m

    def build(Mx, group):
        f = make_field(lib, Mx, keep=False)
        fld = Fld(lib, f)
        ec = make_curve(lib, Mx, f, fld, keep=False, group=group)
        return f, fld, ec

    if ctx.case(["ec2IsValid", label], "valid:valid"):
        f, fld, ec = build(M, None)
        r = lib.ec2IsValid(ec, lib.alloc(lib.ec2IsValid_deep(fld.n)))
        if r != 1:
            ctx.violation("ec2IsValid:wrong-answer:valid", "ec2IsValid rejects a valid curve", {"curve": M.tag(), "got": r})
        ctx.digest(r)
        lib.release()
    # Hasse: |order*cofactor - (2^m + 1)| <= 2^(m/2 + 1)   <=>   t^2 <= 4 * 2^m
    h = isqrt(4 << m)
    groups = []
    e2 = N & -N
    for cof in (2, 4):
        if N % cof == 0:
            groups.append(("true-order-cofactor%d" % cof, base, N // cof, cof, 1))
    for t, exp in ((h, 1), (-h, 1), (h + 1, 0), (-h - 1, 0), (0, 1), (1 << (m // 2 + 8), 0), (-(1 << (m - 3)), 0),
                   (1 << (m - 1), 0), (3, 1)):
        groups.append(("hasse-%s" % ("inside" if exp else "outside"), base, (1 << m) + 1 + t, 1, exp))
    off = (base[0], base[1] ^ 1)
    if not M.is_on(off):
        groups.append(("base-off-curve", off, N // 2, 2, 0))
    for name, bp, order, cof, exp in groups:
        if not ctx.case(["ec2SeemsValidGroup", label, name, bp, order, cof], "group:" + name):
            continue
        f, fld, ec = build(M, (bp, order, cof))
        r = lib.ec2SeemsValidGroup(ec, lib.alloc(lib.ec2SeemsValidGroup_deep(fld.n, fld.deep)))
        if r != exp:
            ctx.violation("ec2SeemsValidGroup:wrong-answer:" + name, "ec2SeemsValidGroup disagrees with its header "
                          "(|order*cofactor - (2^m+1)| <= 2^(m/2+1))",
                          {"curve": M.tag(), "m": m, "base": bp, "order": order, "cofactor": cof,
                           "order*cofactor-(2^m+1)": order * cof - (1 << m) - 1, "bound_isqrt(4*2^m)": h,
                           "expected": exp, "got": r})
        ctx.digest(r)
        lib.release()
    cands = {N // e2, N // 2, (1 << m), 3, 7, 11}
    n, d = N // e2, 3
    while d < 2000:
        while n % d == 0:
            cands.add(d)
            n //= d
        d += 2
    if n > 1:
        cands.add(n)
    for order in sorted(c for c in cands if c > 0):
        for mov in (0, 1, 4, 30):
            prime = refec.is_probable_prime(order)
            exp = 1 if prime and order != (1 << m) and all(pow(2, m * i, order) != 1 % order for i in range(1, mov + 1)) else 0
            name = "safe" if exp else ("composite-order" if not prime else "mov")
            if not ctx.case(["ec2IsSafeGroup", label, order, mov], "safegroup:" + name):
                continue
            f, fld, ec = build(M, (base, order, 1))
            r = lib.ec2IsSafeGroup(ec, mov, lib.alloc(lib.ec2IsSafeGroup_deep(fld.n)))
            if r != exp:
                ctx.violation("ec2IsSafeGroup:wrong-answer:" + name, "ec2IsSafeGroup disagrees with its header",
                              {"curve": M.tag(), "order": order, "mov_threshold": mov, "expected": exp, "got": r})
            ctx.digest(r)
            lib.release()


# ----------------------------------------------------------------------------------------------
# units: standard curves (bign 128/192/256, bign96, GOST R 34.10, DSTU 4145)
# ----------------------------------------------------------------------------------------------

def _define(header, name):
    txt = open(os.path.join(build.REPO, "include/bee2/crypto", header), encoding="utf-8", errors="replace").read()
    m = re.search(r"#define\s+%s\s+(.+)" % name, txt)
    if not m:
        raise Harness("no #define " + name)
    e = m.group(1).strip()
    e = re.sub(r"O_OF_B\((\d+)\)", lambda k: str((int(k.group(1)) + 7) // 8), e)
    if not re.fullmatch(r"[\d\s()+*/-]+", e):
        raise Harness("cannot evaluate " + name)
    return int(eval(e))


def load_std(lib, fam, name):
    """-> (model, G or None, order, cofactor) from the library's own parameter tables"""
    le = lambda b: int.from_bytes(b, "little")
    if fam in ("bign", "bign96"):
        class BP(ctypes.Structure):
            _fields_ = [("l", c_size_t), ("p", ctypes.c_ubyte * 64), ("a", ctypes.c_ubyte * 64), ("b", ctypes.c_ubyte * 64),
                        ("q", ctypes.c_ubyte * 64), ("yG", ctypes.c_ubyte * 64), ("seed", ctypes.c_ubyte * 8)]
        buf = lib.alloc(ctypes.sizeof(BP))
        r = (lib.bignParamsStd if fam == "bign" else lib.bign96ParamsStd)(buf, lib.cstr(name))
        if r != 0:
            raise Harness("ParamsStd(%s) = %d" % (name, r))
        P = BP.from_buffer_copy(lib.rd(buf, ctypes.sizeof(BP)))
        lib.release()
        no = (2 * P.l + 7) // 8
        M = ModP(le(bytes(P.p)[:no]), le(bytes(P.a)[:no]), le(bytes(P.b)[:no]))
        return M, (0, le(bytes(P.yG)[:no])), le(bytes(P.q)[:no]), 1
    if fam == "g12s":
        FS, OS = _define("g12s.h", "G12S_FIELD_SIZE"), _define("g12s.h", "G12S_ORDER_SIZE")

        class GP(ctypes.Structure):
            _fields_ = [("l", ctypes.c_uint32), ("p", ctypes.c_ubyte * FS), ("a", ctypes.c_ubyte * FS),
                        ("b", ctypes.c_ubyte * FS), ("q", ctypes.c_ubyte * OS), ("n", ctypes.c_uint32),
                        ("xP", ctypes.c_ubyte * FS), ("yP", ctypes.c_ubyte * FS)]
        buf = lib.alloc(ctypes.sizeof(GP))
        r = lib.g12sParamsStd(buf, lib.cstr(name))
        if r != 0:
            raise Harness("g12sParamsStd(%s) = %d" % (name, r))
        P = GP.from_buffer_copy(lib.rd(buf, ctypes.sizeof(GP)))
        lib.release()
        p = le(bytes(P.p)[:FS * P.l // 512])
        no = (p.bit_length() + 7) // 8
        M = ModP(p, le(bytes(P.a)[:no]), le(bytes(P.b)[:no]))
        return M, (le(bytes(P.xP)[:no]), le(bytes(P.yP)[:no])), le(bytes(P.q)[:P.l // 8]), int(P.n)
    if fam == "dstu":
        DS = _define("dstu.h", "DSTU_SIZE")

        class DP(ctypes.Structure):
            _fields_ = [("p", ctypes.c_uint16 * 4), ("A", ctypes.c_ubyte), ("B", ctypes.c_ubyte * DS),
                        ("n", ctypes.c_ubyte * DS), ("c", ctypes.c_uint32), ("P", ctypes.c_ubyte * (2 * DS))]
        buf = lib.alloc(ctypes.sizeof(DP))
        r = lib.dstuParamsStd(buf, lib.cstr(name))
        if r != 0:
            raise Harness("dstuParamsStd(%s) = %d" % (name, r))
        P = DP.from_buffer_copy(lib.rd(buf, ctypes.sizeof(DP)))
        lib.release()
        poly = [int(v) for v in P.p]
        no = (poly[0] + 7) // 8
        M = Mod2(poly, int(P.A), le(bytes(P.B)[:no]))
        G = (le(bytes(P.P)[:no]), le(bytes(P.P)[no:2 * no]))
        if G == (0, 0):
            G = None
        return M, G, le(bytes(P.n)[:no]), int(P.c)
    raise Harness("unknown family")


class MulMemo:
    """model scalar multiples with the point's (model-verified) order used for reduction"""

    def __init__(self, M):
        self.M, self.ord, self.memo = M, {}, {}

    def set_order(self, P, o):
        if self.M.mul(o, P) is not None:
            raise Harness("model: claimed order is wrong")
        self.ord[P] = o

    def mul(self, d, P):
        o = self.ord[P]
        d %= o
        if d == 0:
            return None
        if 2 * d > o:
            return self.M.neg(self.mul(o - d, P))
        k = (P, d)
        if k not in self.memo:
            self.memo[k] = self.M.mul(d, P)
        return self.memo[k]


def swu_anchor(lib, M):
    """model anchor: the bakeSWU vector of STB 34.101.66 (table B.4 data, test/crypto/bake_test.c); the octet
    string -> field element step (belt-wblock, then mod p) is done with the library's belt"""
    X = bytes.fromhex("AD1362A8F9A3D42FBE1B8E6F1C88AAD50F51D91347617C20BD4AB07AEF4F26A1")
    W = bytes.fromhex("014417D3355557317D2E2AB6D08754878D19E8D97B71FDC95DBB2A9B894D16D7"
                      "7704A0B5CAA9CDA10791E4760671E1050DDEAB7083A7458447866ADB01473810")
    H = lib.mk(X + bytes(16))
    st = lib.alloc(lib.beltWBL_keep())
    lib.beltWBLStart(st, lib.mk(bytes(16)), 16)
    lib.beltWBLStepE(H, 48, st)
    s = int.from_bytes(lib.rd(H, 48), "little") % M.p
    lib.release()
    got = swu_model(M.p, M.a, M.b, s)
    exp = (int.from_bytes(W[:32], "little"), int.from_bytes(W[32:], "little"))
    if got != exp:
        raise Harness("SWU model does not reproduce the STB 34.101.66 vector")


def std_setup(ctx):
    pr = ctx.params
    lib, rng = ctx.lib, ctx.rng
    M, G, q, cof = load_std(lib, pr["fam"], pr["name"])
    if not refec.is_probable_prime(q):
        raise Harness("standard order is not prime")
    N = q * cof
    if M.kind == "p":
        if (N - M.p - 1) ** 2 > 4 * M.p:
            raise Harness("Hasse")
    else:
        if not gf2poly.is_irreducible(M.fpoly):
            raise Harness("standard polynomial reducible")
    # fixed generator of the order-q subgroup: the standard one, or (DSTU) derived from a fixed abscissa search
    if G is None:
        x = 2
        while G is None:
            P = M.lift_x(x)
            x += 1
            if P is not None:
                P = M.mul(cof, P)
                if P is not None:
                    G = P
    if not M.is_on(G):
        raise Harness("standard base point not on the model curve")
    mm = MulMemo(M)
    mm.set_order(G, q)
    T = None
    if cof % 2 == 0:
        x = 3
        while T is None:
            P = M.lift_x(x)
            x += 1
            if P is None:
                continue
            R = M.mul(q, P)
            while R is not None and M.dbl(R) is not None:
                R = M.dbl(R)
            T = R
        mm.set_order(T, 2)
    return M, G, q, cof, N, T, mm


def std_scalars(rng, q, fbits):
    ds = [0, 1, 2, 3, q - 2, q - 1, q, q + 1, 2 * q - 1, 2 * q, 2 * q + 1, 3 * q, (q - 1) // 2, (q + 1) // 2]
    qb = q.bit_length()
    for k in (31, 32, 33, 63, 64, 65, 127, 128, qb - 1, qb, qb + 1, qb + 31):
        ds += [(1 << k) - 1, 1 << k]
    ds += [rng.randrange(q) for _ in range(4)]
    ds += [rng.getrandbits(fbits + 32), rng.getrandbits(fbits + 64), rng.getrandbits(40), rng.getrandbits(100)]
    return ds


def std_lens(d, fbits, nlens=4):
    r32 = lambda v: 32 * ((v + 31) // 32)
    need = max(32, r32(d.bit_length()))
    ls = sorted({mb for mb in (need, r32(fbits), r32(fbits) + 32, r32(fbits) + 64) if mb >= need})
    if nlens < len(ls):
        ls = [ls[0], ls[-2]] if nlens == 2 else ls[:nlens]
    return ls


def unit_std(ctx):
    pr = ctx.params
    lib, rng = ctx.lib, ctx.rng
    M, G, q, cof, N, T, mm = std_setup(ctx)
    label = pr["name"]
    part = pr["part"]
    fbits = M.bits
    if part == "demo":
        eng = Eng(ctx, M)
        cand = [(G, q)] + ([(T, 2)] if T is not None else [])
        demo_common(ctx, eng, Scal(eng), cand, label)
        return
    eng = Eng(ctx, M, group=(G, q, cof))
    sc = Scal(eng)
    k1 = rng.randrange(2, q)
    K = mm.M.mul(k1, G)
    mm.set_order(K, q)
    nG = M.neg(G)
    mm.set_order(nG, q)
    pts = [(G, q), (nG, q), (K, q)]
    if T is not None:
        GT = M.add(G, T)
        mm.set_order(GT, 2 * q)
        pts += [(T, 2), (GT, 2 * q)]
    if part == "mul":
        sel = pts[pr["chunk"]::pr["nchunks"]]
        ds = std_scalars(rng, q, fbits)
        for P, o in sel:
            for d in ds:
                exp = mm.mul(d, P)
                for mb in std_lens(d, fbits, pr.get("nlens", 4)):
                    if not ctx.case(["mul", label, P, d, mb], "mul:std/" + scalar_cls(d, o)):
                        continue
                    got = check_mul(ctx, eng, sc, P, o, d, mb, exp, "/std")
                    ctx.digest(repr(got))
                    lib.release()
    elif part == "other":
        # --- multi-scalar sums
        r1, r2, r3 = rng.randrange(q), rng.randrange(q), rng.getrandbits(fbits + 20)
        fb = 32 * ((fbits + 31) // 32)
        combos = [[(G, r1, fb), (G, q - r1, fb)], [(G, r1, fb), (nG, r1, fb)], [(G, 1, 32), (G, q - 1, fb)],
                  [(G, q, fb), (K, 0, 32)], [(G, 0, 32), (K, 0, fb)], [(G, r1, fb), (K, r2, fb)],
                  [(G, r1, fb), (K, r2, fb), (nG, r3, fb + 32)], [(G, r1, fb), (K, r2, fb), (G, q - r1, fb)],
                  [(K, r2, fb), (G, r1, fb), (K, q - r2, fb), (nG, r1, fb)], [(G, 2, 32), (G, 3, 32)],
                  [(G, (1 << 64) - 1, 64), (K, 1 << 63, 64)], [(K, r3, fb + 32)], [(G, 2 * q, fb + 32), (G, 5, 32)]]
        if T is not None:
            combos += [[(T, 2, 32)], [(T, 1, 32), (T, 1, 32)], [(G, r1, fb), (T, 1, 32)], [(pts[-1][0], q, fb), (T, 3, 32)],
                       [(T, 1, 32), (G, r1, fb)],
                       [(pts[-1][0], 2 * q, fb + 32)], [(T, r2, fb), (G, r1, fb)]]
        for terms in combos:
            exp = None
            for P, d, _ in terms:
                exp = M.add(exp, mm.mul(d, P))
            cls = "std/k%d" % len(terms) + ("/sum=O" if exp is None else "")
            if not ctx.case(["addmul", label, [list(t) for t in terms]], "addmul:" + cls):
                continue
            got = check_addmul(ctx, eng, sc, terms, exp, cls)
            ctx.digest(repr(got))
            lib.release()
        # --- order test
        fb1 = fb + 32
        hs = [(G, q, q, fb), (G, q, q, fb1), (G, q, q - 1, fb), (G, q, q + 1, fb1), (G, q, 2 * q, fb1), (K, q, q, fb),
              (G, q, 1, 32), (G, q, 2, 32), (G, q, rng.randrange(1, q), fb)]
        if T is not None:
            GT = pts[-1][0]
            hs += [(T, 2, 2, 32), (T, 2, q, fb), (GT, 2 * q, q, fb), (GT, 2 * q, 2 * q, fb1), (GT, 2 * q, 2, 32), (T, 2, 1, 32)]
        for P, o, qq, mb in hs:
            cls = "q=order" if qq == o else "order|q(tolerated)" if qq % o == 0 else "order-does-not-divide-q"
            if not ctx.case(["hasorder", label, P, qq, mb], "hasorder:std/" + cls):
                continue
            r, _ = check_hasorder(ctx, eng, sc, P, o, qq, mb)
            ctx.digest(r)
            lib.release()
    elif part == "pairs":
        # --- group law on the special pairs
        L = [None, G, nG, M.dbl(G), K] + ([T, pts[-1][0]] if T is not None else [])
        run_pairs(ctx, eng, L, list(range(len(L))), 1 << 30, label, "no")
    elif part == "affine":
        L = [None, G, M.neg(G), M.dbl(G), K] + ([T, pts[-1][0]] if T is not None else [])
        run_pairs(ctx, eng, L, list(range(len(L))), 1 << 30, label, "only")
        more = []
        while len(more) < 12:
            P = M.lift_x(M.rand_elem(rng))
            if P is not None:
                more.append(P)
        run_ison(ctx, eng, sc, L + more, label, False, 16)
        if M.kind == "p":
            if pr["name"].endswith("45.3.1") and pr["fam"] == "bign":
                swu_anchor(lib, M)
            p = M.p
            run_swu(ctx, eng, label, [0, 1, 2, p - 1, p - 2, (p - 1) // 2] + [rng.randrange(p) for _ in range(pr.get("nswu", 10))])
    elif part == "valid":
        std_validators(ctx, M, G, q, cof, label)
    else:
        raise Harness("unknown part")
    eng.flush_counts()
    ctx.note("curves", ["%s: %s" % (label, eng.tag[:60])])


def std_validators(ctx, M, G, q, cof, label):
    lib = ctx.lib

    def build(group):
        f = make_field(lib, M, keep=False)
        fld = Fld(lib, f)
        return fld, make_curve(lib, M, f, fld, keep=False, group=group)

    P2 = "ecp" if M.kind == "p" else "ec2"
    two_m = M.p if M.kind == "p" else (1 << M.m)
    h = isqrt(4 * two_m)
    if ctx.case([P2 + "IsValid", label], "valid:valid"):
        fld, ec = build(None)
        if M.kind == "p":
            r = lib.ecpIsValid(ec, lib.alloc(lib.ecpIsValid_deep(fld.n, fld.deep)))
        else:
            r = lib.ec2IsValid(ec, lib.alloc(lib.ec2IsValid_deep(fld.n)))
        if r != 1:
            ctx.violation(P2 + "IsValid:wrong-answer:valid", "standard curve rejected", {"curve": label, "got": r})
        ctx.digest(r)
        lib.release()
    groups = [("true-order", G, q, cof, 1)]
    for t, exp in ((h, 1), (-h, 1), (h + 1, 0), (-h - 1, 0), (1 << (M.bits // 2 + 6), 0), (-(1 << (M.bits - 8)), 0)):
        groups.append(("hasse-%s" % ("inside" if exp else "outside"), G, two_m + 1 + t, 1, exp))
    for name, bp, order, cf, exp in groups:
        if not ctx.case([P2 + "SeemsValidGroup", label, name, order, cf], "group:" + name):
            continue
        fld, ec = build((bp, order, cf))
        if M.kind == "p":
            r = lib.ecpSeemsValidGroup(ec, lib.alloc(lib.ecpSeemsValidGroup_deep(fld.n, fld.deep)))
        else:
            r = lib.ec2SeemsValidGroup(ec, lib.alloc(lib.ec2SeemsValidGroup_deep(fld.n, fld.deep)))
        if r != exp:
            ctx.violation(P2 + "SeemsValidGroup:wrong-answer:" + name, P2 + "SeemsValidGroup disagrees with its header",
                          {"curve": label, "order": order, "cofactor": cf, "order*cofactor-(field size+1)": order * cf - two_m - 1,
                           "hasse_bound": h, "expected": exp, "got": r})
        ctx.digest(r)
        lib.release()
    base = M.p if M.kind == "p" else (1 << M.m)
    for order in (q, q * cof if cof > 1 else q + 2, two_m if M.kind == "2" else M.p):
        for mov in (0, 1, 8, 31):
            prime = refec.is_probable_prime(order)
            exp = 1 if prime and order != two_m and all(pow(base, i, order) != 1 for i in range(1, mov + 1)) else 0
            name = "safe" if exp else ("composite-order" if not prime else "anomalous" if order == two_m else "mov")
            if not ctx.case([P2 + "IsSafeGroup", label, order, mov], "safegroup:" + name):
                continue
            fld, ec = build((G, order, 1))
            if M.kind == "p":
                r = lib.ecpIsSafeGroup(ec, mov, lib.alloc(lib.ecpIsSafeGroup_deep(fld.n)))
            else:
                r = lib.ec2IsSafeGroup(ec, mov, lib.alloc(lib.ec2IsSafeGroup_deep(fld.n)))
            if r != exp:
                ctx.violation(P2 + "IsSafeGroup:wrong-answer:" + name, P2 + "IsSafeGroup disagrees with its header",
                              {"curve": label, "order": order, "mov_threshold": mov, "expected": exp, "got": r})
            ctx.digest(r)
            lib.release()


# ----------------------------------------------------------------------------------------------
# catalogue and job lists
# ----------------------------------------------------------------------------------------------

# (p, a, b): complete small curves; a = p-3 selects ecpDblJA3/ecpTplJA3; group orders prime / even with one or
# three points of order two / divisible by 3 / with cofactor; a = 0 (j = 0) and b = 0 (j = 1728) included
SMALL_QUICK = [(5, 1, 0), (7, 4, 3), (13, 5, 7), (43, 40, 8), (71, 26, 35), (103, 100, 36)]
# complete in the thorough tier, all special Q's + a sample in the quick tier
SMALL_MID = [(131, 49, 49), (167, 164, 21), (211, 13, 36), (251, 0, 136)]
SMALL_MORE = [
    (5, 2, 4), (5, 0, 2), (7, 4, 1), (7, 1, 6), (7, 0, 3), (11, 8, 5), (11, 5, 4), (13, 10, 12), (13, 0, 1), (17, 14, 16),
    (19, 16, 18), (23, 20, 18), (31, 28, 30), (43, 40, 8), (59, 56, 21), (59, 37, 26), (67, 64, 62), (71, 68, 29),
    (79, 76, 23), (83, 36, 59), (97, 94, 43), (97, 53, 22), (103, 75, 55), (107, 104, 94), (127, 121, 101),
    (127, 124, 36), (131, 128, 109), (139, 136, 19), (151, 148, 41), (163, 74, 26), (179, 176, 84), (191, 106, 19),
    (199, 196, 107), (223, 220, 24), (227, 133, 96), (239, 236, 99), (251, 248, 95), (257, 254, 227), (263, 3, 199),
]
# sampled pairs: (p, a, b, rows, maxq)
SMALL_SAMPLED = [(1019, 1016, 7, 160, 24), (4091, 4088, 5, 120, 24), (65519, 65516, 11, 80, 16), (65521, 2, 3, 80, 16)]

# (bits, form, r, a)
SS_QUICK = [(192, "rand", 7, "A3"), (256, "crandall", 0, "2"), (64, "rand", 5, "A3"), (128, "rand", 3, "5")]
SS_MORE = [(192, "crandall", 0, "A3"), (96, "rand", 11, "A3"), (128, "crandall", 0, "A3"), (256, "rand", 13, "A3"),
           (192, "rand", 3, "7"), (384, "rand", 5, "A3"), (521, "rand", 7, "3"), (64, "rand", 13, "2"), (160, "rand", 5, "A3")]

# (poly, k, ia, ib)
B2_QUICK = [([180, 3, 0, 0], 5, 7, 3), ([168, 15, 3, 2], 4, 1, 6), ([84, 5, 0, 0], 4, 5, 3)]
B2_MORE = [([180, 3, 0, 0], 6, 0, 11), ([180, 3, 0, 0], 4, 9, 1), ([175, 6, 0, 0], 5, 3, 8), ([175, 6, 0, 0], 7, 21, 40),
           ([168, 15, 3, 2], 6, 33, 2), ([165, 9, 8, 3], 5, 0, 0), ([165, 9, 8, 3], 3, 4, 2), ([186, 11, 0, 0], 6, 1, 17),
           ([162, 8, 7, 4], 6, 12, 30), ([190, 8, 7, 6], 5, 19, 4), ([182, 81, 0, 0], 7, 1, 3), ([159, 31, 0, 0], 3, 2, 5),
           ([97, 33, 0, 0], 1, 0, 0), ([97, 33, 0, 0], 1, 1, 0), ([128, 7, 2, 1], 4, 6, 9), ([96, 10, 9, 6], 6, 5, 5),
           ([70, 5, 3, 1], 5, 2, 2), ([132, 17, 0, 0], 4, 3, 3)]

BIGN = ["1.2.112.0.2.0.34.101.45.3.1", "1.2.112.0.2.0.34.101.45.3.2", "1.2.112.0.2.0.34.101.45.3.3"]
G12S = ["1.2.643.2.2.35.1", "1.2.643.7.1.2.1.2.1", "1.2.643.2.2.35.0", "1.2.643.2.2.35.2", "1.2.643.2.2.35.3",
        "1.2.643.2.9.1.8.1", "1.2.643.7.1.2.1.2.0", "1.2.643.7.1.2.1.2.2"]
DSTU = ["1.2.804.2.1.1.1.1.3.1.1.1.2.%d" % i for i in (0, 5, 1, 2, 3, 4, 6, 7, 8, 9)]


def _cut(lst, scale, least=1):
    if scale >= 1:
        return list(lst)
    return list(lst[:max(least, int(len(lst) * scale + 0.5))])


def jobs(tier, scale=1.0):
    q = tier == "quick"
    js = []

    def J(unit, **params):
        js.append({"unit": "c06:" + unit, "params": params})

    per_job = 5000 if q else 20000          # pairs per job (about 2.5 ms each)

    def pairs_jobs(p, a, b, maxq):
        n = p + 1
        cols = min(n, maxq + 8)
        nch = max(1, min(16, -(-n * cols // per_job)))
        for c in range(nch):
            J("unit_sp_pairs", p=p, a=a, b=b, chunk=c, nchunks=nch, maxq=maxq)

    # ---- small complete curves over GF(p)
    full = _cut(SMALL_QUICK if q else SMALL_QUICK + SMALL_MID + SMALL_MORE, scale, 3)
    for (p, a, b) in full:
        pairs_jobs(p, a, b, 1 << 30 if scale >= 1 else max(8, int((p + 1) * scale)))
    mid = _cut(SMALL_MID, scale) if q else []
    for (p, a, b) in mid:
        pairs_jobs(p, a, b, max(8, int(36 * min(1.0, scale))))
    for (p, a, b) in full + mid:
        for part in ("mul", "addmul", "misc"):
            J("unit_sp_scalar", p=p, a=a, b=b, part=part)
    for (p, a, b, rows, maxq) in _cut(SMALL_SAMPLED[:2] if q else SMALL_SAMPLED, scale):
        nch = 1 if q else 4
        for c in range(nch):
            J("unit_sp_pairs", p=p, a=a, b=b, chunk=c, nchunks=max(nch, (p + 1) // rows), maxq=maxq,
              maxrows=max(4, int(rows * min(1.0, scale))))
        for part in ("mul", "addmul", "misc"):
            J("unit_sp_scalar", p=p, a=a, b=b, part=part, nswu=100 if q else 400, nison=100 if q else 400)
    for (p, a, b) in (full + mid)[1:3] + ([] if q else full[3:8]):
        J("unit_sp_demo", p=p, a=a, b=b)
    # ---- multi-word prime fields
    for (bits, form, r, a) in _cut(SS_QUICK if q else SS_QUICK + SS_MORE, scale):
        base = dict(bits=bits, form=form, r=r, a=a)
        nch = 1 if q else 3
        for c in range(nch):
            J("unit_ss", part="pairs", chunk=c, nchunks=nch, maxq=(40 if q else 1 << 30) if scale >= 1 else 12, **base)
        J("unit_ss", part="scalar", nlong=3 if q else 8, nrand=30 if q else 90, nbig=2 if q else 6, **base)
        J("unit_ss", part="affine", maxq=10 if q else 40, **base)
        J("unit_ss", part="demo", **base)
    # ---- binary fields, subfield curves
    for (poly, k, ia, ib) in _cut(B2_QUICK if q else B2_QUICK + B2_MORE, scale):
        base = dict(poly=poly, k=k, ia=ia, ib=ib)
        nch = 1 if (q or k < 6) else 4
        for c in range(nch):
            J("unit_b2", part="pairs", chunk=c, nchunks=nch, maxq=(40 if q else 1 << 30) if scale >= 1 else 12, **base)
        J("unit_b2", part="scalar", nlong=2 if q else 6, nrand=24 if q else 80, nbig=2 if q else 5, **base)
        J("unit_b2", part="affine", maxq=12 if q else 48, **base)
        J("unit_b2", part="demo", **base)
    # ---- standard curves
    std = [("bign", n) for n in (BIGN[:1] + BIGN[2:] if q else BIGN)] + [("bign96", "1.2.112.0.2.0.34.101.45.3.0")]
    std += [("g12s", n) for n in _cut(G12S[:2] if q else G12S, scale)]
    std += [("dstu", n) for n in _cut(DSTU[:2] if q else DSTU, scale)]
    for fam, name in std:
        nch = 3 if q else 5
        for c in range(nch):
            J("unit_std", fam=fam, name=name, part="mul", chunk=c, nchunks=nch, nlens=2 if q else 4)
        for part in ("other", "pairs", "affine", "valid", "demo"):
            J("unit_std", fam=fam, name=name, part=part, nswu=10 if q else 60)
    return js


REQUIRED = (
    "pair:O,O", "pair:O,P", "pair:P,O", "pair:P=Q", "pair:P=-Q", "pair:P=Q=-Q(order2)", "pair:order2-operand", "pair:generic",
    "unary:O", "unary:order2", "unary:order3", "unary:order4", "unary:generic",
    "alias:none", "alias:c=a", "alias:c=b", "alias:a=b", "alias:b=a",
    "mul:d=0", "mul:d=1", "mul:d=order", "mul:d=order-1", "mul:d=order+1", "mul:d=2*order", "mul:d>order", "mul:d<order",
    "mul:std/d=order", "mul:std/d=order+1", "mul:std/d>order", "mul:big-order/d=order",
    "naf-w4", "naf-w5", "naf-w6", "addmul-k2", "addmul-k3", "addmul:k2-grid/sum=O", "addmul:std/k2/sum=O",
    "hasorder:q=order", "hasorder:order-does-not-divide-q", "hasorder:std/q=order",
    "ison:on-curve", "ison:off-curve", "ison:coordinate-out-of-field", "swu:s=0", "swu:s=1", "swu:s=p-1", "swu:generic",
    "valid:valid", "valid:singular", "group:true-order", "group:hasse-inside", "group:hasse-outside", "safegroup:safe", "safegroup:mov",
)


def json_key(j):
    return j["unit"] + repr(sorted(j["params"].items(), key=lambda kv: kv[0]))


def main(run):
    q = run.tier == "quick"
    js = [dict(j, cfg="asan64") for j in jobs(run.tier)]
    # the 32-bit-word configuration: reduced in the quick tier, complete in the thorough tier
    js32 = jobs(run.tier, 0.34 if q else 1.0)
    if q:
        keep = []
        for j in js32:
            p = j["params"]
            if j["unit"] == "c06:unit_sp_pairs" and p.get("chunk", 0) > 0:
                continue
            if j["unit"] == "c06:unit_std" and p["part"] == "mul" and p["chunk"] > 0:
                continue
            keep.append(j)
        js32 = keep
        # two-word plain moduli exist in this configuration only at 33..64 bits: keep that curve in the reduced set
        have = {json_key(j) for j in js32}
        js32 += [j for j in jobs(run.tier) if j["unit"] == "c06:unit_ss" and j["params"]["bits"] == 64
                 and json_key(j) not in have]
    js += [dict(j, cfg="asan32") for j in js32]
    # long jobs first
    weight = {"c06:unit_std": 3, "c06:unit_b2": 2, "c06:unit_ss": 2, "c06:unit_sp_pairs": 1}
    js.sort(key=lambda j: -weight.get(j["unit"], 0))
    run.run_jobs(js, max_restarts=12)
    return run.finish(
        rule="cases = (curve, P, Q, random projective representatives) for the pair/unary batteries (each case executes "
             "every function-table operation in every documented aliasing pattern), (curve, point, scalar, length) for "
             "ecMulA/ecAddMulA/ecHasOrderA, (curve, x, y) for the on-curve tests, (curve, s) for SWU, (curve, group "
             "description) for the validators; distinct = distinct descriptions; a case is non-trivial by construction "
             "(complete point sets of small curves / small subgroups of multi-word curves, boundary scalars)",
        assumptions=[
            "O is any (X : Y : 0) with X, Y in the field (ec.h: Z == 0, ecSetO/ecIsO touch only Z)",
            "every projective result goes through toa; an O result whose X, Y are not field elements is reported instead "
            "(it cannot be passed to any function of the interface)",
            "all stacks are exactly _deep() octets and pattern-filled, all buffers exactly sized and consecutively "
            "allocated; the demo jobs are regression cases for the defects fixed in /repo (classes demo:*, nega:*, "
            "ison:degree-m-coordinate-below-mod)",
            "ecHasOrderA: for composite q a point of order q1 | q may be accepted (header), no verdict there",
            "SWU model = STB 34.101.66 6.2.3 as restated in ecp.c, anchored on the bakeSWU vector of bake_test.c; "
            "for non-residue B the outputs for s in {0, 1, p-1} are only compared with the model",
            "binary curves: coefficients in a subfield GF(2^k), group order by Weil recursion (model-verified on random points)",
        ],
        min_eval=5000, required_classes=REQUIRED)
