"""Table of err_t-returning high-level functions that allocate (blobCreate) and take NO secret, used by the
allocation-failure half of C09 only (C15 has nothing to look for in them).

Same structure as secretcalls.py: a builder returns a Call on exact-size heap buffers; there is no secret, so both
variants carry the same argument list (C09 runs variant 0), `needles` stays empty.  Every builder prepares a call that
is fully valid (returns ERR_OK without fault injection), so that each allocation the function makes is reached."""
import random
from ..core import Harness
from . import secretcalls as sc
from .secretcalls import Call, rb, rng_state, bign_params, OID_DER_BELT_HASH, ERR_OK

_BRNG = "brngCTRStepR"
STB99_PARAMS_SIZE = 976


def _call(name, fn, args, outs=(), pub=()):
    c = Call(name, fn)
    for v in c.v:
        v.args, v.outs, v.pub = list(args), list(outs), list(pub)
    return c


def _ok(code, what):
    if code != ERR_OK:
        raise Harness("%s failed while preparing a public call (%d)" % (what, code))


# ---- hashing ---------------------------------------------------------------------------------------------------------

def _belt_hash(lib, rng, size):
    msg = rb(rng, size)
    h = lib.alloc(32)
    return _call("beltHash", lib.beltHash, [h, lib.mk(msg), size], [(h, 32)], [msg])


def _bash_hash(lib, rng, size):
    l = rng.choice([128, 192, 256])
    msg = rb(rng, size)
    h = lib.alloc(l // 4)
    return _call("bashHash", lib.bashHash, [h, l, lib.mk(msg), size], [(h, l // 4)], [msg])


# ---- bign / bign96 ---------------------------------------------------------------------------------------------------

def _l_of(b96, rng):
    return 96 if b96 else rng.choice([128, 192, 256])


def _params_val(b96):
    name = "bign96ParamsVal" if b96 else "bignParamsVal"

    def build(lib, rng, size):
        params, _ = sc._params_any(lib, _l_of(b96, rng))
        return _call(name, getattr(lib, name), [params])
    return build


def _pubkey_val(b96):
    name = "bign96PubkeyVal" if b96 else "bignPubkeyVal"

    def build(lib, rng, size):
        l = _l_of(b96, rng)
        params, q = sc._params_any(lib, l)
        pub = sc._pubkey_of(lib, l, sc._priv_any(rng, q, l))
        return _call(name, getattr(lib, name), [params, lib.mk(pub)], pub=[pub])
    return build


def _verify(b96):
    name = "bign96Verify" if b96 else "bignVerify"

    def build(lib, rng, size):
        l = _l_of(b96, rng)
        no = 24 if b96 else l // 4
        siglen = 34 if b96 else no + no // 2
        params, q = sc._params_any(lib, l)
        d = sc._priv_any(rng, q, l)
        pub = sc._pubkey_of(lib, l, d)
        h = rb(rng, no)
        sigp = lib.alloc(siglen)
        sign = lib.bign96Sign2 if b96 else lib.bignSign2
        _ok(sign(sigp, params, lib.mk(OID_DER_BELT_HASH), len(OID_DER_BELT_HASH), lib.mk(h), lib.mk(d), 0, 0), "Sign2")
        sig = lib.rd(sigp, siglen)
        return _call(name, getattr(lib, name),
                     [params, lib.mk(OID_DER_BELT_HASH), len(OID_DER_BELT_HASH), lib.mk(h), lib.mk(sig), lib.mk(pub)], pub=[h, sig, pub])
    return build


def _id_verify(lib, rng, size):
    l = rng.choice([128, 192, 256])
    no = l // 4
    params, q = bign_params(lib, l)
    d0, H0, H = sc.rand_priv(rng, q, l), rb(rng, no), rb(rng, no)
    Q0 = sc._pubkey_of(lib, l, d0)
    sig0 = sc._ibs_issue(lib, rng, l, d0, H0)
    oid = lambda: lib.mk(OID_DER_BELT_HASH)
    idpriv, idpub = lib.alloc(no), lib.alloc(2 * no)
    _ok(lib.bignIdExtract(idpriv, idpub, params, oid(), len(OID_DER_BELT_HASH), lib.mk(H0), lib.mk(sig0), lib.mk(Q0)), "bignIdExtract")
    idsig = lib.alloc(no + no // 2)
    _ok(lib.bignIdSign2(idsig, params, oid(), len(OID_DER_BELT_HASH), lib.mk(H0), lib.mk(H), idpriv, 0, 0), "bignIdSign2")
    R, S = lib.rd(idpub, 2 * no), lib.rd(idsig, no + no // 2)
    return _call("bignIdVerify", lib.bignIdVerify,
                 [params, oid(), len(OID_DER_BELT_HASH), lib.mk(H0), lib.mk(H), lib.mk(S), lib.mk(R), lib.mk(Q0)], pub=[H0, H, S, R, Q0])


# ---- bels: public keys -----------------------------------------------------------------------------------------------

def _std_m(lib, ln, num):
    m = lib.alloc(ln)
    _ok(lib.belsStdM(m, ln, num), "belsStdM")
    return lib.rd(m, ln)


def _bels_valm(lib, rng, size):
    ln = rng.choice([16, 24, 32])
    m = _std_m(lib, ln, rng.randrange(0, 17))
    return _call("belsValM", lib.belsValM, [lib.mk(m), ln], pub=[m])


def _bels_genm0(lib, rng, size):
    ln = rng.choice([16, 24, 32])
    m0 = lib.alloc(ln)
    return _call("belsGenM0", lib.belsGenM0, [m0, ln, lib.addr(_BRNG), rng_state(lib, rng)], [(m0, ln)])


def _bels_genmi(lib, rng, size):
    ln = rng.choice([16, 24, 32])
    m0 = _std_m(lib, ln, 0)
    mi = lib.alloc(ln)
    return _call("belsGenMi", lib.belsGenMi, [mi, ln, lib.mk(m0), lib.addr(_BRNG), rng_state(lib, rng)], [(mi, ln)], [m0])


def _bels_genmid(lib, rng, size):
    ln = rng.choice([16, 24, 32])
    m0 = _std_m(lib, ln, 0)
    ident = rb(rng, max(1, size))
    mid = lib.alloc(ln)
    return _call("belsGenMid", lib.belsGenMid, [mid, ln, lib.mk(m0), lib.mk(ident), len(ident)], [(mid, ln)], [m0, ident])


# ---- btok: CV certificates -------------------------------------------------------------------------------------------

def _chain(lib, rng):
    """(certa, cert, content of certa as the library decodes it, public key of the issuer)"""
    from . import c17
    klen, hk = rng.choice([24, 32, 48, 64]), rng.choice([24, 32, 48, 64])
    auth, holder = sc._cvc_names(rng)
    da, qa = sc._cvc_key(lib, rng, klen)
    _, hpub = sc._cvc_key(lib, rng, hk)
    certa = sc._cvc_self(lib, da, auth, (c17.ymd(22, 7, 7), c17.ymd(29, 7, 7)))
    content = {"authority": auth, "holder": holder, "pubkey": hpub, "from": c17.ymd(23, 1, 1), "until": c17.ymd(27, 12, 31),
               "hat_eid": rb(rng, 5), "hat_esign": rb(rng, 2)}
    code, cert, _ = c17.issue(lib, content, certa, da)
    _ok(code, "btokCVCIss")
    cvca = lib.alloc(c17.CVC_SIZE)
    _ok(lib.btokCVCUnwrap(cvca, lib.mk(certa), len(certa), 0, 0), "btokCVCUnwrap")
    return certa, cert, lib.rd(cvca, c17.CVC_SIZE), qa


def _date(lib, rng):
    from . import c17
    return rng.choice([None, c17.ymd(24, 2, 29), c17.ymd(23, 1, 1), c17.ymd(27, 12, 31)])


def _cvc_val(lib, rng, size):
    certa, cert, _, _ = _chain(lib, rng)
    date = _date(lib, rng)
    return _call("btokCVCVal", lib.btokCVCVal, [lib.mk(cert), len(cert), lib.mk(certa), len(certa), lib.mk(date) if date else 0],
                 pub=[cert, certa])


def _cvc_val2(lib, rng, size):
    certa, cert, cvca, _ = _chain(lib, rng)
    date = _date(lib, rng)
    # cvc == 0: the content of the certificate is decoded into a blob of the function
    return _call("btokCVCVal2", lib.btokCVCVal2, [0, lib.mk(cert), len(cert), lib.mk(cvca), lib.mk(date) if date else 0], pub=[cert, cvca])


def _cvc_unwrap(lib, rng, size):
    from . import c17
    certa, cert, _, qa = _chain(lib, rng)
    out = lib.alloc(c17.CVC_SIZE)
    return _call("btokCVCUnwrap", lib.btokCVCUnwrap, [out, lib.mk(cert), len(cert), lib.mk(qa), len(qa)], [(out, c17.CVC_SIZE)], [cert, qa])


def _cvc_check(lib, rng, size):
    _, _, cvca, _ = _chain(lib, rng)
    return _call("btokCVCCheck", lib.btokCVCCheck, [lib.mk(cvca)], pub=[cvca])


# ---- g12s, dstu ----------------------------------------------------------------------------------------------------------

def _g12s_params_val(lib, rng, size):
    P = sc._g12s(lib, rng.choice(sc.G12S_NAMES))
    return _call("g12sParamsVal", lib.g12sParamsVal, [lib.mk(P.raw)])


def _g12s_verify(lib, rng, size):
    P = sc._g12s(lib, rng.choice(sc.G12S_NAMES))
    priv, pub = lib.alloc(P.mo), lib.alloc(2 * P.no)
    _ok(lib.g12sKeypairGen(priv, pub, lib.mk(P.raw), lib.addr(_BRNG), rng_state(lib, rng)), "g12sKeypairGen")
    h = rb(rng, P.mo)
    sig = lib.alloc(2 * P.mo)
    _ok(lib.g12sSign(sig, lib.mk(P.raw), lib.mk(h), priv, lib.addr(_BRNG), rng_state(lib, rng)), "g12sSign")
    S, Q = lib.rd(sig, 2 * P.mo), lib.rd(pub, 2 * P.no)
    return _call("g12sVerify", lib.g12sVerify, [lib.mk(P.raw), lib.mk(h), lib.mk(S), lib.mk(Q)], pub=[h, S, Q])


def _dstu_params_val(lib, rng, size):
    P = sc.dstu_params(lib, rng.choice(sc.DSTU_NAMES))
    return _call("dstuParamsVal", lib.dstuParamsVal, [lib.mk(P.raw)])


def _dstu_keys(lib, rng, P):
    priv, pub = lib.alloc(P.order_no), lib.alloc(2 * P.no)
    _ok(lib.dstuKeypairGen(priv, pub, lib.mk(P.raw), lib.addr(_BRNG), rng_state(lib, rng)), "dstuKeypairGen")
    return priv, lib.rd(pub, 2 * P.no)


def _dstu_verify(lib, rng, size):
    P = sc.dstu_params(lib, rng.choice(sc.DSTU_NAMES))
    priv, Q = _dstu_keys(lib, rng, P)
    h = rb(rng, rng.choice([20, 32, 64]))
    ld = 16 * P.order_no
    sig = lib.alloc(ld // 8)
    _ok(lib.dstuSign(sig, lib.mk(P.raw), ld, lib.mk(h), len(h), priv, lib.addr(_BRNG), rng_state(lib, rng)), "dstuSign")
    S = lib.rd(sig, ld // 8)
    return _call("dstuVerify", lib.dstuVerify, [lib.mk(P.raw), ld, lib.mk(h), len(h), lib.mk(S), lib.mk(Q)], pub=[h, S, Q])


def _dstu_point(op):
    def build(lib, rng, size):
        P = sc.dstu_params(lib, rng.choice(sc.DSTU_NAMES))
        _, Q = _dstu_keys(lib, rng, P)        # a point of order n
        if op == "dstuPointGen":
            pt = lib.alloc(2 * P.no)
            return _call(op, lib.dstuPointGen, [pt, lib.mk(P.raw), lib.addr(_BRNG), rng_state(lib, rng)], [(pt, 2 * P.no)])
        if op == "dstuPointVal":
            return _call(op, lib.dstuPointVal, [lib.mk(P.raw), lib.mk(Q)], pub=[Q])
        xp = lib.alloc(P.no)
        if op == "dstuPointCompress":
            return _call(op, lib.dstuPointCompress, [xp, lib.mk(P.raw), lib.mk(Q)], [(xp, P.no)], [Q])
        _ok(lib.dstuPointCompress(xp, lib.mk(P.raw), lib.mk(Q)), "dstuPointCompress")
        X = lib.rd(xp, P.no)
        pt = lib.alloc(2 * P.no)
        return _call(op, lib.dstuPointRecover, [pt, lib.mk(P.raw), lib.mk(X)], [(pt, 2 * P.no)], [X])
    return build


# ---- pfok, stb99 (test parameters, l = 638) ------------------------------------------------------------------------------

def _pfok_params_val(lib, rng, size):
    P = sc._pfok(lib)
    return _call("pfokParamsVal", lib.pfokParamsVal, [lib.mk(P.raw)])


def _stb99_params_val(lib, rng, size):
    raw = sc._CACHE.get((id(lib), "stb99"))
    if raw is None:
        p = lib.alloc(STB99_PARAMS_SIZE, 0)
        _ok(lib.stb99ParamsStd(p, 0, lib.cstr("test")), "stb99ParamsStd")
        raw = sc._CACHE[(id(lib), "stb99")] = lib.rd(p, STB99_PARAMS_SIZE)
    return _call("stb99ParamsVal", lib.stb99ParamsVal, [lib.mk(raw)])


# ---- bpki ----------------------------------------------------------------------------------------------------------------

def _csr_unwrap(lib, rng, size):
    from .c09_contracts import CSR_HEX       # the request of bpki_test.c
    csr = bytes.fromhex(CSR_HEX)
    if rng.random() < 0.5:                    # or a request re-issued on a fresh key
        _, q = bign_params(lib, 128)
        p = lib.mk(csr)
        _ok(lib.bpkiCSRRewrap(p, len(csr), lib.mk(sc.rand_priv(rng, q, 128)), 32), "bpkiCSRRewrap")
        csr = lib.rd(p, len(csr))
    pub, ln = lib.alloc(64), lib.alloc(8, 0)
    return _call("bpkiCSRUnwrap", lib.bpkiCSRUnwrap, [pub, ln, lib.mk(csr), len(csr)], [(pub, 64), (ln, 8)], [csr])


BUILDERS = {
    "beltHash": _belt_hash, "bashHash": _bash_hash,
    "belsValM": _bels_valm, "belsGenM0": _bels_genm0, "belsGenMi": _bels_genmi, "belsGenMid": _bels_genmid,
}
_HEAVY_BUILDERS = {
    "bignParamsVal": _params_val(False), "bignPubkeyVal": _pubkey_val(False), "bignVerify": _verify(False), "bignIdVerify": _id_verify,
    "bign96ParamsVal": _params_val(True), "bign96PubkeyVal": _pubkey_val(True), "bign96Verify": _verify(True),
    "btokCVCVal": _cvc_val, "btokCVCVal2": _cvc_val2, "btokCVCUnwrap": _cvc_unwrap, "btokCVCCheck": _cvc_check,
    "g12sParamsVal": _g12s_params_val, "g12sVerify": _g12s_verify,
    "dstuParamsVal": _dstu_params_val, "dstuVerify": _dstu_verify,
    "dstuPointGen": _dstu_point("dstuPointGen"), "dstuPointVal": _dstu_point("dstuPointVal"),
    "dstuPointCompress": _dstu_point("dstuPointCompress"), "dstuPointRecover": _dstu_point("dstuPointRecover"),
    "pfokParamsVal": _pfok_params_val, "stb99ParamsVal": _stb99_params_val,
    "bpkiCSRUnwrap": _csr_unwrap,
}
BUILDERS.update(_HEAVY_BUILDERS)
HEAVY = set(_HEAVY_BUILDERS)
