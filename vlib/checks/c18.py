"""C18 — shared RNG, once-initialisation and atomics under concurrency.

Oracle 1: ThreadSanitizer reports (tsan build, -DNDEBUG) with a bee2 frame, deduplicated by the innermost
bee2 functions of both stacks.  Oracle 2: value monitors inside drv/mt_harness.c (initialiser ran exactly once and
its effects were visible to every returning caller; atomic return values form a permutation; shadow reference count
vs rngIsValid at quiescent points; no short read; no duplicate 32-octet generator block across threads).
Schedule diversity: thread counts, seeded yields at the hook points (BEE2_VERIF_YIELD), CPU affinity masks,
many fresh processes for the process-wide first rngCreate.
"""
import json, os, re, subprocess, tempfile, shutil
from .. import build
from ..core import Harness

LEVEL = "exploration"

SUPP = "called_from_lib:libcrypto.so.3\n"


def _parse_tsan(text):
    """yield (key, summary, block) for every report block"""
    for blk in re.split(r"^==================\n", text, flags=re.M):
        m = re.search(r"WARNING: ThreadSanitizer: ([^\(\n]+)", blk)
        if not m:
            continue
        kind = m.group(1).strip().replace(" ", "-")
        # stacks: sequences of "#n func file:line"
        stacks, cur = [], None
        for line in blk.splitlines():
            fm = re.match(r"\s+#(\d+) (\S+) (\S+?):(\d+)", line)
            if fm:
                if fm.group(1) == "0":
                    cur = []
                    stacks.append(cur)
                if cur is not None:
                    cur.append((fm.group(2), fm.group(3)))
            elif not line.strip():
                cur = None
        # only the access stacks (first two) decide; bee2 frame = path under /src/
        acc = stacks[:2]
        inner = []
        has_bee2 = False
        for st in acc:
            b = [fn for fn, path in st if "/src/" in path and "libsanitizer" not in path]
            if b:
                has_bee2 = True
                inner.append(b[0])
            else:
                inner.append(st[0][0] if st else "?")
        if kind != "data-race":
            # mutex misuse, lock-order inversion... count when any stack has a bee2 frame
            has_bee2 = any("/src/" in path for st in stacks for fn, path in st)
        if not has_bee2:
            yield ("harness-only:" + kind + ":" + "+".join(sorted(inner)), kind, blk, False)
            continue
        yield ("tsan:%s:%s" % (kind, "+".join(sorted(set(inner)))), kind, blk, True)


STALL_S = 120       # no completed operation for this long = stuck (the heartbeat thread of the harness keeps reporting)
TOTAL_S = 3000      # generous wall-clock watchdog: its firing while the count still moves is inconclusive, not a verdict


def _run(exe, args, tsan, stall=STALL_S, total=TOTAL_S):
    """returns (rc, stdout, stderr, tsan logs); rc = None: stalled (no progress for `stall` s), rc = "slow": total exceeded"""
    import threading, time
    d = tempfile.mkdtemp(prefix="c18_", dir=os.path.join(build.VERIF, "out"))
    env = dict(os.environ)
    if tsan:
        sp = os.path.join(d, "supp")
        open(sp, "w").write(SUPP)
        env["TSAN_OPTIONS"] = "halt_on_error=0 log_path=%s/ts exitcode=0 second_deadlock_stack=1 suppressions=%s history_size=4" % (d, sp)
    try:
        p = subprocess.Popen([exe] + [str(a) for a in args], stdout=subprocess.PIPE, stderr=subprocess.PIPE, text=True, env=env)
        st = {"prog": None, "moved": time.time(), "beats": 0, "err": []}

        def rd_err():
            for line in p.stderr:
                if line.startswith("P "):
                    st["beats"] += 1
                    if line != st["prog"]:
                        st["prog"], st["moved"] = line, time.time()
                else:
                    st["err"].append(line)
        outl = []
        te = threading.Thread(target=rd_err, daemon=True)
        to = threading.Thread(target=lambda: outl.append(p.stdout.read()), daemon=True)
        te.start(), to.start()
        t0 = time.time()
        verdict = "done"
        while p.poll() is None:
            time.sleep(0.05 if time.time() - t0 < 5 else 0.5)
            now = time.time()
            if now - st["moved"] > stall and st["beats"] > 0:
                verdict = None
                break
            if now - t0 > total:
                verdict = "slow"
                break
        if verdict != "done":
            p.kill()
        p.wait()
        te.join(5), to.join(5)
        if verdict != "done":
            return verdict, "", "no progress for %d s at %s" % (stall, st["prog"]) if verdict is None else "still progressing after %d s" % total, ""
        logs = ""
        for f in sorted(os.listdir(d)):
            if f.startswith("ts."):
                logs += open(os.path.join(d, f), errors="replace").read()
        return p.returncode, "".join(outl), "".join(st["err"]), logs
    finally:
        shutil.rmtree(d, ignore_errors=True)


def unit_mt(ctx):
    cfg = ctx.cfg
    tsan = cfg.startswith("tsan")
    exe = build.build_harness(cfg, "mt_harness", ["mt_harness.c"])
    rng = ctx.rng
    P = ctx.params
    sigs = set()
    seen_keys = set()
    tsan_reports = 0
    harness_only = 0
    totals = {"once_callers": 0, "atomic_ops": 0, "rng_ops": 0, "rng_blocks": 0, "quiescent_checks": 0, "processes": 0}
    for i in range(P["runs"]):
        mode = P["mode"]
        t = rng.choice(P.get("threads", [2, 3, 4, 8, 16]))
        y = rng.choice([0, 1, 1, 2])
        cpus = rng.choice([0, 0, 1, 2])
        s = rng.getrandbits(31) + 1
        args = [mode, "-t", t, "-s", s, "-y", y]
        if mode in ("once", "onexit"):
            args += ["-n", P.get("n", 64)]
        elif mode == "atomic":
            args += ["-n", P.get("n", 5000)]
        else:
            args += ["-n", P.get("n", 25), "-r", P.get("rounds", 4), "-f", 1]
        if cpus:
            args += ["-c", cpus]
        if not ctx.case([cfg] + args, "%s/t%d/y%d/c%d" % (mode, t, y, cpus)):
            continue
        rc, out, err, logs = _run(exe, args, tsan)
        totals["processes"] += 1
        if rc is None:
            rc2, out, err2, logs = _run(exe, args, tsan)
            if rc2 is None:
                # twice no operation completed for STALL_S seconds while the heartbeat thread kept running: reported, and the
                # remaining runs of this job are abandoned (each could block for the same time)
                ctx.violation("hang:%s" % mode, "no thread completed an operation for %d s, twice with the same arguments "
                              "(deadlock / livelock)" % STALL_S, {"args": args, "first": err, "second": err2})
                ctx.note("abandoned_after_hang", {"mode": mode, "run": i, "of": P["runs"]})
                break
            rc, err = rc2, err2
        if rc == "slow":
            raise Harness("mt_harness still progressing after %d s (machine overloaded?): %s" % (TOTAL_S, args))
        if rc != 0:
            if rc < 0 or "Assertion in" in err:
                ctx.violation("crash:%s:%s" % (mode, ("assert" if "Assertion" in err else "signal%d" % -rc)),
                              "harness crashed inside the library", {"args": args, "stderr": err[-2000:]})
                continue
            raise Harness("mt_harness rc=%s: %s" % (rc, err[-500:]))
        try:
            res = json.loads(out.strip().splitlines()[-1])
        except Exception:
            raise Harness("unparsable harness output: %r %r" % (out[-300:], err[-300:]))
        ctx.digest(0)
        if "sig" in res:
            sigs.add(res["sig"])
        # value monitors
        if mode == "onexit":
            totals["onexit_registrations"] = totals.get("onexit_registrations", 0) + res["expected"]
            if res["ret_false"]:
                ctx.violation("utilOnExit:returned-false", "utilOnExit returned FALSE", res)
            if res["called"] != res["expected"]:
                ctx.violation("utilOnExit:handlers-not-called-exactly-once", "%d handlers registered concurrently, %d calls at exit" %
                              (res["expected"], res["called"]), res)
        elif mode == "once":
            totals["once_callers"] += res["callers"]
            if res["final_bad"] or res["bad_count_seen"]:
                ctx.violation("mtCallOnce:initialiser-not-exactly-once", "initialiser observed to run != 1 times", res)
            if res["bad_payload_seen"]:
                ctx.violation("mtCallOnce:effects-not-visible", "a returning caller did not see the initialiser's effects", res)
            if res["bad_ret"]:
                ctx.violation("mtCallOnce:returned-false", "mtCallOnce returned FALSE", res)
        elif mode == "atomic":
            totals["atomic_ops"] += res["ops"]
            if res["bad_incr"] or res["bad_decr"] or res["bad_cas"] or res["final"] != res["final_expected"]:
                ctx.violation("mtAtomic:lost-update", "atomic counter values are not a permutation / final value wrong", res)
        else:
            totals["rng_ops"] += res["ops"]
            totals["rng_blocks"] += res["blocks"]
            totals["quiescent_checks"] += res["quiescent_checks"]
            if res["dup_blocks"]:
                ctx.violation("rng:duplicate-output-block", "two requests received the same 32-octet generator block", res)
            if res["short_reads"]:
                ctx.violation("rng:short-read", "a request left the tail of its buffer unwritten", res)
            if res["bad_valid"]:
                ctx.violation("rng:refcount-vs-isvalid", "rngIsValid disagrees with the number of held references", res)
            if res["end_valid"] or res["shadow_end"]:
                ctx.violation("rng:refcount-unbalanced", "generator still valid after the last close", res)
            if res.get("blobs_live_end", 0) > 1:
                # hook BEE2_VERIF_BLOB_COUNT: after the last close only the exit-handler list (one blob) may remain
                ctx.violation("rng:state-blob-left-behind", "%d blobs exist after every reference was returned (expected: the exit-handler "
                              "list only)" % res["blobs_live_end"], res)
            if res["create_err"]:
                ctx.note("rngCreate_errors", res["create_err"])
        for key, kind, blk, counted in _parse_tsan(logs):
            if not counted:
                harness_only += 1
                if key not in seen_keys:
                    seen_keys.add(key)
                    ctx.note("harness_only_reports", [key])
                continue
            tsan_reports += 1
            if key not in seen_keys:
                seen_keys.add(key)
                ctx.violation(key, "ThreadSanitizer: %s involving bee2 code" % kind, {"args": args, "report": blk[:3500]})
    ctx.note("interleaving_signatures", sorted(sigs))
    ctx.note("tsan_reports_total", tsan_reports)
    for k, v in totals.items():
        ctx.note(k, v)


def jobs(tier, scale=1.0):
    q = tier == "quick"
    js = []
    def add(cfg, mode, runs, chunks, **kw):
        for c in range(chunks):
            js.append({"cfg": cfg, "nolib": True, "unit": "c18:unit_mt", "params": dict(mode=mode, runs=max(1, int(runs * scale)), chunk=c, **kw)})
    if q:
        add("tsan", "rng", 13, 16, n=20, rounds=3)           # ~200 fresh processes: first-rngCreate race each
        add("tsan", "once", 3, 8, n=48)
        add("tsan", "atomic", 1, 4, n=3000)
        add("tsan", "onexit", 2, 2, n=200)
        add("relyield", "onexit", 2, 2, n=3000)
        add("relyield", "rng", 6, 8, n=60, rounds=6)
        add("relyield", "once", 3, 4, n=1024)
        add("relyield", "atomic", 2, 4, n=100000)
    else:
        add("tsan", "rng", 150, 32, n=25, rounds=4)          # ~4800 processes
        add("tsan", "once", 20, 16, n=64)
        add("tsan", "atomic", 4, 8, n=5000)
        add("tsan", "onexit", 10, 4, n=400)
        add("relyield", "onexit", 10, 4, n=6000)
        add("relyield", "rng", 60, 16, n=80, rounds=8)
        add("relyield", "once", 20, 8, n=4096)
        add("relyield", "atomic", 6, 8, n=300000)
    return js


def main(run):
    js = jobs(run.tier)
    # many processes x threads: do not oversubscribe too heavily
    run.run_jobs(js, timeout=3000)
    sigs = run.extra.get("interleaving_signatures", [])
    run.coverage_extra["distinct_interleaving_signatures"] = len(sigs)
    run.extra["interleaving_signatures"] = sigs[:20]
    if not run.harness_errors and len(sigs) < 10:
        run.harness_fail("too few distinct interleavings observed (%d)" % len(sigs))
    return run.finish(
        rule="case = one fresh process of drv/mt_harness (mode, threads, yield mode, CPU mask, seed); distinct = distinct argument "
             "tuples; interleaving signature = hash of the global completion order of (thread, op) taken from one atomic ticket",
        assumptions=["TSan built with -DNDEBUG (debug-only plain read of the once flag pairs with failed CAS, not a C11 race)",
                     "schedules are sampled; TSan generalises over them only for accesses that occurred",
                     "reports whose access stacks contain no bee2 frame are harness-only and listed, not counted"],
        required_classes=())
