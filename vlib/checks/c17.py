"""C17 -- token layer: CV certificates (btokCVC*), secure messaging (btokSM*), key containers (bpki*).

Oracles: roundtrip (wrap -> unwrap gives the same content), tamper => reject, a small chain-validity model
(vlib/ref/cvc.py, from the header text; signature validity decided by bignVerify / bign96Verify on the signed
body), counter parity for SM.

A case is one scenario (a certificate, a chain with all its single-octet alterations, an SM dialogue, a
container with all its alterations); the alterations inside a scenario are accounted for with ctx.count and are a
deterministic function of the scenario descriptor, so a replay of the case repeats all of them.
"""
import ctypes, random

from ..core import Harness
from ..bee2 import errcode, errname
from ..ref import cvc as M

LEVEL = "exploration"
SIZE_MAX = 2 ** 64 - 1
c_ubyte, c_size_t = ctypes.c_ubyte, ctypes.c_size_t


class CVC(ctypes.Structure):            # btok_cvc_t
    _fields_ = [("authority", c_ubyte * 13), ("holder", c_ubyte * 13), ("pubkey", c_ubyte * 128),
                ("pubkey_len", c_size_t), ("from_", c_ubyte * 6), ("until", c_ubyte * 6), ("hat_eid", c_ubyte * 5),
                ("hat_esign", c_ubyte * 2), ("sig", c_ubyte * 96), ("sig_len", c_size_t)]


class ApduCmd(ctypes.Structure):        # apdu_cmd_t without the open array
    _fields_ = [("cla", c_ubyte), ("ins", c_ubyte), ("p1", c_ubyte), ("p2", c_ubyte), ("rdf_len", c_size_t),
                ("cdf_len", c_size_t)]


class ApduResp(ctypes.Structure):       # apdu_resp_t without the open array
    _fields_ = [("sw1", c_ubyte), ("sw2", c_ubyte), ("rdf_len", c_size_t)]


CVC_SIZE = ctypes.sizeof(CVC)
CMD_HDR, RESP_HDR = ctypes.sizeof(ApduCmd), ctypes.sizeof(ApduResp)
PUBKEY_OFF = CVC.pubkey.offset

KEYLENS = (24, 32, 48, 64)
OID = {24: "1.2.112.0.2.0.34.101.45.3.0", 32: "1.2.112.0.2.0.34.101.45.3.1", 48: "1.2.112.0.2.0.34.101.45.3.2",
       64: "1.2.112.0.2.0.34.101.45.3.3"}
HASH_OID = {24: "1.2.112.0.2.0.34.101.31.81", 32: "1.2.112.0.2.0.34.101.31.81", 48: "1.2.112.0.2.0.34.101.77.12",
            64: "1.2.112.0.2.0.34.101.77.13"}
SIGLEN = {24: 34, 32: 48, 48: 72, 64: 96}
NAMECHARS = b"0123456789ABCDEFGHIJKLMNOPQRSTUVWXYZabcdefghijklmnopqrstuvwxyz '()+,-./:=?"


def tag(ctx, *labels):
    for x in labels:
        ctx.classes[x] += 1


# ---------------------------------------------------------------------------
# keys and signatures (library primitives used as given: C02/C16 check them)
# ---------------------------------------------------------------------------

class Env:
    def __init__(self, lib):
        self.lib = lib
        self._params, self._keys = {}, {}
        if CVC_SIZE != 296 or CMD_HDR != 24 or RESP_HDR != 16 or PUBKEY_OFF != 26:
            raise Harness("struct layout")
        if not M.selftest():
            raise Harness("cvc model self-test")

    def params(self, klen):
        v = self._params.get(klen)
        if v is None:
            lib = self.lib
            p = lib.alloc(336)
            f = lib.bign96ParamsStd if klen == 24 else lib.bignParamsStd
            if f(p, lib.cstr(OID[klen])) != 0:
                raise Harness("ParamsStd")
            raw = lib.rd(p, 336)
            q = int.from_bytes(raw[8 + 192:8 + 192 + klen], "little")
            v = self._params[klen] = (raw, q)
        return v

    def keypair(self, klen, name):
        k = (klen, name)
        v = self._keys.get(k)
        if v is None:
            lib = self.lib
            raw, q = self.params(klen)
            d = random.Random("c17key/%d/%s" % k).randrange(1, q).to_bytes(klen, "little")
            pq = lib.alloc(2 * klen)
            f = lib.bign96PubkeyCalc if klen == 24 else lib.bignPubkeyCalc
            if f(pq, lib.mk(raw), lib.mk(d)) != 0:
                raise Harness("PubkeyCalc")
            v = self._keys[k] = (d, lib.rd(pq, 2 * klen))
        return v

    def sig_ok(self, body, sig, pubkey):
        """independent decision: hash the body, bignVerify / bign96Verify (not through btokCVC code)"""
        lib = self.lib
        klen = len(pubkey) // 2
        if klen not in KEYLENS or len(sig) != SIGLEN[klen]:
            return False
        raw, _ = self.params(klen)
        h = lib.alloc(klen)
        src = lib.mk(body)
        if klen <= 32:
            hh = lib.alloc(32)
            if lib.beltHash(hh, src, len(body)) != 0:
                raise Harness("beltHash")
            lib.wr(h, lib.rd(hh, klen))
        elif lib.bashHash(h, klen * 4, src, len(body)) != 0:
            raise Harness("bashHash")
        der, dl = lib.alloc(16), lib.mk_size(16)
        if lib.bignOidToDER(der, dl, lib.cstr(HASH_OID[klen])) != 0:
            raise Harness("bignOidToDER")
        oid = lib.mk(lib.rd(der, lib.rd_size(dl)))
        f = lib.bign96Verify if klen == 24 else lib.bignVerify
        return f(lib.mk(raw), oid, lib.rd_size(dl), h, lib.mk(sig), lib.mk(pubkey)) == 0

    def pubkey_ok(self, pubkey):
        lib = self.lib
        klen = len(pubkey) // 2
        if len(pubkey) % 2 or klen not in KEYLENS:
            return False
        raw, _ = self.params(klen)
        f = lib.bign96PubkeyVal if klen == 24 else lib.bignPubkeyVal
        return f(lib.mk(raw), lib.mk(pubkey)) == 0


# ---------------------------------------------------------------------------
# CV certificates
# ---------------------------------------------------------------------------

def fld(name, size=13):
    return (c_ubyte * size)(*(bytes(name) + bytes(size))[:size])


def mk_cvc(lib, c):
    s = CVC(fld(c["authority"]), fld(c["holder"]), fld(c.get("pubkey", b""), 128), c.get("pubkey_len", len(c.get("pubkey", b""))),
            fld(c["from"], 6), fld(c["until"], 6), fld(c.get("hat_eid", b""), 5), fld(c.get("hat_esign", b""), 2),
            fld(b"", 96), 0)
    return lib.mk(bytes(s))


def rd_cvc(lib, p):
    s = CVC.from_buffer_copy(lib.rd(p, CVC_SIZE))
    pl, sl = min(s.pubkey_len, 128), min(s.sig_len, 96)
    return {"authority": M.cstr(s.authority), "holder": M.cstr(s.holder), "pubkey": bytes(s.pubkey)[:pl],
            "pubkey_len": s.pubkey_len, "from": bytes(s.from_), "until": bytes(s.until), "hat_eid": bytes(s.hat_eid),
            "hat_esign": bytes(s.hat_esign), "sig": bytes(s.sig)[:sl], "sig_len": s.sig_len,
            "_tail": bytes(s.pubkey)[pl:] + bytes(s.sig)[sl:]}


def same_content(a, b, with_sig=True):
    ks = ["authority", "holder", "pubkey", "from", "until", "hat_eid", "hat_esign"] + (["sig"] if with_sig else [])
    return all(bytes(a.get(k, b"")) == bytes(b.get(k, b"")) for k in ks)


def wrap(lib, c, priv, exact=True):
    """probe the length with a null output, then wrap into an exact buffer; returns (code, cert, cvc after)"""
    pc = mk_cvc(lib, c)
    pl = lib.alloc(8)
    pk = lib.mk(priv)
    code = lib.btokCVCWrap(0, pl, pc, pk, len(priv))
    if code != 0:
        return code, None, None
    n = lib.rd_size(pl)
    cert = lib.alloc(n)
    pl2 = lib.alloc(8)
    code = lib.btokCVCWrap(cert, pl2, pc, pk, len(priv))
    if code != 0:
        return code, None, None
    if lib.rd_size(pl2) != n:
        return -1, None, None
    return 0, lib.rd(cert, n), rd_cvc(lib, pc)


def issue(lib, c, certa, priva):
    pc = mk_cvc(lib, c)
    pl = lib.alloc(8)
    pa, pk = lib.mk(certa), lib.mk(priva)
    code = lib.btokCVCIss(0, pl, pc, pa, len(certa), pk, len(priva))
    if code != 0:
        return code, None, None
    n = lib.rd_size(pl)
    cert = lib.alloc(n)
    pl2 = lib.alloc(8)
    code = lib.btokCVCIss(cert, pl2, pc, pa, len(certa), pk, len(priva))
    if code != 0:
        return code, None, None
    if lib.rd_size(pl2) != n:
        return -1, None, None
    return 0, lib.rd(cert, n), rd_cvc(lib, pc)


def unwrap(lib, cert, pubkey=None, self_signed=False):
    out = lib.alloc(CVC_SIZE)
    pc = lib.mk(cert)
    if self_signed:
        code = lib.btokCVCUnwrap(out, pc, len(cert), out + PUBKEY_OFF, 0)
    elif pubkey is None:
        code = lib.btokCVCUnwrap(out, pc, len(cert), 0, 0)
    else:
        code = lib.btokCVCUnwrap(out, pc, len(cert), lib.mk(pubkey), len(pubkey))
    return code, (rd_cvc(lib, out) if code == 0 else None)


def val(lib, cert, certa, date):
    return lib.btokCVCVal(lib.mk(cert), len(cert), lib.mk(certa), len(certa), lib.mk(date) if date is not None else 0)


def val2(lib, cert, cvca, date, want=True):
    out = lib.alloc(CVC_SIZE) if want else 0
    c = dict(cvca)
    pa = mk_cvc(lib, c)
    code = lib.btokCVCVal2(out, lib.mk(cert), len(cert), pa, lib.mk(date) if date is not None else 0)
    return code, (rd_cvc(lib, out) if code == 0 and want else None)


def rname(r, n):
    return bytes(r.choice(NAMECHARS) for _ in range(n))


def ymd(y, m, d):
    return bytes([y // 10, y % 10, m // 10, m % 10, d // 10, d % 10])


GOOD_DATES = [(ymd(22, 7, 7), ymd(99, 7, 7)), (ymd(0, 1, 1), ymd(0, 1, 1)), (ymd(24, 2, 29), ymd(24, 2, 29)),
              (ymd(0, 2, 29), ymd(99, 12, 31)), (ymd(23, 12, 31), ymd(24, 1, 1)), (ymd(30, 4, 30), ymd(30, 5, 31))]
BAD_DATES = {  # label -> (from, until)
    "from>until": (ymd(22, 7, 8), ymd(22, 7, 7)), "month13": (ymd(22, 13, 1), ymd(23, 1, 1)),
    "month0": (ymd(22, 0, 1), ymd(23, 1, 1)), "day0": (ymd(22, 1, 0), ymd(23, 1, 1)), "day32": (ymd(22, 1, 32), ymd(23, 1, 1)),
    "feb30": (ymd(24, 2, 30), ymd(25, 1, 1)), "feb29-nonleap": (ymd(23, 2, 29), ymd(25, 1, 1)),
    "apr31": (ymd(22, 4, 31), ymd(25, 1, 1)), "until-month13": (ymd(22, 1, 1), ymd(22, 13, 1)),
    "jun31": (ymd(22, 6, 31), ymd(25, 1, 1)), "sep31": (ymd(22, 9, 31), ymd(25, 1, 1)), "until-nov31": (ymd(22, 1, 1), ymd(23, 11, 31)),
    "until-feb30-leap": (ymd(22, 1, 1), ymd(24, 2, 30)),
    "until-feb29-nonleap": (ymd(22, 1, 1), ymd(99, 2, 29)),
    "nondigit": (bytes([0, 10, 0, 1, 0, 1]), ymd(25, 1, 1)), "nondigit-day": (bytes([2, 3, 0, 12, 2, 11]), ymd(25, 1, 1)),
    "until-nondigit": (ymd(22, 1, 1), bytes([2, 5, 0, 1, 0, 0x31])),
}
# an octet above 9 at each of the six positions, chosen so that the number it forms with its neighbour is still a legal
# year / month / day where that is possible (month "0,11" = 11, day "1,15" = 25): only the digit test can refuse it
for _i, _d in enumerate(([10, 0, 0, 1, 0, 1], [2, 12, 0, 1, 0, 1], [2, 2, 10, 0, 0, 1], [2, 2, 0, 11, 0, 1], [2, 2, 0, 1, 10, 0],
                         [2, 5, 0, 1, 1, 15])):
    BAD_DATES["from-octet%d>9" % _i] = (bytes(_d), ymd(99, 12, 31))
    BAD_DATES["until-octet%d>9" % _i] = (ymd(20, 1, 1), bytes(_d))


def cvc_viol(ctx, key, what, det):
    ctx.violation(key, what, det)


def unit_cvc_content(ctx):
    """roundtrip over field values at their documented limits + contents that must be refused"""
    lib = ctx.lib
    env = Env(lib)
    r = ctx.rng
    q = ctx.tier == "quick"
    chunk, of = ctx.params["chunk"], ctx.params["of"]
    scale = ctx.params.get("scale", 1.0)
    n = 0
    combos = []
    for klen in KEYLENS:
        for la in range(8, 13):
            for lh in range(8, 13):
                for hat in range(4):
                    combos.append((klen, la, lh, hat))
    if scale < 1.0:
        combos = combos[::max(1, int(round(1 / scale)))]
    if not q:
        combos = combos * 4          # fresh names, dates and access words each time
    for klen, la, lh, hat in combos:
        n += 1
        auth, hold = rname(r, la), rname(r, lh)
        fr, un = GOOD_DATES[r.randrange(len(GOOD_DATES))]
        eid = bytes(r.randrange(256) for _ in range(5)) if hat & 1 else bytes(5)
        esg = bytes(r.randrange(256) for _ in range(2)) if hat & 2 else bytes(2)
        if hat == 3 and n % 3 == 0:
            eid, esg = b"\0\0\0\0\1", b"\0\x80"
        selfsig = r.randrange(3) == 0
        sk = r.choice(KEYLENS)               # signer key length (independent of the certified key)
        if n % of != chunk:
            continue
        d, qk = env.keypair(klen, "h%d" % (n % 5))
        ds, qs = env.keypair(sk, "s%d" % (n % 3))
        c = {"authority": auth, "holder": hold if not selfsig else auth, "from": fr, "until": un, "hat_eid": eid, "hat_esign": esg}
        if selfsig:
            c["pubkey"], c["pubkey_len"] = b"", 0
            ds, qs = d, qk
        else:
            c["pubkey"] = qk
        desc = {"op": "cvc-roundtrip", "klen": klen, "signer": len(ds), "c": c, "self": selfsig}
        if not ctx.case(desc, "cvc:roundtrip:klen=%d" % klen):
            continue
        tag(ctx, "cvc:name-len:%d/%d" % (la, lh), "cvc:hat:eid=%s,esign=%s" % ("nz" if hat & 1 else "0", "nz" if hat & 2 else "0"),
            "cvc:self-signed" if selfsig else "cvc:signed-by:%d" % len(ds))
        code, cert, after = wrap(lib, c, ds)
        det = {"c": c, "signer_privkey": ds, "cert": cert}
        if code != 0:
            ctx.violation("btokCVCWrap:valid-content-refused:klen=%d" % klen, "Wrap refused a valid content: " + errname(code), det)
            ctx.digest(code)
            lib.release()
            continue
        exp = dict(c, pubkey=qk)
        code0, got0 = unwrap(lib, cert)
        code1, got1 = unwrap(lib, cert, qs)
        ok = code0 == 0 and code1 == 0 and same_content(got0, exp, False) and same_content(got1, got0) and \
            same_content(after, got0) and got0["sig_len"] == SIGLEN[len(ds)] == after["sig_len"] and \
            got0["pubkey_len"] == 2 * klen and not any(got0["_tail"])
        if not ok:
            ctx.violation("btokCVCUnwrap:roundtrip-differs:klen=%d" % klen, "wrap -> unwrap does not return the same content",
                          dict(det, codes=[errname(code0), errname(code1)], got=got0, got_verified=got1, after_wrap=after))
        # independent signature decision on the signed body
        sp = M.split(cert)
        if not sp or not env.sig_ok(sp[0], sp[1], qs):
            ctx.violation("btokCVCWrap:signature-not-valid:klen=%d" % len(ds), "signature over the body does not verify with bignVerify", det)
        # self-signed form of Unwrap
        cs, _ = unwrap(lib, cert, self_signed=True)
        if (cs == 0) != selfsig and not (not selfsig and qs == qk):
            ctx.violation("btokCVCUnwrap:self-signed-form:%s" % ("refused" if selfsig else "accepted"),
                          "Unwrap(pubkey = cvc->pubkey, 0) %s" % errname(cs), det)
        # documented refusal: pubkey_len == 0 with a pointer that is neither null nor cvc->pubkey
        out_ = lib.alloc(CVC_SIZE)
        cz = lib.btokCVCUnwrap(out_, lib.mk(cert), len(cert), lib.mk(qs), 0)
        if cz == 0:
            ctx.violation("btokCVCUnwrap:foreign-pubkey-with-zero-length-accepted", "header: an error is induced", det)
        # wrong verification key
        wk = env.keypair(len(ds), "wrong")[1]
        cw, _ = unwrap(lib, cert, wk)
        if cw == 0:
            ctx.violation("btokCVCUnwrap:wrong-key-accepted:klen=%d" % len(ds), "signature accepted under another key", det)
        wk2 = env.keypair(KEYLENS[(KEYLENS.index(len(ds)) + 1) % 4], "wrong")[1]
        cw2, _ = unwrap(lib, cert, wk2)
        if cw2 == 0:
            ctx.violation("btokCVCUnwrap:wrong-key-accepted:other-length", "signature accepted under a key of another length", det)
        # Len / Match
        pc = lib.mk(cert)
        l1 = lib.btokCVCLen(pc, len(cert))
        l2 = lib.btokCVCLen(lib.mk(cert + b"\x30\x00junk"), len(cert) + 6)
        l3 = lib.btokCVCLen(lib.mk(cert[:-1]), len(cert) - 1)
        if l1 != len(cert) or l2 != len(cert) or l3 != SIZE_MAX:
            ctx.violation("btokCVCLen:wrong-length", "btokCVCLen: %r" % ([l1, l2, l3],), det)
        m1 = lib.btokCVCMatch(pc, len(cert), lib.mk(d), klen)
        m2 = lib.btokCVCMatch(pc, len(cert), lib.mk(env.keypair(klen, "wrong")[0]), klen)
        if m1 != 0 or m2 == 0:
            ctx.violation("btokCVCMatch:%s" % ("match-refused" if m1 else "mismatch-accepted"), "btokCVCMatch %s / %s" % (errname(m1), errname(m2)), det)
        ctx.digest(cert, code0, code1, cs, cz != 0, cw, cw2, l1, l2, l3, m1, m2)
        lib.release()
    # contents that must be refused
    bad = []
    for klen in KEYLENS:
        for la, lh in ((7, 8), (8, 7), (13, 12), (12, 13), (0, 8), (8, 0)):
            bad.append((klen, "name-len:%d/%d" % (la, lh), {"la": la, "lh": lh}))
        for ch in (0x01, 0x2A, 0x40, 0x5F, 0x7F, 0xE0):
            bad.append((klen, "name-char:%02x" % ch, {"ch": ch}))
        for lab in BAD_DATES:
            bad.append((klen, "date:" + lab, {"date": lab}))
        for k in ("offcurve", "ge-p", "zero", "len"):
            bad.append((klen, "pubkey:" + k, {"pk": k}))
    for i, (klen, lab, spec) in enumerate(bad):
        auth, hold = rname(r, spec.get("la", 9)), rname(r, spec.get("lh", 10))
        pos = r.randrange(8)
        if i % of != chunk:
            continue
        d, qk = env.keypair(klen, "h0")
        fr, un = GOOD_DATES[0]
        if "ch" in spec:
            hold = hold[:pos] + bytes([spec["ch"]]) + hold[pos + 1:]
        if "date" in spec:
            fr, un = BAD_DATES[spec["date"]]
        pk = qk
        if spec.get("pk") == "offcurve":
            pk = qk[:klen] + bytes([qk[klen] ^ 1]) + qk[klen + 1:]
        elif spec.get("pk") == "ge-p":
            pk = b"\xff" * klen + qk[klen:]
        elif spec.get("pk") == "zero":
            pk = bytes(2 * klen)
        c = {"authority": auth, "holder": hold, "from": fr, "until": un, "pubkey": pk}
        if spec.get("pk") == "len":
            c["pubkey_len"] = 2 * klen - 2
        desc = {"op": "cvc-bad-content", "klen": klen, "what": lab, "c": c}
        if not ctx.case(desc, "cvc:bad:" + lab.split(":")[0]):
            continue
        tag(ctx, "cvc:bad:" + lab)
        exp_ok = M.check(c, env.pubkey_ok(pk) and c.get("pubkey_len", len(pk)) == len(pk))
        if exp_ok:
            raise Harness("bad content %s passes the model" % lab)
        c1 = lib.btokCVCCheck(mk_cvc(lib, c))
        c2, cert, _ = wrap(lib, c, d)
        pl = lib.alloc(8)
        c3 = lib.btokCVCWrap(0, pl, mk_cvc(lib, c), lib.mk(d), klen)
        for fn, code in (("btokCVCCheck", c1), ("btokCVCWrap", c2), ("btokCVCWrap", c3)):
            if code == 0:
                ctx.violation("%s:invalid-content-accepted:%s" % (fn, lab), "%s accepted %s" % (fn, lab), {"c": c, "cert": cert})
        ctx.digest(c1 != 0, c2 != 0, c3 != 0)
        lib.release()


def add_days(d, k):
    import datetime
    x = datetime.date(2000 + 10 * d[0] + d[1], 10 * d[2] + d[3], 10 * d[4] + d[5]) + datetime.timedelta(days=k)
    if not 2000 <= x.year <= 2099:
        return None
    return ymd(x.year - 2000, x.month, x.day)


def build_chain(env, r, depth):
    """valid chain: root self-signed, then depth certificates issued one under another.
    returns list of dicts {c, cert, priv, pub}"""
    lib = env.lib
    chain = []
    y0 = r.randrange(0, 30)
    fr, un = ymd(y0, r.randrange(1, 13), r.randrange(1, 29)), ymd(y0 + 40 + r.randrange(20), r.randrange(1, 13), r.randrange(1, 29))
    for lvl in range(depth + 1):
        klen = r.choice(KEYLENS)
        d, qk = env.keypair(klen, "chain%d/%d" % (lvl, r.randrange(4)))
        hold = rname(r, r.randrange(8, 13))
        if lvl == 0:
            c = {"authority": hold, "holder": hold, "from": fr, "until": un, "pubkey": b"", "pubkey_len": 0,
                 "hat_eid": bytes(r.randrange(256) for _ in range(5)), "hat_esign": bytes(2)}
            code, cert, after = wrap(lib, c, d)
            c = dict(c, pubkey=qk, pubkey_len=len(qk))
        else:
            up = chain[-1]
            # window: starts inside the issuer's; may end after it (only `from` is constrained by the header)
            span = [up["c"]["from"], up["c"]["until"]]
            f2 = add_days(span[0], r.randrange(0, 300)) or span[0]
            if not M.date_leq(f2, span[1]):
                f2 = span[0]
            u2 = add_days(f2, r.randrange(0, 4000)) or f2
            c = {"authority": up["c"]["holder"], "holder": hold, "from": f2, "until": u2, "pubkey": qk,
                 "hat_eid": bytes(5) if r.randrange(2) else bytes(r.randrange(256) for _ in range(5)),
                 "hat_esign": bytes(2) if r.randrange(2) else bytes(r.randrange(1, 256) for _ in range(2))}
            code, cert, after = issue(lib, c, up["cert"], up["priv"])
        if code != 0:
            return None, (lvl, code, c)
        chain.append({"c": c, "cert": cert, "priv": d, "pub": qk, "after": after})
        lib.release()
    return chain, None


def unit_cvc_chain(ctx):
    lib = ctx.lib
    env = Env(lib)
    r = ctx.rng
    q = ctx.tier == "quick"
    nch = ctx.params["chains"]
    bits = ctx.params.get("bits", 1)
    for ci in range(nch):
        depth = 1 + (ci + ctx.params["chunk"]) % 3
        seed = r.getrandbits(48)
        desc = {"op": "cvc-chain", "depth": depth, "seed": seed, "bits": bits}
        if not ctx.case(desc, "cvc:chain:depth=%d" % depth):
            continue
        rr = random.Random("c17chain/%d" % seed)
        chain, fail = build_chain(env, rr, depth)
        if chain is None:
            ctx.violation("btokCVCIss:valid-chain-refused:level=%d" % fail[0], "issuing a valid chain failed: " + errname(fail[1]),
                          {"level": fail[0], "c": fail[2]})
            ctx.digest(fail[1])
            lib.release()
            continue
        dg = []
        n_eval = 0
        # --- positive and negative validation against the model ---
        code, got = unwrap(lib, chain[0]["cert"], self_signed=True)
        if code != 0 or not same_content(got, chain[0]["c"], False):
            ctx.violation("btokCVCUnwrap:self-signed-root-refused", "root: " + errname(code), {"cert": chain[0]["cert"]})
        dg.append(code)
        prev_cvc = got if code == 0 else dict(chain[0]["c"], pubkey_len=len(chain[0]["pub"]))
        for i in range(1, len(chain)):
            e, up = chain[i], chain[i - 1]
            tag(ctx, "cvc:chain:klen=%d-under-%d" % (len(e["priv"]), len(up["priv"])))
            sp = M.split(e["cert"])
            sig_ok = bool(sp) and env.sig_ok(sp[0], sp[1], up["pub"])
            dates = [None, e["c"]["from"], e["c"]["until"], add_days(e["c"]["from"], -1), add_days(e["c"]["until"], 1),
                     add_days(e["c"]["from"], 1), ymd(22, 2, 30), bytes([0, 10, 0, 1, 0, 1]), ymd(0, 0, 0),
                     ymd(23, 11, 31), ymd(23, 6, 31)]
            dates = dates[:1] + [x for x in dates[1:] if x is not None]
            for dt in dates:
                expect = M.val(e["c"], up["c"], dt, sig_ok, env.pubkey_ok(e["pub"]))
                cv = val(lib, e["cert"], up["cert"], dt)
                cv2, got2 = val2(lib, e["cert"], prev_cvc, dt)
                n_eval += 2
                dg += [cv == 0, cv2 == 0]
                lab = "none" if dt is None else "valid" if M.date_ok(dt) else "nondigit" if max(dt) > 9 else "noncalendar"
                for fn, code in (("btokCVCVal", cv), ("btokCVCVal2", cv2)):
                    if (code == 0) != expect:
                        ctx.violation("%s:%s:date-%s" % (fn, "valid-refused" if expect else "invalid-accepted", lab),
                                      "%s = %s, model says %s" % (fn, errname(code), expect),
                                      {"cert": e["cert"], "issuer": up["cert"], "date": dt, "c": e["c"], "ca": up["c"]})
                if cv2 == 0 and not same_content(got2, e["c"], False):
                    ctx.violation("btokCVCVal2:content-differs", "Val2 returned another content", {"cert": e["cert"], "got": got2})
            c2n, _ = val2(lib, e["cert"], prev_cvc, None, want=False)
            if c2n != 0:
                ctx.violation("btokCVCVal2:valid-refused:null-cvc", errname(c2n), {"cert": e["cert"]})
            # relational defects, signed by the real issuer key with Wrap (which only checks the content itself)
            neg = {}
            other = rname(rr, len(up["c"]["holder"]))
            if other != up["c"]["holder"]:
                neg["authority"] = dict(e["c"], authority=other)
            neg["authority-prefix"] = dict(e["c"], authority=(up["c"]["holder"] + b"x")[:12] if len(up["c"]["holder"]) < 12 else up["c"]["holder"][:-1])
            b4 = add_days(up["c"]["from"], -1)
            if b4:
                neg["from-before-issuer"] = dict(e["c"], **{"from": b4})
            af = add_days(up["c"]["until"], 1)
            if af:
                neg["from-after-issuer"] = dict(e["c"], **{"from": af, "until": add_days(af, 5) or af})
            pos = {"from=issuer.from": dict(e["c"], **{"from": up["c"]["from"], "until": max(e["c"]["until"], up["c"]["from"], key=tuple)}),
                   "from=issuer.until": dict(e["c"], **{"from": up["c"]["until"], "until": max(e["c"]["until"], up["c"]["until"], key=tuple)}),
                   "until-after-issuer": dict(e["c"], until=add_days(up["c"]["until"], 30) or up["c"]["until"])}
            for lab, c in list(neg.items()) + list(pos.items()):
                if not M.check(c):
                    continue
                expect = M.check2(c, up["c"])
                if expect != (lab in pos):
                    raise Harness("variant %s: model says %s" % (lab, expect))
                code, cert, _ = wrap(lib, c, up["priv"])
                if code != 0:
                    ctx.violation("btokCVCWrap:valid-content-refused:chain", errname(code), {"c": c})
                    continue
                cv = val(lib, cert, up["cert"], None)
                cv2, _ = val2(lib, cert, prev_cvc, None)
                ci_, _, _ = issue(lib, c, up["cert"], up["priv"])
                cc2 = lib.btokCVCCheck2(mk_cvc(lib, c), mk_cvc(lib, dict(up["c"])))
                n_eval += 4
                dg += [cv == 0, cv2 == 0, ci_ == 0, cc2 == 0]
                tag(ctx, "cvc:variant:" + lab)
                for fn, code in (("btokCVCVal", cv), ("btokCVCVal2", cv2), ("btokCVCIss", ci_), ("btokCVCCheck2", cc2)):
                    if (code == 0) != expect:
                        ctx.violation("%s:%s:%s" % (fn, "valid-refused" if expect else "invalid-accepted", lab),
                                      "%s = %s, model says %s" % (fn, errname(code), expect),
                                      {"cert": cert, "issuer": up["cert"], "c": c, "ca": up["c"]})
            # signed by somebody else / issued with a key that is not the issuer's
            wd = env.keypair(len(up["priv"]), "intruder")[0]
            code, cert, _ = wrap(lib, e["c"], wd)
            if code == 0:
                cv = val(lib, cert, up["cert"], None)
                cv2, _ = val2(lib, cert, prev_cvc, None)
                dg += [cv == 0, cv2 == 0]
                n_eval += 2
                for fn, code in (("btokCVCVal", cv), ("btokCVCVal2", cv2)):
                    if code == 0:
                        ctx.violation("%s:invalid-accepted:wrong-signer" % fn, "certificate signed by another key validated",
                                      {"cert": cert, "issuer": up["cert"]})
            ci_, _, _ = issue(lib, e["c"], up["cert"], wd)
            wd2 = env.keypair(KEYLENS[(KEYLENS.index(len(up["priv"])) + 1) % 4], "intruder")[0]
            ci2, _, _ = issue(lib, e["c"], up["cert"], wd2)
            n_eval += 2
            dg += [ci_ == 0, ci2 == 0]
            if ci_ == 0 or ci2 == 0:
                ctx.violation("btokCVCIss:invalid-accepted:privkey-not-issuers", "Iss accepted a private key that does not match certa",
                              {"issuer": up["cert"], "privkey": wd if ci_ == 0 else wd2})
            prev_cvc = dict(e["c"], pubkey_len=len(e["pub"]))
            lib.release()
        # --- every octet of every certificate altered ---
        tr = random.Random("c17flip/%d" % seed)
        for i, e in enumerate(chain):
            cert = e["cert"]
            for j in range(len(cert)):
                for b in tr.sample(range(8), bits):
                    alt = bytearray(cert)
                    alt[j] ^= 1 << b
                    alt = bytes(alt)
                    if i == 0:
                        cu, _ = unwrap(lib, alt, self_signed=True)
                        codes = [("btokCVCUnwrap", cu)]
                    else:
                        cu, _ = unwrap(lib, alt, chain[i - 1]["pub"])
                        cv = val(lib, alt, chain[i - 1]["cert"], None)
                        codes = [("btokCVCUnwrap", cu), ("btokCVCVal", cv)]
                        if (j + b) % 4 == 0:
                            cv2, _ = val2(lib, alt, dict(chain[i - 1]["c"], pubkey_len=len(chain[i - 1]["pub"])), None, want=False)
                            codes.append(("btokCVCVal2", cv2))
                    n_eval += len(codes)
                    dg.append(tuple(c != 0 for _, c in codes))
                    for fn, code in codes:
                        if code == 0:
                            sp = M.split(cert)
                            where = "?"
                            if sp:
                                o = cert.find(sp[0])
                                where = "header" if j < o else "body" if j < o + len(sp[0]) else \
                                    "sig-value" if j >= len(cert) - len(sp[1]) else "sig-header"
                            ctx.violation("%s:altered-octet-accepted:%s" % (fn, where),
                                          "certificate with octet %d bit %d flipped accepted when verified with the issuer key" % (j, b),
                                          {"cert": cert, "altered": alt, "octet": j, "bit": b, "level": i,
                                           "issuer_pubkey": chain[i - 1]["pub"] if i else None})
                    lib.release()
        ctx.count(n_eval, "cvc:chain-evaluations")
        ctx.digest(repr(dg), *[e["cert"] for e in chain])
        lib.release()


# ---------------------------------------------------------------------------
# secure messaging
# ---------------------------------------------------------------------------

def mk_cmd(lib, cla, ins, p1, p2, rdf_len, cdf):
    return lib.mk(bytes(ApduCmd(cla, ins, p1, p2, rdf_len, len(cdf))) + cdf)


def rd_cmd(lib, p, size):
    raw = lib.rd(p, size)
    h = ApduCmd.from_buffer_copy(raw[:CMD_HDR])
    return (h.cla, h.ins, h.p1, h.p2, h.rdf_len, h.cdf_len, raw[CMD_HDR:])


def mk_resp(lib, sw1, sw2, rdf):
    return lib.mk(bytes(ApduResp(sw1, sw2, len(rdf))) + rdf)


def rd_resp(lib, p, size):
    raw = lib.rd(p, size)
    h = ApduResp.from_buffer_copy(raw[:RESP_HDR])
    return (h.sw1, h.sw2, h.rdf_len, raw[RESP_HDR:])


def cmd_wrap(lib, pcmd, st):
    pn = lib.alloc(8)
    code = lib.btokSMCmdWrap(0, pn, pcmd, st)
    if code != 0:
        return code, None
    n = lib.rd_size(pn)
    out = lib.alloc(n)
    pn2 = lib.alloc(8)
    code = lib.btokSMCmdWrap(out, pn2, pcmd, st)
    if code != 0:
        return code, None
    if lib.rd_size(pn2) != n:
        return -1, None
    return 0, lib.rd(out, n)


def cmd_unwrap(lib, apdu, st):
    pa = lib.mk(apdu)
    ps = lib.alloc(8)
    code = lib.btokSMCmdUnwrap(0, ps, pa, len(apdu), st)
    if code != 0:
        return code, None
    size = lib.rd_size(ps)
    if size < CMD_HDR or size > CMD_HDR + len(apdu):
        return -2, None
    out = lib.alloc(size)
    ps2 = lib.alloc(8)
    code = lib.btokSMCmdUnwrap(out, ps2, pa, len(apdu), st)
    if code != 0:
        return code, None
    if lib.rd_size(ps2) != size:
        return -1, None
    return 0, rd_cmd(lib, out, size)


def resp_wrap(lib, presp, st):
    pn = lib.alloc(8)
    code = lib.btokSMRespWrap(0, pn, presp, st)
    if code != 0:
        return code, None
    n = lib.rd_size(pn)
    out = lib.alloc(n)
    pn2 = lib.alloc(8)
    code = lib.btokSMRespWrap(out, pn2, presp, st)
    if code != 0:
        return code, None
    if lib.rd_size(pn2) != n:
        return -1, None
    return 0, lib.rd(out, n)


def resp_unwrap(lib, apdu, st):
    pa = lib.mk(apdu)
    ps = lib.alloc(8)
    code = lib.btokSMRespUnwrap(0, ps, pa, len(apdu), st)
    if code != 0:
        return code, None
    size = lib.rd_size(ps)
    if size < RESP_HDR or size > RESP_HDR + len(apdu):
        return -2, None
    out = lib.alloc(size)
    ps2 = lib.alloc(8)
    code = lib.btokSMRespUnwrap(out, ps2, pa, len(apdu), st)
    if code != 0:
        return code, None
    if lib.rd_size(ps2) != size:
        return -1, None
    return 0, rd_resp(lib, out, size)


def release_except(lib, keep):
    lib._live = [p for p in lib._live if p not in keep]
    lib.release()
    lib._live = list(keep)


def sm_selftest(lib):
    """the protected command / response of test/crypto/btok_test.c"""
    key = lib.rd(lib.beltH(), 32)
    st_t, st_ct = lib.alloc(lib.btokSM_keep()), lib.alloc(lib.btokSM_keep())
    lib.btokSMStart(st_t, lib.mk(key))
    lib.btokSMStart(st_ct, lib.mk(key))
    lib.btokSMCtrInc(st_t), lib.btokSMCtrInc(st_ct)
    code, apdu = cmd_wrap(lib, mk_cmd(lib, 0, 0xA4, 4, 4, 256, bytes.fromhex("54657374")), st_t)
    ok = code == 0 and apdu.hex().upper() == "04A40404148705020C4C0BFB9701008E08FBD50AD6814F90A900"
    c2, got = cmd_unwrap(lib, apdu, st_ct) if ok else (1, None)
    ok = ok and c2 == 0 and got == (0, 0xA4, 4, 4, 256, 4, bytes.fromhex("54657374"))
    lib.btokSMCtrInc(st_t), lib.btokSMCtrInc(st_ct)
    rdf = bytes.fromhex("E012C00401FF8010C00402FF8010C00403FF8010")
    c3, ap2 = resp_wrap(lib, mk_resp(lib, 0x90, 0, rdf), st_ct)
    ok = ok and c3 == 0 and ap2.hex().upper() == "8715022A9042A60A85E50FAB446AC80B75F144B67EBD6D8E082C4DE31DFAA176359000"
    c4, g2 = resp_unwrap(lib, ap2, st_t) if ok else (1, None)
    ok = ok and c4 == 0 and g2 == (0x90, 0, 20, rdf)
    lib.release()
    if not ok:
        raise Harness("SM self-test (btok_test.c vectors)")


CDF_QUICK = (0, 1, 15, 16, 17, 126, 127, 128, 237, 238, 239, 240, 241, 242, 243, 244, 245, 255, 256, 257, 300)
RDF_FORMS = (0, 1, 2, 255, 256, 257, 258, 65535, 65536)


def unit_sm(ctx):
    lib = ctx.lib
    sm_selftest(lib)
    r = ctx.rng
    q = ctx.tier == "quick"
    chunk, of = ctx.params["chunk"], ctx.params["of"]
    scale = ctx.params.get("scale", 1.0)
    cdfs = CDF_QUICK if q else tuple(range(0, 301))
    combos = [(c, rf) for c in cdfs for rf in RDF_FORMS]
    if scale < 1.0:
        combos = combos[::max(1, int(round(1 / scale)))]
    keep = lib.btokSM_keep()
    for n, (cdf_len, rdf_len) in enumerate(combos):
        key = bytes(r.randrange(256) for _ in range(32))
        npairs = 1 + r.randrange(12)
        cla = r.randrange(256) & 0xFB
        hdr = [r.randrange(256) for _ in range(3)]
        seed = r.getrandbits(40)
        if n % of != chunk:
            continue
        desc = {"op": "sm-dialogue", "cdf_len": cdf_len, "rdf_len": rdf_len, "pairs": npairs, "key": key, "cla": cla,
                "hdr": hdr, "seed": seed}
        lcform = "none" if cdf_len == 0 else "short" if cdf_len < 256 and rdf_len <= 256 else "ext"
        leform = "none" if rdf_len == 0 else "short" if cdf_len < 256 and rdf_len <= 256 else "ext2" if cdf_len else "ext3"
        if not ctx.case(desc, "sm:Lc=%s,Le=%s" % (lcform, leform)):
            continue
        tag(ctx, "sm:pairs=%d" % npairs, "sm:cdf=%s" % ("0" if cdf_len == 0 else "1..126" if cdf_len < 127 else "127..255" if cdf_len < 256 else ">=256"),
            "sm:rdf=%d" % rdf_len if rdf_len in (0, 256, 65536) else "sm:rdf=%s" % ("<256" if rdf_len < 256 else ">256"))
        rr = random.Random(seed)
        st_t, st_ct = lib.alloc(keep), lib.alloc(keep)
        lib.btokSMStart(st_t, lib.mk(key))
        lib.btokSMStart(st_ct, lib.mk(key))
        dg = []
        n_eval = 0
        det0 = {"key": key, "cdf_len": cdf_len, "rdf_len": rdf_len}
        # no SM state (btok.h: "only encoding, without protection"): the plain command / response of this Lc/Le form must
        # be encoded and recovered unchanged as well
        cdf0 = bytes(rr.randrange(256) for _ in range(cdf_len))
        cmd0 = (cla, hdr[0], hdr[1], hdr[2], rdf_len, cdf_len, cdf0)
        e0, ap0 = cmd_wrap(lib, mk_cmd(lib, cla, hdr[0], hdr[1], hdr[2], rdf_len, cdf0), 0)
        if e0 != 0:
            ctx.violation("btokSMCmdWrap:valid-refused:no-state:Lc=%s,Le=%s" % (lcform, leform), errname(e0), dict(det0, cmd=cmd0))
        else:
            d0, g0 = cmd_unwrap(lib, ap0, 0)
            if d0 != 0 or g0 != cmd0:
                ctx.violation("btokSMCmdUnwrap:not-recovered:no-state:Lc=%s,Le=%s" % (lcform, leform),
                              "plain command: %s, got %r" % (errname(d0), g0), dict(det0, cmd=cmd0, apdu=ap0))
        rdf0 = bytes(rr.randrange(256) for _ in range(min(rdf_len, 300)))
        e1, rp0 = resp_wrap(lib, mk_resp(lib, 0x90, 0x00, rdf0), 0)
        if e1 != 0:
            ctx.violation("btokSMRespWrap:valid-refused:no-state", errname(e1), dict(det0, rdf=rdf0))
        else:
            d1, g1 = resp_unwrap(lib, rp0, 0)
            if d1 != 0 or g1 != (0x90, 0x00, len(rdf0), rdf0):
                ctx.violation("btokSMRespUnwrap:not-recovered:no-state", "plain response: %s, got %r" % (errname(d1), g1),
                              dict(det0, rdf=rdf0, apdu=rp0))
        dg += [e0, ap0, e1, rp0]
        n_eval += 4
        tag(ctx, "sm:no-state")
        for pair in range(npairs):
            # dialogue lengths vary inside the sequence around the scenario's lengths
            cl = cdf_len if pair == 0 else max(0, min(300, cdf_len + rr.randrange(-2, 3)))
            rl = rdf_len
            resp_len = min(rl, 300) if pair == 0 else rr.randrange(0, min(rl, 300) + 1)
            cdf = bytes(rr.randrange(256) for _ in range(cl))
            rdf = bytes(rr.randrange(256) for _ in range(resp_len))
            cmd = (cla, hdr[0], hdr[1], hdr[2], rl, cl, cdf)
            resp = (rr.randrange(256), rr.randrange(256), resp_len, rdf)
            pcmd = mk_cmd(lib, cla, hdr[0], hdr[1], hdr[2], rl, cdf)
            presp = mk_resp(lib, resp[0], resp[1], rdf)
            det = dict(det0, pair=pair, cmd=cmd, resp=resp)
            # wrong parity before the increment: counter even -> command calls refused
            w0, _ = cmd_wrap(lib, pcmd, st_t)
            if w0 == 0:
                ctx.violation("btokSMCmdWrap:wrong-parity-accepted:even", "command protected at an even counter", det)
            lib.btokSMCtrInc(st_t)
            w1, apdu = cmd_wrap(lib, pcmd, st_t)
            n_eval += 2
            if w1 != 0:
                ctx.violation("btokSMCmdWrap:valid-refused:Lc=%s,Le=%s" % (lcform, leform), errname(w1), det)
                dg.append(w1)
                break
            det["apdu"] = apdu
            # receiver one step behind (even) -> refused; in step -> recovered; one step ahead -> refused
            u0, _ = cmd_unwrap(lib, apdu, st_ct)
            lib.btokSMCtrInc(st_ct)
            # response calls at the odd counter are refused
            x1, _ = resp_wrap(lib, presp, st_ct)
            u1, got = cmd_unwrap(lib, apdu, st_ct)
            n_eval += 3
            if u0 == 0:
                ctx.violation("btokSMCmdUnwrap:wrong-parity-accepted:behind-by-one", "command accepted at an even counter", det)
            if x1 == 0:
                ctx.violation("btokSMRespWrap:wrong-parity-accepted:odd", "response protected at an odd counter", det)
            if u1 != 0 or got != cmd:
                ctx.violation("btokSMCmdUnwrap:not-recovered:Lc=%s,Le=%s" % (lcform, leform),
                              "in-step peer: %s, got %r" % (errname(u1), got), det)
            # every protected octet altered (state of the receiver is not advanced by a refused call)
            for j in range(len(apdu)):
                alt = bytearray(apdu)
                alt[j] ^= 1 << rr.randrange(8)
                cu, g = cmd_unwrap(lib, bytes(alt), st_ct)
                n_eval += 1
                if cu == 0:
                    where = "header" if j < 4 else "Lc" if j < 4 + (1 if apdu[4] else 3) else "body"
                    ctx.violation("btokSMCmdUnwrap:altered-octet-accepted:%s" % where,
                                  "protected command with octet %d altered accepted" % j, dict(det, altered=bytes(alt), got=g))
            dg += [w0 != 0, u0 != 0, x1 != 0, apdu]
            # still in step after all the refused calls?
            u2, got = cmd_unwrap(lib, apdu, st_ct)
            if u2 != 0 or got != cmd:
                ctx.violation("btokSMCmdUnwrap:state-changed-by-refused-call", errname(u2), det)
            # response
            r0, _ = resp_wrap(lib, presp, st_ct)          # odd counter: refused
            lib.btokSMCtrInc(st_ct)
            ua, _ = cmd_unwrap(lib, apdu, st_ct)          # receiver one step ahead (even): refused
            if ua == 0:
                ctx.violation("btokSMCmdUnwrap:wrong-parity-accepted:ahead-by-one", "command accepted at an even counter", det)
            r1, rap = resp_wrap(lib, presp, st_ct)
            n_eval += 4
            if r0 == 0:
                ctx.violation("btokSMRespWrap:wrong-parity-accepted:odd", "response protected at an odd counter", det)
            if r1 != 0:
                ctx.violation("btokSMRespWrap:valid-refused", errname(r1), det)
                dg.append(r1)
                break
            det["rapdu"] = rap
            v0, _ = resp_unwrap(lib, rap, st_t)           # T still odd: refused
            lib.btokSMCtrInc(st_t)
            y2, _ = cmd_wrap(lib, pcmd, st_t)             # even: refused
            v1, gotr = resp_unwrap(lib, rap, st_t)
            n_eval += 3
            if v0 == 0:
                ctx.violation("btokSMRespUnwrap:wrong-parity-accepted:behind-by-one", "response accepted at an odd counter", det)
            if y2 == 0:
                ctx.violation("btokSMCmdWrap:wrong-parity-accepted:even", "command protected at an even counter", det)
            if v1 != 0 or gotr != resp:
                ctx.violation("btokSMRespUnwrap:not-recovered", "in-step peer: %s, got %r" % (errname(v1), gotr), det)
            for j in range(len(rap)):
                alt = bytearray(rap)
                alt[j] ^= 1 << rr.randrange(8)
                cu, g = resp_unwrap(lib, bytes(alt), st_t)
                n_eval += 1
                if cu == 0:
                    ctx.violation("btokSMRespUnwrap:altered-octet-accepted:%s" % ("sw" if j >= len(rap) - 2 else "body"),
                                  "protected response with octet %d altered accepted" % j, dict(det, altered=bytes(alt), got=g))
            dg += [r0 != 0, ua != 0, v0 != 0, y2 != 0, rap]
            # free the per-pair scratch but keep the two states
            release_except(lib, (st_t, st_ct))
        ctx.count(n_eval, "sm:wrap-unwrap-calls")
        ctx.digest(repr(dg))
        lib.release()
    # documented refusals: CLA with the SM bit already set; unprotected forms
    for n in range(8):
        cdf = bytes(r.randrange(256) for _ in range(r.choice((0, 5, 256))))
        rl = r.choice(RDF_FORMS)
        if n % of != chunk:
            continue
        if not ctx.case({"op": "sm-misc", "n": n, "cdf": cdf, "rdf_len": rl}, "sm:misc"):
            continue
        st = lib.alloc(keep)
        lib.btokSMStart(st, lib.mk(bytes(32)))
        lib.btokSMCtrInc(st)
        c1, _ = cmd_wrap(lib, mk_cmd(lib, 0x04 | (n << 4), 1, 2, 3, rl, cdf), st)
        if c1 == 0:
            ctx.violation("btokSMCmdWrap:protected-cla-accepted", "CLA with bit 0x04 accepted for protection", {"cdf": cdf})
        # without a state: plain encoding, inverse of each other
        c2, ap = cmd_wrap(lib, mk_cmd(lib, n << 4, 1, 2, 3, rl, cdf), 0)
        c3, got = cmd_unwrap(lib, ap, 0) if c2 == 0 else (1, None)
        if c2 != 0 or c3 != 0 or got != (n << 4, 1, 2, 3, rl, len(cdf), cdf):
            ctx.violation("btokSMCmdUnwrap:plain-roundtrip", "%s %s %r" % (errname(c2), errname(c3), got), {"cdf": cdf, "rdf_len": rl})
        c4, ap2 = resp_wrap(lib, mk_resp(lib, 0x90, n, cdf), 0)
        c5, got2 = resp_unwrap(lib, ap2, 0) if c4 == 0 else (1, None)
        if c4 != 0 or c5 != 0 or got2 != (0x90, n, len(cdf), cdf):
            ctx.violation("btokSMRespUnwrap:plain-roundtrip", "%s %s %r" % (errname(c4), errname(c5), got2), {"rdf": cdf})
        # a protected command handed to the plain decoder and vice versa
        c6, apx = cmd_wrap(lib, mk_cmd(lib, n << 4, 1, 2, 3, rl, cdf), st)
        c7, _ = cmd_unwrap(lib, apx, 0) if c6 == 0 else (1, None)
        c8, _ = cmd_unwrap(lib, ap, st) if c2 == 0 else (1, None)
        if c7 == 0 or c8 == 0:
            ctx.violation("btokSMCmdUnwrap:protection-bit-ignored", "%s %s" % (errname(c7), errname(c8)), {"cdf": cdf})
        ctx.digest(c1 != 0, c2, c3, c4, c5, c6, c7 != 0, c8 != 0, ap or b"", ap2 or b"", apx or b"")
        lib.release()


# ---------------------------------------------------------------------------
# bpki containers
# ---------------------------------------------------------------------------

def bp_wrap(lib, fn, key, pwd, salt, it):
    pn = lib.alloc(8)
    f = getattr(lib, fn)
    code = f(0, pn, 0, len(key), 0, len(pwd), 0, it)
    if code != 0:
        return code, None
    n = lib.rd_size(pn)
    out = lib.alloc(n)
    pn2 = lib.alloc(8)
    code = f(out, pn2, lib.mk(key), len(key), lib.mk(pwd), len(pwd), lib.mk(salt), it)
    if code != 0:
        return code, None
    if lib.rd_size(pn2) != n:
        return -1, None
    return 0, lib.rd(out, n)


def bp_unwrap(lib, fn, epki, pwd):
    """probe the key length with a null output, then exact; returns (code, key)"""
    f = getattr(lib, fn)
    pe, pp = lib.mk(epki), lib.mk(pwd)
    pn = lib.alloc(8)
    code = f(0, pn, pe, len(epki), pp, len(pwd))
    if code != 0:
        return code, None
    n = lib.rd_size(pn)
    if n > 1024:
        return -2, None
    out = lib.alloc(n)
    pn2 = lib.alloc(8)
    code = f(out, pn2, pe, len(epki), pp, len(pwd))
    if code != 0:
        return code, None
    if lib.rd_size(pn2) != n:
        return -1, None
    return 0, lib.rd(out, n)


def bp_unwrap_direct(lib, fn, epki, pwd, klen):
    """a caller that knows the key length: one call into an exact buffer; returns (code, buffer, untouched?)"""
    f = getattr(lib, fn)
    out = lib.alloc(klen)
    before = lib.rd(out, klen)
    code = f(out, lib.alloc(8), lib.mk(epki), len(epki), lib.mk(pwd), len(pwd))
    after = lib.rd(out, klen)
    return code, after, after == before


FLIP_PARTS = 4


def hmac_equiv(a, b):
    """PBKDF2 uses the password as an HMAC[belt-hash] key: keys up to the block length (32 octets) are padded with
    zeros, so passwords that differ only in trailing zero octets are the same key"""
    if len(a) <= 32 and len(b) <= 32:
        return a.rstrip(b"\0") == b.rstrip(b"\0")
    return a == b


def unit_bpki(ctx):
    lib = ctx.lib
    r = ctx.rng
    q = ctx.tier == "quick"
    chunk, of = ctx.params["chunk"], ctx.params["of"]
    scale = ctx.params.get("scale", 1.0)
    bits = ctx.params.get("bits", 1)
    kinds = [("bpkiPrivkey", k) for k in KEYLENS] + [("bpkiShare", k) for k in (17, 25, 33)]
    pwlens = (0, 1, 3, 8, 31, 32, 33, 63, 64) if q else tuple(range(65))
    iters = (10000, 10001, 12345, 32767, 32768, 40000)          # 32767 -> 32768: the DER INTEGER of the count grows to 3 octets
    scen = []
    # (a) roundtrip + wrong passwords over password lengths, iteration counts, salts
    for fnb, klen in kinds:
        for i, pl in enumerate(pwlens):
            scen.append(("rt", fnb, klen, pl, iters[(i + klen) % len(iters)] if not (not q and i == 40 and klen == 32) else 70000,
                         ("zero", "ff", "rand")[(i + klen) % 3]))
    # (b) every octet altered
    for part in range(FLIP_PARTS):
        for fnb, klen in kinds:
            scen.append(("flip%d" % part, fnb, klen, 6, iters[klen % 3], "rand"))
    # (c) documented argument errors
    for fnb, klen in kinds[:2] + kinds[4:5]:
        scen.append(("args", fnb, klen, 4, 10000, "rand"))
    if scale < 1.0:
        st = max(1, int(round(1 / scale)))
        scen = [s for i, s in enumerate(scen) if s[0] != "rt" or i % st == 0]
    for n, (op, fnb, klen, pl, it, saltk) in enumerate(scen):
        part = None
        if op.startswith("flip"):
            part, op = int(op[4:]), "flip"
            # all parts of one container share its content
            r2 = random.Random("c17bpki/%d/%s/%d" % (ctx.seed, fnb, klen))
        else:
            r2 = r
        key = bytes(r2.randrange(256) for _ in range(klen))
        if fnb == "bpkiShare":
            key = bytes([1 + r2.randrange(16)]) + key[1:]
        pwd = bytes(r2.randrange(256) for _ in range(pl))
        salt = {"zero": bytes(8), "ff": b"\xff" * 8, "rand": bytes(r2.randrange(256) for _ in range(8))}[saltk]
        seed = r2.getrandbits(40)
        if n % of != chunk:
            continue
        desc = {"op": "bpki-" + op, "fn": fnb, "klen": klen, "key": key, "pwd": pwd, "salt": salt, "iter": it, "seed": seed,
                "bits": bits, "part": part}
        if not ctx.case(desc, "bpki:%s:%s:%d" % (op, fnb[4:], klen)):
            continue
        rr = random.Random(seed)
        W, U = fnb + "Wrap", fnb + "Unwrap"
        other = ("bpkiShare" if fnb == "bpkiPrivkey" else "bpkiPrivkey") + "Unwrap"
        det = {"fn": fnb, "key": key, "pwd": pwd, "salt": salt, "iter": it}
        n_eval = 0
        if op == "args":
            res = []
            for bad_it in (0, 1, 2, 9999):
                c, _ = bp_wrap(lib, W, key, pwd, salt, bad_it)
                res.append(c)
                if c == 0:
                    ctx.violation("%s:small-iter-accepted" % W, "iter = %d accepted (header: iter >= 10000)" % bad_it, det)
            for bl in ((16, 31, 33, 65) if fnb == "bpkiPrivkey" else (16, 18, 32, 34)):
                c, _ = bp_wrap(lib, W, bytes([1]) + bytes(bl - 1), pwd, salt, 10000)
                res.append(c)
                if c == 0:
                    ctx.violation("%s:bad-length-accepted" % W, "key length %d accepted" % bl, det)
            if fnb == "bpkiShare":
                for b0 in (0, 17, 255):
                    c, _ = bp_wrap(lib, W, bytes([b0]) + key[1:], pwd, salt, 10000)
                    res.append(c)
                    if c == 0:
                        ctx.violation("bpkiShareWrap:bad-share-number-accepted", "share[0] = %d accepted" % b0, det)
            ctx.digest(repr([c != 0 for c in res]))
            lib.release()
            continue
        tag(ctx, "bpki:pwd-len:%s" % ("0" if pl == 0 else "64" if pl == 64 else "1..63"), "bpki:salt:" + saltk,
            "bpki:iter:%s" % ("10000" if it == 10000 else ">10000"))
        code, epki = bp_wrap(lib, W, key, pwd, salt, it)
        if code != 0:
            ctx.violation("%s:valid-refused:klen=%d" % (W, klen), errname(code), det)
            ctx.digest(code)
            lib.release()
            continue
        det["epki"] = epki
        cu, got = bp_unwrap(lib, U, epki, pwd)
        n_eval += 2
        if cu != 0 or got != key:
            ctx.violation("%s:roundtrip-differs:klen=%d" % (U, klen), "%s, got %r" % (errname(cu), got), det)
        dg = [epki, cu]
        if op == "rt":
            wrongs = {"bit": bytes([pwd[0] ^ 1]) + pwd[1:] if pwd else b"\x01", "trunc": pwd[:-1] if pwd else b"\x02",
                      "ext": pwd + b"\x01", "ext0": pwd + b"\x00", "empty": b"" if pwd else b"\xff"}
            for lab, wp in wrongs.items():
                if hmac_equiv(wp, pwd):
                    continue        # the same HMAC key: not a different password
                c, out, untouched = bp_unwrap_direct(lib, U, epki, wp, klen)
                n_eval += 1
                dg.append(c != 0)
                if c == 0 or out == key or (out is not None and key[1:] in out):
                    ctx.violation("%s:wrong-password-accepted:%s" % (U, lab), "wrong password: %s, output %r" % (errname(c), out),
                                  dict(det, wrong_pwd=wp))
                elif not untouched:
                    ctx.violation("%s:wrong-password-output-written:%s" % (U, lab), "output buffer modified although an error is returned",
                                  dict(det, wrong_pwd=wp, out=out))
            # wrong container type
            c, out, _ = bp_unwrap_direct(lib, other, epki, pwd, klen)
            n_eval += 1
            dg.append(c != 0)
            if c == 0:
                ctx.violation("%s:wrong-container-type-accepted" % other, "a %s container opened" % fnb[4:], det)
        else:
            for j in range(len(epki)):
                for b in rr.sample(range(8), bits):
                    if j % FLIP_PARTS != part:
                        continue
                    alt = bytearray(epki)
                    alt[j] ^= 1 << b
                    c, out, _ = bp_unwrap_direct(lib, U, bytes(alt), pwd, klen)
                    n_eval += 1
                    dg.append(c != 0)
                    if c == 0:
                        ctx.violation("%s:altered-octet-accepted:%s" % (U, "edata" if j >= len(epki) - (klen + 30) else "header"),
                                      "container with octet %d bit %d flipped opened, key %s" % (j, b, "unchanged" if out == key else "different"),
                                      dict(det, altered=bytes(alt), octet=j, bit=b, out=out))
                    lib.release()
        ctx.count(n_eval, "bpki:calls")
        ctx.digest(*[x if isinstance(x, (bytes, int)) else bool(x) for x in dg])
        lib.release()


# ---------------------------------------------------------------------------
# jobs
# ---------------------------------------------------------------------------

def jobs(tier, scale=1.0):
    q = tier == "quick"
    out = []

    def add(unit, of, **kw):
        for k in range(of):
            p = dict(kw, chunk=k, of=of)
            if scale != 1.0:
                p["scale"] = scale
            out.append({"unit": "c17:" + unit, "params": p})
    add("unit_cvc_content", 6)
    nchain = max(1, int(round((1 if q else 6) * scale)))
    add("unit_cvc_chain", 16, chains=nchain, bits=1 if q else 3)
    add("unit_sm", 8 if q else 16)
    add("unit_bpki", 16, bits=1 if q else 3)
    return out


REQUIRED = tuple("cvc:roundtrip:klen=%d" % k for k in KEYLENS) + \
    ("cvc:name-len:8/8", "cvc:name-len:12/12", "cvc:name-len:8/12", "cvc:bad:name-len:7/8", "cvc:bad:name-len:12/13",
     "cvc:bad:date:from>until", "cvc:bad:date:feb29-nonleap", "cvc:bad:date:nondigit", "cvc:bad:pubkey:offcurve",
     "cvc:hat:eid=0,esign=0", "cvc:hat:eid=nz,esign=nz", "cvc:self-signed", "cvc:chain:depth=1", "cvc:chain:depth=2",
     "cvc:chain:depth=3", "cvc:variant:authority", "cvc:variant:from-before-issuer", "cvc:variant:from-after-issuer",
     "cvc:variant:until-after-issuer", "cvc:chain-evaluations",
     "sm:Lc=none,Le=none", "sm:Lc=short,Le=short", "sm:Lc=ext,Le=ext2", "sm:Lc=none,Le=ext3", "sm:Lc=short,Le=none",
     "sm:Lc=ext,Le=none", "sm:Lc=none,Le=short", "sm:pairs=1", "sm:pairs=12", "sm:rdf=65536", "sm:rdf=256", "sm:misc",
     "bpki:rt:Privkey:24", "bpki:rt:Privkey:64", "bpki:rt:Share:17", "bpki:rt:Share:33", "bpki:flip:Privkey:32",
     "bpki:flip:Share:25", "bpki:args:Privkey:24", "bpki:pwd-len:0", "bpki:pwd-len:64", "bpki:salt:zero")


def main(run):
    js = [dict(j, cfg="asan64") for j in jobs(run.tier)]
    if run.tier != "quick":
        js += [dict(j, cfg="asan32") for j in jobs("quick", 0.34)]
    run.run_jobs(js)
    return run.finish(
        rule="one case = one scenario: a certificate content (roundtrip / refusal), a certificate chain with every "
             "octet of every certificate altered, an SM dialogue of 1..12 command/response pairs with every protected "
             "octet altered and the parity rules probed, a key/share container with wrong passwords or every octet altered; "
             "the calls inside a scenario are counted in the *-evaluations / *-calls classes",
        assumptions=[
            "signature validity of a certificate body is decided by bignVerify / bign96Verify on the hash of the body "
            "(belt-hash for 24/32-octet keys, bash384/bash512 for 48/64)",
            "the chain model follows the header text: only the start of validity must lie in the issuer's window",
            "an altered certificate must be rejected when it is verified with the issuer key (Unwrap with key, Val, Val2); "
            "Unwrap without a key is not judged",
            "SM: out of step by one = wrong parity = refused; out of step by two is not detected by design (the MAC does "
            "not cover the counter) and is not tested; replay at the same counter is not claimed",
            "bpki iteration counts below 10000 are refused by Wrap (header); tampered iteration counts are bounded by "
            "keeping the original count below 2^15",
            "the standard RNG is never initialised, so btokCVCWrap signs deterministically"],
        min_eval=500, required_classes=REQUIRED)
