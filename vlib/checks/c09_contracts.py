"""C09 argument contracts: the declarative table.

One row per err_t-returning high-level public function.  A row is `build(E, r) -> call`:

    call = {"args":  [argument descriptors in prototype order]   -- a FULLY VALID call on exact-size buffers
            "cases": [violations]}                                -- each moves ONE argument out of its documented domain

Argument descriptors (materialised by c09_args.materialise on fresh mallocs):
    IN(name, bytes)            input buffer of exactly len(bytes) octets
    OUT(name, size)            output buffer of exactly size octets, canary-filled
    IO(name, bytes)            in/out buffer
    V(name, int)               scalar (size_t / u32 / tm_time_t) or a literal pointer value (0 = null)
    FN(name, symbol|None)      address of a library function (gen_i = brngHMACStepR) or of a Python callback
    RNGST(name, key, iv)       state of brngHMAC started on (key, iv): a deterministic gen_i tape
    SZP(name, int)             size_t* in/out
    AT(name, base, off)        pointer into another argument's buffer (deliberate overlap)
    STRUCT(name, image, ptrs)  structure image with pointers to other (hidden) arguments patched in

Violations: C(arg, cls, mutation, expected class(es), header quote, kind) -- the expected classes are transcribed
from the \\expect{ERR_...} clause quoted next to them; "ANY" = the header promises an error without naming the class.
"""
import ctypes, copy
import itertools as _it
_alt_counter = _it.count()


def _alternate():
    return next(_alt_counter) % 2 == 0


from ..core import Harness
from ..bee2 import errcode, errname

SIZE_MAX = 2 ** 64 - 1
U32_MAX = 2 ** 32 - 1


class Skip(Exception):
    pass


# ---------------------------------------------------------------------------
# descriptors
# ---------------------------------------------------------------------------

def IN(n, data, hid=False):
    return {"k": "in", "n": n, "data": bytes(data), "hid": hid}


def OUT(n, size, hid=False):
    return {"k": "out", "n": n, "size": size, "hid": hid}


def IO(n, data, hid=False):
    return {"k": "io", "n": n, "data": bytes(data), "hid": hid}


def V(n, v):
    return {"k": "val", "n": n, "v": v}


def FN(n, sym):
    return {"k": "fn", "n": n, "sym": sym}


def RNGST(n, key, iv, hid=False):
    return {"k": "rngst", "n": n, "key": bytes(key), "iv": bytes(iv), "hid": hid}


def SZP(n, v):
    return {"k": "szp", "n": n, "v": v}


def AT(n, base, off, outsize=None):
    return {"k": "at", "n": n, "base": base, "off": off, "outsize": outsize}


def STRUCT(n, data, ptrs=(), out=False, hid=False):
    return {"k": "struct", "n": n, "data": bytes(data), "ptrs": list(ptrs), "out": out, "hid": hid}


def PREP(n, f, desc, outsize=None):
    return {"k": "prep", "n": n, "f": f, "desc": desc, "outsize": outsize}


def clone(args):
    out = []
    for a in args:
        b = dict(a)
        if "ptrs" in b:
            b["ptrs"] = list(b["ptrs"])
        out.append(b)
    return out


def put(args, new, name=None):
    name = name or new["n"]
    for i, a in enumerate(args):
        if a["n"] == name:
            new = dict(new)
            new["n"] = name
            if a.get("hid"):
                new["hid"] = True
            args[i] = new
            return
    raise Harness("no argument %s" % name)


def arg(args, name):
    for a in args:
        if a["n"] == name:
            return a
    raise Harness("no argument %s" % name)


def describe(args):
    out = []
    for a in args:
        k = a["k"]
        if k == "val":
            out.append([a["n"], a["v"]])
        elif k in ("in", "io"):
            d = a["data"]
            out.append([a["n"], "%s[%d]" % (k, len(d)), d[:48].hex()])
        elif k == "out":
            out.append([a["n"], "out[%d]" % a["size"]])
        elif k == "fn":
            out.append([a["n"], "fn:%s" % a["sym"]])
        elif k == "at":
            out.append([a["n"], "%s%+d" % (a["base"], a["off"])])
        elif k == "szp":
            out.append([a["n"], "size_t*=%d" % a["v"]])
        elif k == "struct":
            out.append([a["n"], "struct[%d]" % len(a["data"]), a["data"][:48].hex()])
        elif k == "prep":
            out.append([a["n"], "prepared:" + a["desc"]])
        else:
            out.append([a["n"], k])
    return out


# mutations ------------------------------------------------------------------

def m_val(name, v):
    return lambda args: put(args, V(name, v))


def m_in(name, data):
    return lambda args: put(args, IN(name, data))


def m_many(*ms):
    def f(args):
        for m in ms:
            m(args)
    return f


def C(arg_, cls, mut, expect, quote, kind="domain", show=None, secret=None, **kw):
    if isinstance(expect, str):
        expect = (expect,)
    d = {"arg": arg_, "cls": str(cls), "mut": mut, "expect": set(expect), "quote": quote, "kind": kind,
         "show": show, "secret": secret}
    d.update(kw)
    return d


# callbacks ------------------------------------------------------------------

GEN = ctypes.CFUNCTYPE(None, ctypes.c_void_p, ctypes.c_size_t, ctypes.c_void_p)


def _gen_zero(buf, count, state):
    ctypes.memset(buf, 0, count)


def _gen_ff(buf, count, state):
    ctypes.memset(buf, 0xFF, count)


_CB = {"py:gen_zero": GEN(_gen_zero), "py:gen_ff": GEN(_gen_ff)}


def fnaddr(lib, sym):
    if sym is None or sym == 0:
        return 0
    if sym in _CB:
        return ctypes.cast(_CB[sym], ctypes.c_void_p).value
    return lib.addr(sym)


# ---------------------------------------------------------------------------
# environment: cached valid objects made by the library itself
# ---------------------------------------------------------------------------

def rb(r, n):
    return bytes(r.getrandbits(8) for _ in range(n))


# The deterministic gen_i tape is the library's brngHMACStepR.  (brngCTRStepR is not suitable: by its documentation it mixes
# the *previous content* of the output buffer into the stream, and callers such as bignIdSign hand it scratch memory, so the
# tape would depend on heap garbage and on the word size.)
GEN_SYM = "brngHMACStepR"


def start_gen(lib, key, iv):
    st = lib.alloc(lib.brngHMAC_keep())
    lib.brngHMACStart(st, lib.mk(key), len(key), lib.mk(iv), len(iv))
    return st


class Env:
    def __init__(self, lib, base):
        self.lib = lib
        self.base = base
        self.cache = {}
        for name, ret, args_ in (("bignParamsGen", "u", "pffp"),):
            if name not in lib.protos:
                lib.declare(name, ret, args_)

    def memo(self, key, f):
        if key not in self.cache:
            self.cache[key] = f()
            self.lib.release()
        return self.cache[key]

    def call_ok(self, fn, *a):
        ret = getattr(self.lib, fn)(*a)
        if ret != 0:
            raise Harness("setup: %s returned %s" % (fn, errname(ret)))

    def rng_args(self, r, name="rng"):
        """(gen_i, state) pair: the library's brngHMACStepR on a fresh deterministic tape"""
        return [FN(name, GEN_SYM), RNGST(name + "_state", rb(r, 32), rb(r, 32))]

    def live_rng(self, r):
        lib = self.lib
        return lib.addr(GEN_SYM), start_gen(lib, rb(r, 32), rb(r, 32))


class Row:
    def __init__(self, build, every=1):
        self.build, self.every = build, every      # every: the row takes part in every k-th repetition only


ROWS = {}
NO_VALID = {"bignParamsGen"}      # rows for which no valid call can be formed (documented violation only)


def row(name, every=1):
    def deco(f):
        ROWS[name] = Row(f, every)
        return f
    return deco


# ===========================================================================
# belt.h
# ===========================================================================

Q_KEYLEN = "belt.h \\expect{ERR_BAD_INPUT} len == 16 || len == 24 || len == 32"
BAD_KEYLENS = (0, 1, 15, 17, 23, 25, 31, 33, 64, SIZE_MAX)


def keylen_cases(lenname="len", bufname="key", quote=Q_KEYLEN, expect="ERR_BAD_INPUT", vals=BAD_KEYLENS):
    out = []
    for v in vals:
        # the key buffer has exactly v octets when that can be allocated, 32 otherwise (length-only rejection)
        n = v if v <= 4096 else 32
        out.append(C(lenname, v, m_many(m_val(lenname, v), m_in(bufname, bytes((i * 7 + 1) & 255 for i in range(n)))),
                     expect, quote, "length"))
    return out


def count_cases(vals, quote, countname="count", bufs=(("dest", "out", 0), ("src", "in", 0)), expect="ERR_BAD_INPUT",
                argname=None):
    """bufs: (name, in|out, extra) -> buffer of v + extra octets"""
    out = []
    for v in vals:
        ms = [m_val(countname, v)]
        for bn, kind, extra in bufs:
            n = max(0, v + extra) if v <= 1 << 20 else 32
            ms.append((lambda bn=bn, n=n: (lambda args: put(args, OUT(bn, n))))() if kind == "out" else
                      m_in(bn, bytes((i * 5 + 3) & 255 for i in range(n))))
        out.append(C(argname or countname, v, m_many(*ms), expect, quote, "length"))
    return out


def _pick_klen(r):
    return r.choice((16, 24, 32))


def _mode_row(fn, mincount, step, with_iv, bad_counts, qcount):
    def build(E, r):
        klen = _pick_klen(r)
        count = r.choice([mincount, mincount + step, 48, 64] if mincount else [0, 1, 15, 16, 17, 33, 48])
        if count < mincount:
            count = mincount
        count -= (count % step) if step > 1 else 0
        args = [OUT("dest", count), IN("src", rb(r, count)), V("count", count), IN("key", rb(r, klen)), V("len", klen)]
        if with_iv:
            args.append(IN("iv", rb(r, 16)))
        cases = keylen_cases()
        if bad_counts:
            cases += count_cases(bad_counts, "belt.h %s \\expect{ERR_BAD_INPUT} %s" % (fn, qcount))
        return {"args": args, "cases": cases}
    return build


for _fn, _minc, _step, _iv, _bad, _q in (
        ("beltECBEncr", 16, 1, False, (0, 1, 15), "count >= 16"),
        ("beltECBDecr", 16, 1, False, (0, 1, 15), "count >= 16"),
        ("beltCBCEncr", 16, 1, True, (0, 1, 15), "count >= 16"),
        ("beltCBCDecr", 16, 1, True, (0, 1, 15), "count >= 16"),
        ("beltCFBEncr", 0, 1, True, (), ""),
        ("beltCFBDecr", 0, 1, True, (), ""),
        ("beltCTR", 0, 1, True, (), ""),
        ("beltBDEEncr", 16, 16, True, (0, 1, 15, 17, 31, 33, 47), "count % 16 == 0 && count >= 16"),
        ("beltBDEDecr", 16, 16, True, (0, 1, 15, 17, 31, 33, 47), "count % 16 == 0 && count >= 16"),
        ("beltSDEEncr", 32, 16, True, (0, 1, 15, 16, 17, 31, 33, 47, 49), "count % 16 == 0 && count >= 32"),
        ("beltSDEDecr", 32, 16, True, (0, 1, 15, 16, 17, 31, 33, 47, 49), "count % 16 == 0 && count >= 32")):
    ROWS[_fn] = Row(_mode_row(_fn, _minc, _step, _iv, _bad, _q))


@row("beltMAC")
def _belt_mac(E, r):
    klen, count = _pick_klen(r), r.choice((0, 1, 16, 33))
    return {"args": [OUT("mac", 8), IN("src", rb(r, count)), V("count", count), IN("key", rb(r, klen)), V("len", klen)],
            "cases": keylen_cases()}


def _aead_setup(E, r, wrapfn):
    lib = E.lib
    klen = _pick_klen(r)
    c1, c2 = r.choice((8, 9, 16, 17, 33, 64)), r.choice((0, 1, 16, 33))
    pt, ad, key, iv = rb(r, c1), rb(r, c2), rb(r, klen), rb(r, 16)
    d, m = lib.alloc(c1), lib.alloc(8)
    E.call_ok(wrapfn, d, m, lib.mk(pt), c1, lib.mk(ad), c2, lib.mk(key), klen, lib.mk(iv))
    ct, mac = lib.rd(d, c1), lib.rd(m, 8)
    lib.release()
    return klen, c1, c2, pt, ad, key, iv, ct, mac


def _aead_wrap_row(fn):
    def build(E, r):
        klen = _pick_klen(r)
        c1, c2 = r.choice((8, 9, 16, 17, 33, 64)), r.choice((0, 1, 16, 33))
        args = [OUT("dest", c1), OUT("mac", 8), IN("src1", rb(r, c1)), V("count1", c1), IN("src2", rb(r, c2)),
                V("count2", c2), IN("key", rb(r, klen)), V("len", klen), IN("iv", rb(r, 16))]
        q = "belt.h %s \\expect{ERR_BAD_INPUT} буферы dest и mac не пересекаются" % fn
        cases = keylen_cases()
        # mac inside dest (dest holds >= 8 octets), at the start / at the end / one octet in common
        cases.append(C("dest~mac", "mac-at-dest-start", lambda a: put(a, AT("mac", "dest", 0, 8)), "ERR_BAD_INPUT", q, "overlap"))
        cases.append(C("dest~mac", "mac-at-dest-end", lambda a, c1=c1: put(a, AT("mac", "dest", c1 - 8, 8)), "ERR_BAD_INPUT", q, "overlap"))

        def one_common(a, c1=c1):
            # arena: dest = arena[0:c1], mac = arena[c1-1:c1+7]
            put(a, OUT("arena", c1 + 7), "dest")
            put(a, AT("mac", "dest", c1 - 1, 8))
        cases.append(C("dest~mac", "one-octet-common", one_common, "ERR_BAD_INPUT", q, "overlap"))
        return {"args": args, "cases": cases}
    return build


def _aead_unwrap_row(fn, wrapfn):
    def build(E, r):
        klen, c1, c2, pt, ad, key, iv, ct, mac = _aead_setup(E, r, wrapfn)
        args = [OUT("dest", c1), IN("src1", ct), V("count1", c1), IN("src2", ad), V("count2", c2), IN("mac", mac),
                IN("key", key), V("len", klen), IN("iv", iv)]
        cases = keylen_cases()
        q = ("belt.h %s: 'Если целостность не нарушена, то данные src1 расшифровываются в буфер dest' / "
             "\\return ... код ошибки в противном случае" % fn)
        fl = lambda b, i, bit=1: b[:i] + bytes([b[i] ^ bit]) + b[i + 1:]
        i = r.randrange(8)
        cases.append(C("mac", "bit-flipped", m_in("mac", fl(mac, i, 1 << r.randrange(8))), "ANY", q, "release", secret=pt))
        j = r.randrange(c1)
        cases.append(C("src1", "bit-flipped", m_in("src1", fl(ct, j, 1 << r.randrange(8))), "ANY", q, "release", secret=pt))
        if c2:
            cases.append(C("src2", "bit-flipped", m_in("src2", fl(ad, r.randrange(c2), 0x80)), "ANY", q, "release", secret=pt))
        cases.append(C("iv", "bit-flipped", m_in("iv", fl(iv, r.randrange(16), 0x01)), "ANY", q, "release", secret=pt))
        k2 = fl(key, r.randrange(klen), 0x10)
        cases.append(C("key", "other-key", m_in("key", k2), "ANY", q, "release", secret=pt))
        return {"args": args, "cases": cases}
    return build


ROWS["beltDWPWrap"] = Row(_aead_wrap_row("beltDWPWrap"))
ROWS["beltCHEWrap"] = Row(_aead_wrap_row("beltCHEWrap"))
ROWS["beltDWPUnwrap"] = Row(_aead_unwrap_row("beltDWPUnwrap", "beltDWPWrap"))
ROWS["beltCHEUnwrap"] = Row(_aead_unwrap_row("beltCHEUnwrap", "beltCHEWrap"))


@row("beltKWPWrap")
def _kwp_wrap(E, r):
    klen, count = _pick_klen(r), r.choice((16, 17, 24, 32, 33, 64))
    nullhdr = _alternate()
    args = [OUT("dest", count + 16), IN("src", rb(r, count)), V("count", count),
            V("header", 0) if nullhdr else IN("header", rb(r, 16)), IN("key", rb(r, klen)), V("len", klen)]
    cases = keylen_cases()
    cases += count_cases((0, 1, 15), "belt.h beltKWPWrap \\expect{ERR_BAD_INPUT} count >= 16",
                         bufs=(("dest", "out", 16), ("src", "in", 0)))
    return {"args": args, "cases": cases}


@row("beltKWPUnwrap")
def _kwp_unwrap(E, r):
    lib = E.lib
    klen, count = _pick_klen(r), r.choice((16, 17, 24, 32, 33, 64))
    nullhdr = _alternate()
    src, key, hdr = rb(r, count), rb(r, klen), (bytes(16) if nullhdr else rb(r, 16))
    d = lib.alloc(count + 16)
    E.call_ok("beltKWPWrap", d, lib.mk(src), count, lib.mk(hdr), lib.mk(key), klen)
    tok = lib.rd(d, count + 16)
    lib.release()
    args = [OUT("dest", count), IN("src", tok), V("count", count + 16),
            V("header", 0) if nullhdr else IN("header", hdr), IN("key", key), V("len", klen)]
    cases = keylen_cases()
    # dest has count - 16 octets: for count < 16 an empty buffer
    cases += count_cases((0, 1, 16, 17, 31), "belt.h beltKWPUnwrap \\expect{ERR_BAD_INPUT} count >= 32",
                         bufs=(("dest", "out", -16), ("src", "in", 0)))
    q = "belt.h beltKWPUnwrap: \\return ERR_OK, если защита успешно снята, и код ошибки в противном случае"
    fl = lambda b, i, bit=1: b[:i] + bytes([b[i] ^ bit]) + b[i + 1:]
    cases.append(C("src", "bit-flipped", m_in("src", fl(tok, r.randrange(len(tok)), 1 << r.randrange(8))), "ANY", q,
                   "release", secret=src))
    cases.append(C("src", "last-octet-flipped", m_in("src", fl(tok, len(tok) - 1, 0x80)), "ANY", q, "release", secret=src))
    cases.append(C("header", "other-header", m_in("header", fl(hdr, r.randrange(16), 0x04)), "ANY", q, "release", secret=src))
    cases.append(C("key", "other-key", m_in("key", fl(key, r.randrange(klen), 0x20)), "ANY", q, "release", secret=src))
    if count > 16:
        # a token cut by one octet is a different (invalid) token
        cases.append(C("count", "truncated-token", m_many(m_val("count", count + 15), m_in("src", tok[:-1]),
                                                          lambda a: put(a, OUT("dest", count - 1))), "ANY", q, "release", secret=src))
    return {"args": args, "cases": cases}


def _fmt_row(fn):
    def build(E, r):
        klen = _pick_klen(r)
        mod = r.choice((2, 3, 10, 16, 256, 257, 1000, 49667, 65535, 65536))
        count = r.choice((2, 3, 10, 21, 600 if r.random() < 0.2 else 7))
        src = b"".join(r.randrange(mod).to_bytes(2, "little") for _ in range(count))
        nulliv = r.random() < 0.25
        args = [OUT("dest", 2 * count), V("mod", mod), IN("src", src), V("count", count), IN("key", rb(r, klen)),
                V("len", klen), V("iv", 0) if nulliv else IN("iv", rb(r, 16))]
        h = "belt.h %s " % fn
        cases = keylen_cases(quote=h + "\\expect{ERR_BAD_INPUT} len == 16 || len == 24 || len == 32")
        qm = h + "\\expect{ERR_BAD_INPUT} 2 <= mod && mod <= 65536"
        for m in (0, 1, 65537, 65538, 1 << 31, U32_MAX):
            # src stays a string over {0, 1}: inside every alphabet the function could think of
            cases.append(C("mod", m, m_many(m_val("mod", m), m_in("src", bytes(2 * count))), "ERR_BAD_INPUT", qm, "alphabet"))
        qc = h + "\\expect{ERR_BAD_INPUT} 2 <= count"
        for c in (0, 1):
            cases.append(C("count", c, m_many(m_val("count", c), m_in("src", src[:2 * c]), lambda a, c=c: put(a, OUT("dest", 2 * c))),
                           "ERR_BAD_INPUT", qc, "count"))
        qn = h + "\\expect{ERR_NOT_IMPLEMENTED} count <= 600"
        for c in (601, 602, 1000, 4096):
            s2 = b"".join(r.randrange(mod).to_bytes(2, "little") for _ in range(c))
            cases.append(C("count", c, m_many(m_val("count", c), m_in("src", s2), lambda a, c=c: put(a, OUT("dest", 2 * c))),
                           "ERR_NOT_IMPLEMENTED", qn, "count"))
        # a length that no buffer can have: rejected on the length alone (either listed class)
        cases.append(C("count", SIZE_MAX, m_val("count", SIZE_MAX), ("ERR_NOT_IMPLEMENTED", "ERR_BAD_INPUT"), qn, "count"))
        # both violated: the header orders nothing -> either class
        cases.append(C("mod,count", "0,601", m_many(m_val("mod", 0), m_val("count", 601), m_in("src", bytes(1202)),
                                                    lambda a: put(a, OUT("dest", 1202))), ("ERR_BAD_INPUT", "ERR_NOT_IMPLEMENTED"),
                       qm + " / " + qn, "alphabet"))
        cases.append(C("mod,count", "65537,1", m_many(m_val("mod", 65537), m_val("count", 1), m_in("src", bytes(2)),
                                                      lambda a: put(a, OUT("dest", 2))), "ERR_BAD_INPUT", qm + " / " + qc, "alphabet"))
        qo = h + "\\expect{ERR_BAD_INPUT} если iv ненулевой, то буферы iv и [count]dest не пересекаются"
        if 2 * count >= 16:
            cases.append(C("iv~dest", "iv-at-dest-start", lambda a: put(a, AT("iv", "dest", 0)), "ERR_BAD_INPUT", qo, "overlap"))
            cases.append(C("iv~dest", "iv-at-dest-end", lambda a: put(a, AT("iv", "dest", 2 * count - 16)), "ERR_BAD_INPUT", qo, "overlap"))

        def one_common(a):
            put(a, OUT("arena", 2 * count + 15), "dest")
            put(a, AT("iv", "dest", 2 * count - 1))
        cases.append(C("iv~dest", "one-octet-common", one_common, "ERR_BAD_INPUT", qo, "overlap"))
        return {"args": args, "cases": cases}
    return build


ROWS["beltFMTEncr"] = Row(_fmt_row("beltFMTEncr"))
ROWS["beltFMTDecr"] = Row(_fmt_row("beltFMTDecr"))


@row("beltKRP")
def _krp(E, r):
    n = r.choice((16, 24, 32))
    m = r.choice([x for x in (16, 24, 32) if x <= n])
    args = [OUT("dest", m), V("m", m), IN("src", rb(r, n)), V("n", n), IN("level", rb(r, 12)), IN("header", rb(r, 16))]
    h = "belt.h beltKRP \\expect{ERR_BAD_INPUT} "
    cases = []
    for v in BAD_KEYLENS:
        sz = v if v <= 4096 else 32
        # n bad (m stays <= n when possible is irrelevant: either way ERR_BAD_INPUT is the only listed class)
        cases.append(C("n", v, m_many(m_val("n", v), m_in("src", bytes((i + 1) & 255 for i in range(sz)))), "ERR_BAD_INPUT",
                       h + "n == 16 || n == 24 || n == 32", "length"))
        cases.append(C("m", v, m_many(m_val("m", v), lambda a, sz=sz: put(a, OUT("dest", sz)), m_val("n", 32),
                                      m_in("src", bytes(range(32)))), "ERR_BAD_INPUT", h + "m == 16 || m == 24 || m == 32", "length"))
    for mm, nn in ((24, 16), (32, 16), (32, 24)):
        cases.append(C("m>n", "%d>%d" % (mm, nn), m_many(m_val("m", mm), m_val("n", nn), lambda a, mm=mm: put(a, OUT("dest", mm)),
                                                         m_in("src", bytes(range(nn)))), "ERR_BAD_INPUT", h + "m <= n", "length"))
    return {"args": args, "cases": cases}


@row("beltPBKDF2")
def _pbkdf2(E, r):
    pl, sl, it = r.choice((0, 1, 8, 33)), r.choice((0, 8, 16)), r.choice((1, 2, 5))
    args = [OUT("key", 32), IN("pwd", rb(r, pl)), V("pwd_len", pl), V("iter", it), IN("salt", rb(r, sl)), V("salt_len", sl)]
    return {"args": args, "cases": [C("iter", 0, m_val("iter", 0), "ERR_BAD_INPUT",
                                      "belt.h beltPBKDF2 \\expect{ERR_BAD_INPUT} iter != 0", "count")]}


# ===========================================================================
# bash.h, brng.h
# ===========================================================================

@row("bashHash")
def _bash(E, r):
    l = r.choice(range(16, 257, 16))
    count = r.choice((0, 1, 33, 200))
    args = [OUT("hash", l // 4), V("l", l), IN("src", rb(r, count)), V("count", count)]
    # the header spells the class ERR_BAD_PARAM; err.h defines no such code, only ERR_BAD_PARAMS (documentation typo)
    q = "bash.h bashHash \\expect{ERR_BAD_PARAM} [sic: err.h has only ERR_BAD_PARAMS] l > 0 && l % 16 == 0 && l <= 256"
    cases = []
    for v in (0, 1, 8, 15, 17, 24, 100, 255, 257, 264, 272, 512, 1 << 32, SIZE_MAX - 15, SIZE_MAX):
        n = v // 4 if v <= 4096 else 64
        cases.append(C("l", v, m_many(m_val("l", v), lambda a, n=n: put(a, OUT("hash", n))), "ERR_BAD_PARAMS", q, "level"))
    return {"args": args, "cases": cases}


@row("brngHMACRand")
def _brng_hmac(E, r):
    count, kl, il = r.choice((1, 31, 32, 33, 96)), r.choice((0, 16, 32, 65)), r.choice((1, 32, 64, 65, 100))
    args = [OUT("buf", count), V("count", count), IN("key", rb(r, kl)), V("key_len", kl), IN("iv", rb(r, il)), V("iv_len", il)]
    q = "brng.h brngHMACRand \\expect{ERR_BAD_INPUT} Буферы buf и iv не пересекаются"
    cases = []

    def same(a):
        # one arena holding both: buf = arena[0:count], iv = arena[0:il]
        put(a, IO("arena", rb(r, max(count, il))), "buf")
        put(a, AT("iv", "buf", 0))
    cases.append(C("buf~iv", "same-start", same, "ERR_BAD_INPUT", q, "overlap"))

    def one(a):
        put(a, IO("arena", bytes((i * 3 + 1) & 255 for i in range(count + il - 1))), "buf")
        put(a, AT("iv", "buf", count - 1))
    cases.append(C("buf~iv", "one-octet-common", one, "ERR_BAD_INPUT", q, "overlap"))

    def one_front(a):
        # iv first, buf starting at iv's last octet
        put(a, IN("arena", bytes((i * 3 + 2) & 255 for i in range(count + il - 1))), "iv")
        put(a, AT("buf", "iv", il - 1, count))
    cases.append(C("buf~iv", "buf-starts-in-iv", one_front, "ERR_BAD_INPUT", q, "overlap"))
    return {"args": args, "cases": cases}


# ===========================================================================
# botp.h
# ===========================================================================

TIME_ERR = -1


@row("botpHOTPRand")
def _hotp_rand(E, r):
    digit, kl = r.choice((6, 7, 8)), r.choice((16, 32, 33))
    args = [OUT("otp", digit + 1), V("digit", digit), IN("key", rb(r, kl)), V("key_len", kl), IN("ctr", rb(r, 8))]
    q = "botp.h botpHOTPRand \\expect{ERR_BAD_PARAMS} 6 <= digit && digit <= 8"
    cases = []
    for v in (0, 1, 4, 5, 9, 10, 11, 100, SIZE_MAX):
        n = v + 1 if v <= 4096 else 16
        cases.append(C("digit", v, m_many(m_val("digit", v), lambda a, n=n: put(a, OUT("otp", n))), "ERR_BAD_PARAMS", q, "digit"))
    return {"args": args, "cases": cases}


def _wrong_otp(otp, r):
    i = r.randrange(len(otp))
    c = (otp[i] - 48 + 1 + r.randrange(9)) % 10 + 48
    return otp[:i] + bytes([c]) + otp[i + 1:]


def _bad_otp_lens(otp):
    out = []
    for n in (0, 1, 4, 5, 9, 10, 12):
        out.append((n, (otp * 3)[:n]))
    return out


@row("botpHOTPVerify")
def _hotp_verify(E, r):
    lib = E.lib
    digit, kl = r.choice((6, 7, 8)), r.choice((16, 32, 33))
    key, ctr = rb(r, kl), rb(r, 8)
    o = lib.alloc(digit + 1)
    E.call_ok("botpHOTPRand", o, digit, lib.mk(key), kl, lib.mk(ctr))
    otp = lib.rd(o, digit)
    lib.release()
    args = [IN("otp", otp + b"\0"), IN("key", key), V("key_len", kl), IN("ctr", ctr)]
    q1 = "botp.h botpHOTPVerify \\expect{ERR_BAD_PWD} 6 <= digit && digit <= 8 (digit = strLen(otp))"
    q2 = "botp.h botpHOTPVerify \\expect{ERR_BAD_PWD} Пароль otp совпадает с построенным"
    cases = [C("strlen(otp)", n, m_in("otp", s + b"\0"), "ERR_BAD_PWD", q1, "digit") for n, s in _bad_otp_lens(otp)]
    cases.append(C("otp", "wrong-digit", m_in("otp", _wrong_otp(otp, r) + b"\0"), "ERR_BAD_PWD", q2, "auth"))
    c2 = bytes([ctr[0] ^ 1]) + ctr[1:]
    cases.append(C("ctr", "other-counter", m_in("ctr", c2), "ERR_BAD_PWD", q2, "auth", soft=True))
    return {"args": args, "cases": [c for c in cases if not c.get("soft")]}


def _tm(r):
    return r.choice((0, 1, 59, 1449165288 // 60, 2 ** 31, 2 ** 40 + r.randrange(1000)))


@row("botpTOTPRand")
def _totp_rand(E, r):
    digit, kl = r.choice((6, 7, 8)), r.choice((16, 32, 33))
    args = [OUT("otp", digit + 1), V("digit", digit), IN("key", rb(r, kl)), V("key_len", kl), V("t", _tm(r))]
    q = "botp.h botpTOTPRand \\expect{ERR_BAD_PARAMS} 6 <= digit && digit <= 8"
    cases = []
    for v in (0, 1, 4, 5, 9, 10, 11, 100, SIZE_MAX):
        n = v + 1 if v <= 4096 else 16
        cases.append(C("digit", v, m_many(m_val("digit", v), lambda a, n=n: put(a, OUT("otp", n))), "ERR_BAD_PARAMS", q, "digit"))
    cases.append(C("t", "TIME_ERR", m_val("t", TIME_ERR), "ERR_BAD_TIME", "botp.h botpTOTPRand \\expect{ERR_BAD_TIME} t != TIME_ERR", "time"))
    cases.append(C("digit,t", "9,TIME_ERR", m_many(m_val("digit", 9), m_val("t", TIME_ERR), lambda a: put(a, OUT("otp", 10))),
                   ("ERR_BAD_PARAMS", "ERR_BAD_TIME"), q + " / \\expect{ERR_BAD_TIME} t != TIME_ERR", "time"))
    return {"args": args, "cases": cases}


@row("botpTOTPVerify")
def _totp_verify(E, r):
    lib = E.lib
    digit, kl = r.choice((6, 7, 8)), r.choice((16, 32, 33))
    key, t = rb(r, kl), _tm(r)
    o = lib.alloc(digit + 1)
    E.call_ok("botpTOTPRand", o, digit, lib.mk(key), kl, t)
    otp = lib.rd(o, digit)
    lib.release()
    args = [IN("otp", otp + b"\0"), IN("key", key), V("key_len", kl), V("t", t)]
    q1 = "botp.h botpTOTPVerify \\expect{ERR_BAD_PWD} 6 <= digit && digit <= 8"
    q2 = "botp.h botpTOTPVerify \\expect{ERR_BAD_PWD} Пароль otp подошел"
    q3 = "botp.h botpTOTPVerify \\expect{ERR_BAD_TIME} t != TIME_ERR"
    cases = [C("strlen(otp)", n, m_in("otp", s + b"\0"), "ERR_BAD_PWD", q1, "digit") for n, s in _bad_otp_lens(otp)]
    cases.append(C("otp", "wrong-digit", m_in("otp", _wrong_otp(otp, r) + b"\0"), "ERR_BAD_PWD", q2, "auth"))
    cases.append(C("t", "TIME_ERR", m_val("t", TIME_ERR), "ERR_BAD_TIME", q3, "time"))
    cases.append(C("strlen(otp),t", "5,TIME_ERR", m_many(m_in("otp", otp[:5] + b"\0"), m_val("t", TIME_ERR)),
                   ("ERR_BAD_PWD", "ERR_BAD_TIME"), q1 + " / " + q3, "time"))
    return {"args": args, "cases": cases}


OCRA_BAD_SUITES = ("", "OCRA", "OCRA-1", "OCRA-1:", "OCRA-1:HOTP-HBELT-8", "OCRA-1:HOTP-HBELT-8:", "OCRA-2:HOTP-HBELT-8:QN08",
                   "ocra-1:HOTP-HBELT-8:QN08", "OCRA-1:HOTP-HBELT-8:C-QX08", "OCRA-1:HOTP-HBELT-8:QN8", "OCRA-1:HOTP-HBELT-8:QN08-",
                   "OCRA-1:HOTP-HBELT-8:QN08-T1N", "OCRA-1:HOTP-HBELT-8:QN08junk", "OCRA-1:HOTP-HBELT-8:QN08-PHBELT-SA13",
                   "OCRA-1:HOTP-HBELT-8:QN03", "OCRA-1:HOTP-HBELT-8:QN65", "OCRA-1:HOTP-HBELT-8:QN08-T61S",
                   "OCRA-1:HOTP-HBELT-8:QN08-T0M", "OCRA-1:HOTP-HBELT-:QN08", "OCRA-1:HOTP-HBELT-8:QN08-PHBELT-S064-T1M-X")


def _ocra_base(E, r):
    digit = r.choice((4, 6, 8, 9))
    use_c, use_p, use_s, use_t = (r.random() < 0.5 for _ in range(4))
    qt, qmax = r.choice("ANH"), r.choice((4, 8, 10, 32, 64))
    slen = r.choice((1, 20, 64, 512))
    suite = "OCRA-1:HOTP-HBELT-%d:%sQ%s%02d" % (digit, "C-" if use_c else "", qt, qmax)
    if use_p:
        suite += "-PHBELT"
    if use_s:
        suite += "-S%03d" % slen
    if use_t:
        suite += "-T" + r.choice(("1M", "30S", "1H", "59S", "48H"))
    kl = r.choice((16, 32, 40))
    qlen = r.choice((4, qmax, 2 * qmax, min(2 * qmax, qmax + 1)))
    alphabet = {"A": b"abcXYZ019", "N": b"0123456789", "H": b"0123456789ABCDEF"}[qt]
    q = bytes(r.choice(alphabet) for _ in range(qlen))
    # buffers the suite does not use are passed as null (the header makes them optional parameters)
    a = {"suite": suite, "digit": digit, "key": rb(r, kl), "q": q, "qmax": qmax, "use_t": use_t,
         "ctr": IN("ctr", rb(r, 8)) if use_c else V("ctr", 0), "p": IN("p", rb(r, 32)) if use_p else V("p", 0),
         "s": IN("s", rb(r, slen)) if use_s else V("s", 0), "t": _tm(r) if use_t else r.choice((0, TIME_ERR, 12345))}
    return a


def _ocra_cases(fn, b, r, first):
    h = "botp.h %s " % fn
    qf = h + "\\expect{ERR_BAD_FORMAT} Формат suite корректен"
    qp = h + "\\expect{ERR_BAD_PARAMS} 4 <= q_len && q_len <= 2 * q_max"
    qt = h + "\\expect{ERR_BAD_TIME} Если suite задает использование t, то t != TIME_ERR"
    cases = []
    for s in r.sample(OCRA_BAD_SUITES, 6):
        cases.append(C("suite", "malformed", m_in("suite", s.encode() + b"\0"), "ERR_BAD_FORMAT", qf, "identifier", show=s))
    for v in (0, 1, 3, 2 * b["qmax"] + 1, 2 * b["qmax"] + 2, 200, SIZE_MAX):
        n = v if v <= 4096 else 16
        cases.append(C("q_len", {0: 0, 1: 1, 3: 3, 200: 200, SIZE_MAX: "SIZE_MAX"}.get(v, "2qmax+%d" % (v - 2 * b["qmax"])),
                       m_many(m_val("q_len", v), m_in("q", (b"0123456789" * 30)[:n])), "ERR_BAD_PARAMS", qp, "count", show=v))
    if b["use_t"]:
        cases.append(C("t", "TIME_ERR", m_val("t", TIME_ERR), "ERR_BAD_TIME", qt, "time"))
        cases.append(C("q_len,t", "3,TIME_ERR", m_many(m_val("q_len", 3), m_in("q", b"123"), m_val("t", TIME_ERR)),
                       ("ERR_BAD_PARAMS", "ERR_BAD_TIME"), qp + " / " + qt, "time"))
    return cases


@row("botpOCRARand")
def _ocra_rand(E, r):
    b = _ocra_base(E, r)
    args = [OUT("otp", b["digit"] + 1), IN("suite", b["suite"].encode() + b"\0"), IN("key", b["key"]), V("key_len", len(b["key"])),
            IN("q", b["q"]), V("q_len", len(b["q"])), b["ctr"], b["p"], b["s"], V("t", b["t"])]
    return {"args": args, "cases": _ocra_cases("botpOCRARand", b, r, True)}


@row("botpOCRAVerify")
def _ocra_verify(E, r):
    lib = E.lib
    b = _ocra_base(E, r)

    def ptr(a):
        return lib.mk(a["data"]) if a["k"] == "in" else 0
    o = lib.alloc(b["digit"] + 1)
    E.call_ok("botpOCRARand", o, lib.cstr(b["suite"]), lib.mk(b["key"]), len(b["key"]), lib.mk(b["q"]), len(b["q"]),
              ptr(b["ctr"]), ptr(b["p"]), ptr(b["s"]), b["t"])
    otp = lib.rd(o, b["digit"])
    lib.release()
    args = [IN("otp", otp + b"\0"), IN("suite", b["suite"].encode() + b"\0"), IN("key", b["key"]), V("key_len", len(b["key"])),
            IN("q", b["q"]), V("q_len", len(b["q"])), b["ctr"], b["p"], b["s"], V("t", b["t"])]
    cases = _ocra_cases("botpOCRAVerify", b, r, False)
    q2 = "botp.h botpOCRAVerify \\expect{ERR_BAD_PWD} Пароль otp подошел"
    cases.append(C("otp", "wrong-digit", m_in("otp", _wrong_otp(otp, r) + b"\0"), "ERR_BAD_PWD", q2, "auth"))
    cases.append(C("otp", "one-digit-short", m_in("otp", otp[:-1] + b"\0"), "ERR_BAD_PWD", q2, "auth"))
    cases.append(C("otp", "one-digit-long", m_in("otp", otp + b"0\0"), "ERR_BAD_PWD", q2, "auth"))
    return {"args": args, "cases": cases}


# ===========================================================================
# bels.h
# ===========================================================================

BELS_LEN_Q = "\\expect{ERR_BAD_INPUT} len == 16 || len == 24 || len == 32"


def _bels_m(E, ln, num):
    def f():
        lib = E.lib
        o = lib.alloc(ln)
        E.call_ok("belsStdM", o, ln, num)
        return lib.rd(o, ln)
    return E.memo(("belsStdM", ln, num), f)


def _bels_len_cases(fn, resize):
    """resize(args, v): give every len-sized buffer the size that v implies"""
    out = []
    for v in BAD_KEYLENS:
        n = v if v <= 4096 else 32
        out.append(C("len", v, (lambda v=v, n=n: (lambda a: (put(a, V("len", v)), resize(a, n))))(), "ERR_BAD_INPUT",
                     "bels.h %s %s" % (fn, BELS_LEN_Q), "length"))
    return out


@row("belsStdM")
def _bels_stdm(E, r):
    ln, num = r.choice((16, 24, 32)), r.randrange(0, 17)
    args = [OUT("m", ln), V("len", ln), V("num", num)]
    cases = _bels_len_cases("belsStdM", lambda a, n: put(a, OUT("m", n)))
    for v in (17, 18, 255, 256, 1 << 32, SIZE_MAX):
        cases.append(C("num", v, m_val("num", v), "ERR_BAD_INPUT", "bels.h belsStdM \\expect{ERR_BAD_INPUT} 0 <= num <= 16", "identifier"))
    return {"args": args, "cases": cases}


@row("belsValM")
def _bels_valm(E, r):
    ln = r.choice((16, 24, 32))
    args = [IN("m", _bels_m(E, ln, r.randrange(17))), V("len", ln)]
    cases = _bels_len_cases("belsValM", lambda a, n: put(a, IN("m", bytes([3]) + bytes(max(0, n - 1)) if n else b"")))
    return {"args": args, "cases": cases}


def _reducibles(ln, r):
    """all m such that x^(8 len) + m(x) is reducible for an elementary reason: [(kind, octets)]"""
    a = r.randrange(1, 8 * ln)
    b = bytearray(ln)
    b[a // 8] |= 1 << (a % 8)
    return [("m=0: x^n", bytes(ln)),                              # x^n
            ("m=1: x^n+1", bytes([1]) + bytes(ln - 1)),            # divisible by x + 1
            ("m=x^a: x^n+x^a", bytes(b))]                         # divisible by x


@row("belsGenM0", every=3)
def _bels_genm0(E, r):
    ln = r.choice((16, 24, 32))
    args = [OUT("m0", ln), V("len", ln)] + E.rng_args(r, "ang")
    cases = _bels_len_cases("belsGenM0", lambda a, n: put(a, OUT("m0", n)))
    if ln == 16:
        q = "bels.h belsGenM0 \\expect{ERR_BAD_ANG} Генератор ang выдает неповторяющиеся ключи-кандидаты"
        cases.append(C("ang", "constant-zero", lambda a: put(a, FN("ang", "py:gen_zero")), "ERR_BAD_ANG", q, "generator"))
    return {"args": args, "cases": cases}


@row("belsGenMi", every=2)
def _bels_genmi(E, r):
    ln = r.choice((16, 24, 32))
    m0 = _bels_m(E, ln, 0)
    args = [OUT("mi", ln), V("len", ln), IN("m0", m0)] + E.rng_args(r, "ang")
    cases = _bels_len_cases("belsGenMi", lambda a, n: (put(a, OUT("mi", n)), put(a, IN("m0", (m0 * 3)[:n]))))
    for k, bad in _reducibles(ln, r):
        cases.append(C("m0", "reducible", m_in("m0", bad), "ERR_BAD_PUBKEY", "bels.h belsGenMi \\expect{ERR_BAD_PUBKEY} Ключ m0 корректен", "pubkey", show=k))
    q = "bels.h belsGenMi \\expect{ERR_BAD_ANG} Генератор ang корректен и выдает неповторяющиеся ключи-кандидаты"
    cases.append(C("ang", "null", m_many(lambda a: put(a, FN("ang", None)), m_val("ang_state", 0)), ("ERR_BAD_ANG", "ERR_BAD_INPUT"),
                   q + " / bels.h preamble: \\expect{ERR_BAD_INPUT} Все входные указатели действительны", "generator"))
    return {"args": args, "cases": cases}


@row("belsGenMid")
def _bels_genmid(E, r):
    ln, il = r.choice((16, 24, 32)), r.choice((0, 1, 8, 40))
    m0 = _bels_m(E, ln, 0)
    args = [OUT("mid", ln), V("len", ln), IN("m0", m0), IN("id", rb(r, il)), V("id_len", il)]
    cases = _bels_len_cases("belsGenMid", lambda a, n: (put(a, OUT("mid", n)), put(a, IN("m0", (m0 * 3)[:n]))))
    for k, bad in _reducibles(ln, r):
        cases.append(C("m0", "reducible", m_in("m0", bad), "ERR_BAD_PUBKEY", "bels.h belsGenMid \\expect{ERR_BAD_PUBKEY} Ключ m0 корректен", "pubkey", show=k))
    return {"args": args, "cases": cases}


def _thr_cases(fn, sizes, maxcount, count, thr):
    """threshold/count combinations; sizes(args, count) resizes the per-user arrays"""
    h = "bels.h %s \\expect{ERR_BAD_INPUT} 0 < threshold <= count%s" % (fn, " <= 16" if maxcount else "")
    combos = [(count, 0), (count, count + 1), (1, 2), (0, 0), (0, 1), (count, SIZE_MAX), (2, SIZE_MAX)]
    if maxcount:
        combos += [(17, 1), (17, 17), (18, 2), (255, 3)]
    out = []
    for c, t in combos:
        out.append(C("count,threshold", "%s,%s" % (c, "SIZE_MAX" if t == SIZE_MAX else t),
                     (lambda c=c, t=t: (lambda a: (put(a, V("count", c)), put(a, V("threshold", t)), sizes(a, c))))(),
                     "ERR_BAD_INPUT", h, "threshold"))
    return out


@row("belsShare")
def _bels_share(E, r):
    ln = r.choice((16, 24, 32))
    count = r.choice((1, 2, 3, 5, 16))
    thr = r.randrange(1, count + 1)
    m0 = _bels_m(E, ln, 0)
    nums = r.sample(range(1, 17), count)
    mi = b"".join(_bels_m(E, ln, k) for k in nums)
    s = rb(r, ln)
    args = [OUT("si", count * ln), V("count", count), V("threshold", thr), V("len", ln), IN("s", s), IN("m0", m0), IN("mi", mi)] + E.rng_args(r)

    def resize_len(a, n):
        put(a, OUT("si", count * n)), put(a, IN("s", (s * 3)[:n])), put(a, IN("m0", (m0 * 3)[:n])), put(a, IN("mi", (mi * 3)[:count * n]))
    cases = _bels_len_cases("belsShare", resize_len)

    def sizes(a, c):
        c = min(c, 300)
        put(a, OUT("si", c * ln)), put(a, IN("mi", (mi * 20)[:c * ln]))
    cases += _thr_cases("belsShare", sizes, False, count, thr)
    qp = "bels.h belsShare \\expect{ERR_BAD_PUBKEY} Открытые ключи m0, mi корректны и отличаются друг от друга"
    for k, bad in _reducibles(ln, r):
        cases.append(C("m0", "reducible", m_in("m0", bad), "ERR_BAD_PUBKEY", qp, "pubkey", show=k))
    j = r.randrange(count)
    for k, bad in _reducibles(ln, r):
        cases.append(C("mi", "reducible", m_in("mi", mi[:j * ln] + bad + mi[(j + 1) * ln:]), "ERR_BAD_PUBKEY", qp, "pubkey", show=k))
    if count >= 2:
        a_, b_ = r.sample(range(count), 2)
        dup = bytearray(mi)
        dup[a_ * ln:(a_ + 1) * ln] = mi[b_ * ln:(b_ + 1) * ln]
        cases.append(C("mi[i],mi[j]", "equal", m_in("mi", bytes(dup)), "ERR_BAD_PUBKEY", qp, "pubkey"))
    cases.append(C("mi[0],m0", "equal", m_in("mi", m0 + mi[ln:]), "ERR_BAD_PUBKEY", qp, "pubkey"))
    cases.append(C("rng", "null", m_many(lambda a: put(a, FN("rng", None)), m_val("rng_state", 0)), ("ERR_BAD_RNG", "ERR_BAD_INPUT"),
                   "bels.h belsShare \\expect{ERR_BAD_RNG} Генератор rng (с состоянием rng_state) корректен / bels.h preamble: "
                   "\\expect{ERR_BAD_INPUT} Все входные указатели действительны", "generator"))
    return {"args": args, "cases": cases}


def _share23(fn, with_rng):
    def build(E, r):
        ln = r.choice((16, 24, 32))
        count = r.choice((1, 2, 3, 5, 16))
        thr = r.randrange(1, count + 1)
        s = rb(r, ln)
        args = [OUT("si", count * (ln + 1)), V("count", count), V("threshold", thr), V("len", ln), IN("s", s)]
        if with_rng:
            args += E.rng_args(r)

        def resize_len(a, n):
            put(a, OUT("si", count * (n + 1))), put(a, IN("s", (s * 3)[:n]))
        cases = _bels_len_cases(fn, resize_len)
        cases += _thr_cases(fn, lambda a, c: put(a, OUT("si", min(c, 300) * (ln + 1))), True, count, thr)
        if with_rng:
            cases.append(C("rng", "null", m_many(lambda a: put(a, FN("rng", None)), m_val("rng_state", 0)), ("ERR_BAD_RNG", "ERR_BAD_INPUT"),
                           "bels.h %s \\expect{ERR_BAD_RNG} Генератор rng (с состоянием rng_state) корректен / bels.h preamble: "
                           "\\expect{ERR_BAD_INPUT} Все входные указатели действительны" % fn, "generator"))
        return {"args": args, "cases": cases}
    return build


ROWS["belsShare2"] = Row(_share23("belsShare2", True))
ROWS["belsShare3"] = Row(_share23("belsShare3", False))


@row("belsRecover")
def _bels_recover(E, r):
    lib = E.lib
    ln = r.choice((16, 24, 32))
    count = r.choice((1, 2, 3, 5))
    thr = r.randrange(1, count + 1)
    m0 = _bels_m(E, ln, 0)
    nums = r.sample(range(1, 17), count)
    mi = b"".join(_bels_m(E, ln, k) for k in nums)
    s = rb(r, ln)
    gen, st = E.live_rng(r)
    o = lib.alloc(count * ln)
    E.call_ok("belsShare", o, count, thr, ln, lib.mk(s), lib.mk(m0), lib.mk(mi), gen, st)
    si = lib.rd(o, count * ln)
    lib.release()
    args = [OUT("s", ln), V("count", count), V("len", ln), IN("si", si), IN("m0", m0), IN("mi", mi)]

    def resize_len(a, n):
        put(a, OUT("s", n)), put(a, IN("si", (si * 3)[:count * n])), put(a, IN("m0", (m0 * 3)[:n])), put(a, IN("mi", (mi * 3)[:count * n]))
    cases = _bels_len_cases("belsRecover", resize_len)
    qp = "bels.h belsRecover \\expect{ERR_BAD_PUBKEY} Открытые ключи m0, mi корректны и отличаются друг от друга"
    for k, bad in _reducibles(ln, r):
        cases.append(C("m0", "reducible", m_in("m0", bad), "ERR_BAD_PUBKEY", qp, "pubkey", show=k))
    j = r.randrange(count)
    for k, bad in _reducibles(ln, r):
        cases.append(C("mi", "reducible", m_in("mi", mi[:j * ln] + bad + mi[(j + 1) * ln:]), "ERR_BAD_PUBKEY", qp, "pubkey", show=k))
    if count >= 2:
        a_, b_ = r.sample(range(count), 2)
        dup = bytearray(mi)
        dup[a_ * ln:(a_ + 1) * ln] = mi[b_ * ln:(b_ + 1) * ln]
        cases.append(C("mi[i],mi[j]", "equal", m_in("mi", bytes(dup)), "ERR_BAD_PUBKEY", qp, "pubkey"))
    cases.append(C("mi[0],m0", "equal", m_in("mi", m0 + mi[ln:]), "ERR_BAD_PUBKEY", qp, "pubkey"))
    return {"args": args, "cases": cases}


@row("belsRecover2")
def _bels_recover2(E, r):
    lib = E.lib
    ln = r.choice((16, 24, 32))
    count = r.choice((1, 2, 3, 5, 16))
    thr = r.randrange(1, count + 1)
    s = rb(r, ln)
    o = lib.alloc(count * (ln + 1))
    E.call_ok("belsShare3", o, count, thr, ln, lib.mk(s))
    si = lib.rd(o, count * (ln + 1))
    lib.release()
    use = r.randrange(thr, count + 1)
    si = si[:use * (ln + 1)]
    args = [OUT("s", ln), V("count", use), V("len", ln), IN("si", si)]

    def resize_len(a, n):
        put(a, OUT("s", n)), put(a, IN("si", (si * 3)[:use * (n + 1)]))
    cases = _bels_len_cases("belsRecover2", resize_len)
    qp = ("bels.h belsRecover2 \\expect{ERR_BAD_PUBKEY} Номера открытых ключей, указанные в первых октетах частичных секретов, "
          "принадлежат интервалу {1, 2, ..., 16} и отличаются друг от друга")
    j = r.randrange(use)
    for v in (0, 17, 18, 128, 255):
        b = bytearray(si)
        b[j * (ln + 1)] = v
        cases.append(C("si[j][0]", v, m_in("si", bytes(b)), "ERR_BAD_PUBKEY", qp, "identifier"))
    if use >= 2:
        a_, b_ = r.sample(range(use), 2)
        b = bytearray(si)
        b[a_ * (ln + 1)] = si[b_ * (ln + 1)]
        cases.append(C("si[j][0]", "duplicate-number", m_in("si", bytes(b)), "ERR_BAD_PUBKEY", qp, "identifier"))
    return {"args": args, "cases": cases}


# ===========================================================================
# groups -> jobs
# ===========================================================================
# (name, rows, repetitions quick, repetitions thorough)

GROUPS = [
    ("belt-modes", ["beltECBEncr", "beltECBDecr", "beltCBCEncr", "beltCBCDecr", "beltCFBEncr", "beltCFBDecr", "beltCTR", "beltMAC"], 12, 60),
    ("belt-disk", ["beltBDEEncr", "beltBDEDecr", "beltSDEEncr", "beltSDEDecr", "beltKRP", "beltPBKDF2"], 10, 50),
    ("belt-aead", ["beltDWPWrap", "beltDWPUnwrap", "beltCHEWrap", "beltCHEUnwrap", "beltKWPWrap", "beltKWPUnwrap"], 12, 60),
    ("belt-fmt-e", ["beltFMTEncr"], 2, 6),
    ("belt-fmt-d", ["beltFMTDecr"], 2, 6),
    ("bash-brng-botp", ["bashHash", "brngHMACRand", "botpHOTPRand", "botpHOTPVerify", "botpTOTPRand", "botpTOTPVerify",
                        "botpOCRARand", "botpOCRAVerify"], 12, 60),
    ("bels", ["belsStdM", "belsValM", "belsGenM0", "belsGenMi", "belsGenMid", "belsShare", "belsShare2", "belsShare3",
              "belsRecover", "belsRecover2"], 6, 30),
]

# group -> (workers in quick, workers in thorough)
SPLIT = {"belt-modes": (2, 4), "belt-disk": (1, 2), "belt-aead": (2, 4), "belt-fmt-e": (1, 2), "belt-fmt-d": (1, 2), "bash-brng-botp": (2, 4), "bels": (2, 4)}


# ===========================================================================
# bign.h / bign96.h
# ===========================================================================

BIGN_OID = {128: "1.2.112.0.2.0.34.101.45.3.1", 192: "1.2.112.0.2.0.34.101.45.3.2", 256: "1.2.112.0.2.0.34.101.45.3.3",
            96: "1.2.112.0.2.0.34.101.45.3.0"}
HASH_OID = "1.2.112.0.2.0.34.101.31.81"
PARAMS_SIZE = 8 + 5 * 64 + 8


class Curve:
    """a standard parameter set as loaded by the library, plus its integers (for building off-curve / out-of-range keys)"""

    def __init__(self, E, l):
        lib = E.lib
        self.l = l
        self.pfx = "bign96" if l == 96 else "bign"
        p = lib.alloc(PARAMS_SIZE, 0)        # bign96ParamsStd does not clear the unused octets of the structure
        E.call_ok(self.pfx + "ParamsStd", p, lib.cstr(BIGN_OID[l]))
        self.image = lib.rd(p, PARAMS_SIZE)
        no = self.no = l // 4
        f = lambda i: int.from_bytes(self.image[8 + 64 * i: 8 + 64 * i + no], "little")
        self.p, self.a, self.b, self.q, self.yG = f(0), f(1), f(2), f(3), f(4)
        pn = lib.alloc(8)
        E.call_ok("bignOidToDER", 0, pn, lib.cstr(HASH_OID))
        n = lib.rd_size(pn)
        o = lib.alloc(n)
        E.call_ok("bignOidToDER", o, pn, lib.cstr(HASH_OID))
        self.oid_der = lib.rd(o, n)
        lib.release()

    def on_curve(self, x, y):
        return x < self.p and y < self.p and (y * y - (x * x * x + self.a * x + self.b)) % self.p == 0

    def enc(self, x, y):
        return x.to_bytes(self.no, "little") + y.to_bytes(self.no, "little")

    def keypair(self, E, r):
        lib = E.lib
        gen, st = E.live_rng(r)
        d, Q = lib.alloc(self.no), lib.alloc(2 * self.no)
        E.call_ok(self.pfx + "KeypairGen", d, Q, lib.mk(self.image), gen, st)
        out = lib.rd(d, self.no), lib.rd(Q, 2 * self.no)
        lib.release()
        return out

    def with_field(self, idx, data):
        """image with field idx (0 = p .. 4 = yG) replaced"""
        b = bytearray(self.image)
        b[8 + 64 * idx: 8 + 64 * idx + len(data)] = data
        return bytes(b)

    def with_l(self, l):
        return (l & SIZE_MAX).to_bytes(8, "little") + self.image[8:]


def curve(E, l):
    return E.memo(("curve", l), lambda: Curve(E, l))


def params_cases(fn, cv, hdr, r, argname="params", expect="ERR_BAD_PARAMS", full=True):
    q = "%s %s \\expect{ERR_BAD_PARAMS} Параметры params корректны" % (hdr, fn)
    if expect == "ANY":
        q = "%s %s: \\return ERR_OK, если параметры корректны, и код ошибки в противном случае" % (hdr, fn)
    out = []
    ls = [0, 1, 64, 127, 129, 160, 191, 255, 257, 384, 512, 1 << 32, SIZE_MAX]
    ls += [x for x in (96, 128, 192, 256) if x != cv.l] if cv.l == 96 else []
    for l in (ls if full else r.sample(ls, 4)):
        out.append(C(argname + ".l", l, m_in(argname, cv.with_l(l)), expect, q + " (bign_params.l: 128, 192 или 256)", "level"))
    if cv.l != 96:
        no = cv.no
        muts = [("p-even", cv.with_field(0, (cv.p - 1).to_bytes(no, "little"))),
                ("p-top-bit-clear", cv.with_field(0, (cv.p & ~(1 << (8 * no - 1))).to_bytes(no, "little"))),
                ("a-zero", cv.with_field(1, bytes(no))), ("b-zero", cv.with_field(2, bytes(no))),
                ("q-even", cv.with_field(3, (cv.q - 1).to_bytes(no, "little")))]
        if no < 64:
            b = bytearray(cv.image)
            b[8 + no + r.randrange(64 - no)] = 1 + r.randrange(255)
            muts.append(("p-unused-octets-nonzero", bytes(b)))
        for name, img in (muts if full else r.sample(muts, 2)):
            out.append(C(argname, name, m_in(argname, img), expect, q + " (bign.h: 2^{l-1} < p, q < 2^l, p = 3 mod 4, a, b != 0, "
                         "неиспользуемые октеты должны быть нулевыми)", "params"))
    return out


def oid_cases(fn, cv, hdr, r):
    q = "%s %s \\expect{ERR_BAD_OID} Идентификатор oid_der корректен" % (hdr, fn)
    d = cv.oid_der
    bad = [("empty", b"", 0), ("truncated", d[:-1], len(d) - 1), ("trailing-octet", d + b"\0", len(d) + 1),
           ("wrong-tag", bytes([0x04]) + d[1:], len(d)), ("length-octet+1", bytes([d[0], d[1] + 1]) + d[2:], len(d)),
           ("unterminated-arc", d[:-1] + bytes([d[-1] | 0x80]), len(d)), ("oid_len=SIZE_MAX", d, SIZE_MAX),
           ("leading-0x80-arc", d[:2] + b"\x80" + d[3:], len(d))]
    out = []
    for name, data, ln in bad:
        out.append(C("oid_der", name, m_many(m_in("oid_der", data), m_val("oid_len", ln)), "ERR_BAD_OID", q, "identifier"))
    return out


def bad_privkeys(cv):
    no = cv.no
    return [("0", bytes(no)), ("q", cv.q.to_bytes(no, "little")), ("q+1", (cv.q + 1).to_bytes(no, "little")),
            ("2^(8no)-1", b"\xff" * no)]


def privkey_cases(fn, cv, hdr, name="privkey", expect="ERR_BAD_PRIVKEY", quote=None):
    q = quote or "%s %s \\expect{ERR_BAD_PRIVKEY} Личный ключ privkey корректен" % (hdr, fn)
    return [C(name, k, m_in(name, v), expect, q, "privkey") for k, v in bad_privkeys(cv)]


def bad_pubkeys(cv, Q, r):
    """(class, how, encoding): points off the curve (decided here, y^2 = x^3 + ax + b mod p) and coordinates >= p"""
    no = cv.no
    x, y = int.from_bytes(Q[:no], "little"), int.from_bytes(Q[no:], "little")
    out = []
    y2 = y ^ (1 << r.randrange(8 * no - 2))
    if not cv.on_curve(x, y2) and y2 < cv.p:
        out.append(("off-curve", "y-bit-flipped", cv.enc(x, y2)))
    x2 = x ^ (1 << r.randrange(8 * no - 2))
    if not cv.on_curve(x2, y) and x2 < cv.p:
        out.append(("off-curve", "x-bit-flipped", cv.enc(x2, y)))
    if not cv.on_curve((x + 1) % cv.p, cv.p - y):
        out.append(("off-curve", "(x+1,-y)", cv.enc((x + 1) % cv.p, cv.p - y)))
    if not cv.on_curve(0, 0):
        out.append(("zero-point", "(0,0)", bytes(2 * no)))
    out.append(("coord>=p", "x=p", cv.enc(cv.p, y)))
    out.append(("coord>=p", "y=p", cv.enc(x, cv.p)))
    out.append(("coord>=p", "x=ff..ff", b"\xff" * no + Q[no:]))
    out.append(("coord>=p", "y=ff..ff", Q[:no] + b"\xff" * no))
    return out


def pubkey_cases(fn, cv, hdr, Q, r, name="pubkey", expect="ERR_BAD_PUBKEY", quote=None):
    q = quote or "%s %s \\expect{ERR_BAD_PUBKEY} Открытый ключ pubkey корректен" % (hdr, fn)
    return [C(name, k, m_in(name, v), expect, q, "pubkey", show=how) for k, how, v in bad_pubkeys(cv, Q, r)]


Q_PTR = " / preamble of the header: \\expect{ERR_BAD_INPUT} Все входные указатели корректны"


def rng_null_case(fn, hdr, cls="ERR_BAD_RNG"):
    # a null generator is at the same time an incorrect input pointer: either listed class
    return C("rng", "null", m_many(lambda a: put(a, FN("rng", None)), m_val("rng_state", 0)), (cls, "ERR_BAD_INPUT"),
             "%s %s \\expect{%s} Генератор rng (с состоянием rng_state) корректен" % (hdr, fn, cls) + Q_PTR, "generator")


def _levels(r, pfx):
    return 96 if pfx == "bign96" else r.choice((128, 192, 256))


def _std_row(fn, oid_ok, size, bad):
    def build(E, r):
        name = r.choice(oid_ok)
        # zero-filled rather than canary-filled: bign96ParamsStd leaves the unused octets of the structure as they were
        args = [IO("params", bytes(size)), IN("name", name.encode() + b"\0")]
        q = "%s: 'Поддерживаются следующие имена: ...' \\return ERR_OK, если параметры успешно загружены, и код ошибки в противном случае" % fn
        cases = [C("name", "unsupported", m_in("name", s.encode() + b"\0"), "ANY", q, "identifier", show=s) for s in bad]
        return {"args": args, "cases": cases}
    return build


ROWS["bignParamsStd"] = Row(_std_row("bignParamsStd", [BIGN_OID[128], BIGN_OID[192], BIGN_OID[256]], PARAMS_SIZE,
                                     ["", "1", "1.2.112.0.2.0.34.101.45.3.0", "1.2.112.0.2.0.34.101.45.3.4", "1.2.112.0.2.0.34.101.45.3",
                                      "1.2.112.0.2.0.34.101.45.3.1.", "1.2.112.0.2.0.34.101.45.3.11", "bign-curve256v1", "test"]))
ROWS["bign96ParamsStd"] = Row(_std_row("bign96ParamsStd", [BIGN_OID[96]], PARAMS_SIZE,
                                       ["", "1.2.112.0.2.0.34.101.45.3.1", "1.2.112.0.2.0.34.101.45.3.00", "1.2.112.0.2.0.34.101.45.3", "bign-curve192v1"]))


def _params_val_row(pfx):
    def build(E, r):
        cv = curve(E, _levels(r, pfx))
        args = [IN("params", cv.image)]
        cases = params_cases(pfx + "ParamsVal", cv, pfx + ".h", r, expect="ANY")
        # yG replaced by p - yG + 1 ... a base point off the curve
        no = cv.no
        if not cv.on_curve(0, (cv.yG + 1) % cv.p):
            cases.append(C("params", "yG+1", m_in("params", cv.with_field(4, ((cv.yG + 1) % cv.p).to_bytes(no, "little"))), "ANY",
                           "%s.h %sParamsVal: \\return ERR_OK, если параметры корректны, и код ошибки в противном случае" % (pfx, pfx), "params"))
        return {"args": args, "cases": cases}
    return build


ROWS["bignParamsVal"] = Row(_params_val_row("bign"), every=2)
ROWS["bign96ParamsVal"] = Row(_params_val_row("bign96"), every=2)


@row("bignParamsGen")
def _bign_params_gen(E, r):
    cv = curve(E, r.choice((128, 192, 256)))
    args = [IO("params", cv.image), V("calc_q", 0), V("on_seed", 0), V("state", 0)]
    # no valid call can be formed without a point-counting callback: the row consists of the documented violation only
    return {"args": args, "novalid": True,
            "cases": [C("calc_q", "null", lambda a: None, "ERR_BAD_INPUT", "bign.h bignParamsGen \\expect{ERR_BAD_INPUT} calc_q != 0", "generator")]}


def _keypair_gen_row(pfx):
    def build(E, r):
        cv = curve(E, _levels(r, pfx))
        fn = pfx + "KeypairGen"
        args = [OUT("privkey", cv.no), OUT("pubkey", 2 * cv.no), IN("params", cv.image)] + E.rng_args(r)
        return {"args": args, "cases": params_cases(fn, cv, pfx + ".h", r) + [rng_null_case(fn, pfx + ".h")]}
    return build


def _keypair_val_row(pfx):
    def build(E, r):
        cv = curve(E, _levels(r, pfx))
        fn = pfx + "KeypairVal"
        d, Q = cv.keypair(E, r)
        d2, Q2 = cv.keypair(E, r)
        args = [IN("params", cv.image), IN("privkey", d), IN("pubkey", Q)]
        q = "%s.h %s: \\return ERR_OK, если пара корректна, и код ошибки в противном случае" % (pfx, fn)
        cases = params_cases(fn, cv, pfx + ".h", r, full=False)
        cases += privkey_cases(fn, cv, pfx + ".h", expect="ANY", quote=q)
        cases += pubkey_cases(fn, cv, pfx + ".h", Q, r, expect="ANY", quote=q)
        cases.append(C("pubkey", "other-key", m_in("pubkey", Q2), "ANY", q, "pubkey"))
        return {"args": args, "cases": cases}
    return build


def _pubkey_val_row(pfx):
    def build(E, r):
        cv = curve(E, _levels(r, pfx))
        fn = pfx + "PubkeyVal"
        d, Q = cv.keypair(E, r)
        args = [IN("params", cv.image), IN("pubkey", Q)]
        q = "%s.h %s: \\return ERR_OK, если ключ корректен, и код ошибки в противном случае" % (pfx, fn)
        return {"args": args, "cases": params_cases(fn, cv, pfx + ".h", r, full=False) + pubkey_cases(fn, cv, pfx + ".h", Q, r, expect="ANY", quote=q)}
    return build


def _pubkey_calc_row(pfx):
    def build(E, r):
        cv = curve(E, _levels(r, pfx))
        fn = pfx + "PubkeyCalc"
        d, Q = cv.keypair(E, r)
        args = [OUT("pubkey", 2 * cv.no), IN("params", cv.image), IN("privkey", d)]
        return {"args": args, "cases": params_cases(fn, cv, pfx + ".h", r, full=False) + privkey_cases(fn, cv, pfx + ".h")}
    return build


for _pfx in ("bign", "bign96"):
    ROWS[_pfx + "KeypairGen"] = Row(_keypair_gen_row(_pfx))
    ROWS[_pfx + "KeypairVal"] = Row(_keypair_val_row(_pfx))
    ROWS[_pfx + "PubkeyVal"] = Row(_pubkey_val_row(_pfx))
    ROWS[_pfx + "PubkeyCalc"] = Row(_pubkey_calc_row(_pfx))


@row("bignDH")
def _bign_dh(E, r):
    cv = curve(E, r.choice((128, 192, 256)))
    d, _ = cv.keypair(E, r)
    _, Q = cv.keypair(E, r)
    kl = r.choice((0, 1, 32, cv.no, 2 * cv.no))
    args = [OUT("key", kl), IN("params", cv.image), IN("privkey", d), IN("pubkey", Q), V("key_len", kl)]
    cases = params_cases("bignDH", cv, "bign.h", r, full=False) + privkey_cases("bignDH", cv, "bign.h") + pubkey_cases("bignDH", cv, "bign.h", Q, r)
    q = "bign.h bignDH \\expect{ERR_BAD_SHAREDKEY} key_len <= l / 2"
    for v in (2 * cv.no + 1, 2 * cv.no + 2, 4 * cv.no, 1 << 32, SIZE_MAX):
        n = v if v <= 4096 else 2 * cv.no
        cases.append(C("key_len", {SIZE_MAX: "SIZE_MAX", 1 << 32: "2^32"}.get(v, "l/2+%d" % (v - 2 * cv.no)),
                       m_many(m_val("key_len", v), lambda a, n=n: put(a, OUT("key", n))), "ERR_BAD_SHAREDKEY", q, "length"))
    return {"args": args, "cases": cases}


def _sig_len(l):
    return 34 if l == 96 else 3 * l // 8


def _overlap_sig_hash(fn, hdr, no, siglen):
    q = "%s %s \\expect{ERR_BAD_INPUT} Буферы sig и hash не пересекаются" % (hdr, fn)
    out = []
    out.append(C("sig~hash", "hash-at-sig-start", lambda a: (put(a, IO("sig", arg(a, "hash")["data"] + bytes(siglen - no))), put(a, AT("hash", "sig", 0))),
                 "ERR_BAD_INPUT", q, "overlap"))
    out.append(C("sig~hash", "hash-at-sig-end", lambda a: (put(a, IO("sig", bytes(siglen - no) + arg(a, "hash")["data"])), put(a, AT("hash", "sig", siglen - no))),
                 "ERR_BAD_INPUT", q, "overlap"))

    def one(a):
        h = arg(a, "hash")["data"]
        put(a, IO("sig", bytes(siglen - 1) + h))      # arena: sig = [0, siglen), hash = [siglen-1, siglen-1+no)
        put(a, AT("hash", "sig", siglen - 1))
    out.append(C("sig~hash", "one-octet-common", one, "ERR_BAD_INPUT", q, "overlap"))
    return out


def _sign_row(pfx, det):
    def build(E, r):
        cv = curve(E, _levels(r, pfx))
        fn = pfx + ("Sign2" if det else "Sign")
        hdr = pfx + ".h"
        d, Q = cv.keypair(E, r)
        h = rb(r, cv.no)
        args = [OUT("sig", _sig_len(cv.l)), IN("params", cv.image), IN("oid_der", cv.oid_der), V("oid_len", len(cv.oid_der)),
                IN("hash", h), IN("privkey", d)]
        if det:
            tl = r.choice((0, 1, 16, 40))
            args += [V("t", 0), V("t_len", 0)] if r.random() < 0.3 else [IN("t", rb(r, tl)), V("t_len", tl)]
        else:
            args += E.rng_args(r)
        cases = params_cases(fn, cv, hdr, r, full=False) + oid_cases(fn, cv, hdr, r) + privkey_cases(fn, cv, hdr)
        cases += _overlap_sig_hash(fn, hdr, cv.no, _sig_len(cv.l))
        if not det:
            cases.append(rng_null_case(fn, hdr))
        return {"args": args, "cases": cases}
    return build


def _flip(b, i, bit=1):
    return b[:i] + bytes([b[i] ^ bit]) + b[i + 1:]


def _sign(E, cv, r, h, d, fn=None):
    lib = E.lib
    s = lib.alloc(_sig_len(cv.l))
    E.call_ok(fn or (cv.pfx + "Sign2"), s, lib.mk(cv.image), lib.mk(cv.oid_der), len(cv.oid_der), lib.mk(h), lib.mk(d), 0, 0)
    out = lib.rd(s, _sig_len(cv.l))
    lib.release()
    return out


def _verify_row(pfx):
    def build(E, r):
        cv = curve(E, _levels(r, pfx))
        fn, hdr = pfx + "Verify", pfx + ".h"
        d, Q = cv.keypair(E, r)
        h = rb(r, cv.no)
        sig = _sign(E, cv, r, h, d)
        args = [IN("params", cv.image), IN("oid_der", cv.oid_der), V("oid_len", len(cv.oid_der)), IN("hash", h), IN("sig", sig), IN("pubkey", Q)]
        q = "%s %s \\remark При нарушении ограничений на ЭЦП возвращается код ERR_BAD_SIG" % (hdr, fn)
        # a signature cannot be valid under a key that is not a key: both documented conditions are violated at once and
        # the header orders nothing between them -> either listed class
        cases = params_cases(fn, cv, hdr, r, full=False) + oid_cases(fn, cv, hdr, r)
        cases += pubkey_cases(fn, cv, hdr, Q, r, expect=("ERR_BAD_PUBKEY", "ERR_BAD_SIG"),
                              quote="%s %s \\expect{ERR_BAD_PUBKEY} Открытый ключ pubkey корректен / " % (hdr, fn) + q)
        n0 = len(sig) - cv.no      # S0 part
        cases.append(C("sig", "S0-bit-flipped", m_in("sig", _flip(sig, r.randrange(n0), 1 << r.randrange(8))), "ERR_BAD_SIG", q, "auth"))
        cases.append(C("sig", "S1-bit-flipped", m_in("sig", _flip(sig, n0 + r.randrange(cv.no - 1), 1 << r.randrange(8))), "ERR_BAD_SIG", q, "auth"))
        cases.append(C("sig", "S1=q", m_in("sig", sig[:n0] + cv.q.to_bytes(cv.no, "little")), "ERR_BAD_SIG", q, "auth"))
        cases.append(C("sig", "S1=all-ff", m_in("sig", sig[:n0] + b"\xff" * cv.no), "ERR_BAD_SIG", q, "auth"))
        cases.append(C("hash", "bit-flipped", m_in("hash", _flip(h, r.randrange(cv.no), 1 << r.randrange(8))), "ERR_BAD_SIG", q, "auth"))
        _, Q2 = cv.keypair(E, r)
        cases.append(C("pubkey", "other-valid-key", m_in("pubkey", Q2), "ERR_BAD_SIG", q, "auth"))
        return {"args": args, "cases": cases}
    return build


for _pfx in ("bign", "bign96"):
    ROWS[_pfx + "Sign"] = Row(_sign_row(_pfx, False))
    ROWS[_pfx + "Sign2"] = Row(_sign_row(_pfx, True))
    ROWS[_pfx + "Verify"] = Row(_verify_row(_pfx))


@row("bignKeyWrap")
def _bign_keywrap(E, r):
    cv = curve(E, r.choice((128, 192, 256)))
    _, Q = cv.keypair(E, r)
    ln = r.choice((16, 17, 32, 33, 64))
    nullhdr = _alternate()   # deterministic: every second instance uses the NULL (all-zero) header
    args = [OUT("token", cv.no + 16 + ln), IN("params", cv.image), IN("key", rb(r, ln)), V("len", ln),
            V("header", 0) if nullhdr else IN("header", rb(r, 16)), IN("pubkey", Q)] + E.rng_args(r)
    cases = params_cases("bignKeyWrap", cv, "bign.h", r, full=False) + pubkey_cases("bignKeyWrap", cv, "bign.h", Q, r)
    q = "bign.h bignKeyWrap \\expect{ERR_BAD_INPUT} len >= 16"
    for v in (0, 1, 15):
        cases.append(C("len", v, m_many(m_val("len", v), m_in("key", bytes(range(v))), lambda a, v=v: put(a, OUT("token", cv.no + 16 + v))),
                       "ERR_BAD_INPUT", q, "length"))
    cases.append(rng_null_case("bignKeyWrap", "bign.h"))
    return {"args": args, "cases": cases}


@row("bignKeyUnwrap")
def _bign_keyunwrap(E, r):
    lib = E.lib
    cv = curve(E, r.choice((128, 192, 256)))
    d, Q = cv.keypair(E, r)
    d2, _ = cv.keypair(E, r)
    ln = r.choice((16, 17, 32, 33, 64))
    nullhdr = _alternate()   # deterministic: every second instance uses the NULL (all-zero) header
    key, hdr = rb(r, ln), (bytes(16) if nullhdr else rb(r, 16))
    gen, st = E.live_rng(r)
    t = lib.alloc(cv.no + 16 + ln)
    E.call_ok("bignKeyWrap", t, lib.mk(cv.image), lib.mk(key), ln, lib.mk(hdr), lib.mk(Q), gen, st)
    tok = lib.rd(t, cv.no + 16 + ln)
    lib.release()
    args = [OUT("key", ln), IN("params", cv.image), IN("token", tok), V("len", len(tok)),
            V("header", 0) if nullhdr else IN("header", hdr), IN("privkey", d)]
    cases = params_cases("bignKeyUnwrap", cv, "bign.h", r, full=False) + privkey_cases("bignKeyUnwrap", cv, "bign.h")
    q = ("bign.h bignKeyUnwrap \\remark При нарушении целостности токена возвращается код ERR_BAD_KEYTOKEN. "
         "Этот код будет возвращен, если len < 32 + l / 4")
    for v in (0, 1, 16, cv.no, cv.no + 16, cv.no + 31):
        cases.append(C("len", {0: 0, 1: 1, 16: 16}.get(v, "l/4+%d" % (v - cv.no)), m_many(m_val("len", v), m_in("token", tok[:v]),
                                                                                  lambda a, v=v: put(a, OUT("key", max(0, v - cv.no - 16)))),
                       "ERR_BAD_KEYTOKEN", q, "length"))
    n = len(tok)
    for name, i in (("R-part", r.randrange(cv.no)), ("key-part", cv.no + r.randrange(ln)), ("header-part", n - 16 + r.randrange(16)), ("last-octet", n - 1)):
        cases.append(C("token", name + "-bit-flipped", m_in("token", _flip(tok, i, 1 << r.randrange(8))), "ERR_BAD_KEYTOKEN", q, "release", secret=key))
    cases.append(C("header", "other-header", m_in("header", _flip(hdr, r.randrange(16), 2)), "ERR_BAD_KEYTOKEN", q, "release", secret=key))
    cases.append(C("privkey", "other-valid-key", m_in("privkey", d2), "ERR_BAD_KEYTOKEN", q, "release", secret=key))
    if ln > 16:
        cases.append(C("len", "truncated-token", m_many(m_val("len", n - 1), m_in("token", tok[:-1]), lambda a: put(a, OUT("key", ln - 1))),
                       "ERR_BAD_KEYTOKEN", q, "release", secret=key))
    return {"args": args, "cases": cases}


def _id_material(E, r):
    """trusted party's key pair, a signed identifier and the extracted identity keys"""
    lib = E.lib
    cv = curve(E, r.choice((128, 192, 256)))
    d, Q = cv.keypair(E, r)
    id_hash = rb(r, cv.no)
    sig = _sign(E, cv, r, id_hash, d)
    ip, iq = lib.alloc(cv.no), lib.alloc(2 * cv.no)
    E.call_ok("bignIdExtract", ip, iq, lib.mk(cv.image), lib.mk(cv.oid_der), len(cv.oid_der), lib.mk(id_hash), lib.mk(sig), lib.mk(Q))
    out = cv, d, Q, id_hash, sig, lib.rd(ip, cv.no), lib.rd(iq, 2 * cv.no)
    lib.release()
    return out


@row("bignIdExtract")
def _bign_idextract(E, r):
    cv, d, Q, id_hash, sig, ip, iq = _id_material(E, r)
    args = [OUT("id_privkey", cv.no), OUT("id_pubkey", 2 * cv.no), IN("params", cv.image), IN("oid_der", cv.oid_der),
            V("oid_len", len(cv.oid_der)), IN("id_hash", id_hash), IN("sig", sig), IN("pubkey", Q)]
    cases = params_cases("bignIdExtract", cv, "bign.h", r, full=False) + oid_cases("bignIdExtract", cv, "bign.h", r)
    q = "bign.h bignIdExtract \\remark Если подпись некорректна, то будет возвращен код ERR_BAD_SIG"
    cases += pubkey_cases("bignIdExtract", cv, "bign.h", Q, r, expect=("ERR_BAD_PUBKEY", "ERR_BAD_SIG"),
                          quote="bign.h bignIdExtract \\expect{ERR_BAD_PUBKEY} Открытый ключ pubkey корректен / " + q)
    n0 = len(sig) - cv.no
    cases.append(C("sig", "S0-bit-flipped", m_in("sig", _flip(sig, r.randrange(n0), 1 << r.randrange(8))), "ERR_BAD_SIG", q, "auth"))
    cases.append(C("sig", "S1-bit-flipped", m_in("sig", _flip(sig, n0 + r.randrange(cv.no - 1), 1 << r.randrange(8))), "ERR_BAD_SIG", q, "auth"))
    cases.append(C("sig", "S1=q", m_in("sig", sig[:n0] + cv.q.to_bytes(cv.no, "little")), "ERR_BAD_SIG", q, "auth"))
    cases.append(C("id_hash", "bit-flipped", m_in("id_hash", _flip(id_hash, r.randrange(cv.no), 1 << r.randrange(8))), "ERR_BAD_SIG", q, "auth"))
    return {"args": args, "cases": cases}


def _idsign_row(det):
    def build(E, r):
        cv, d, Q, id_hash, sig, ip, iq = _id_material(E, r)
        fn = "bignIdSign2" if det else "bignIdSign"
        h = rb(r, cv.no)
        args = [OUT("id_sig", _sig_len(cv.l)), IN("params", cv.image), IN("oid_der", cv.oid_der), V("oid_len", len(cv.oid_der)),
                IN("id_hash", id_hash), IN("hash", h), IN("id_privkey", ip)]
        if det:
            tl = r.choice((0, 1, 16, 40))
            args += [V("t", 0), V("t_len", 0)] if r.random() < 0.3 else [IN("t", rb(r, tl)), V("t_len", tl)]
        else:
            args += E.rng_args(r)
        cases = params_cases(fn, cv, "bign.h", r, full=False) + oid_cases(fn, cv, "bign.h", r)
        # bignIdExtract reduces mod q, so values >= q cannot come from it; 0 is not excluded by the header and is not tested
        cases += [c for c in privkey_cases(fn, cv, "bign.h", name="id_privkey",
                  quote="bign.h %s \\expect{ERR_BAD_PRIVKEY} Ключ id_privkey получен с помощью функции bignIdExtract()" % fn)
                  if c["cls"] != "0"]
        if not det:
            cases.append(rng_null_case(fn, "bign.h"))
        return {"args": args, "cases": cases}
    return build


ROWS["bignIdSign"] = Row(_idsign_row(False))
ROWS["bignIdSign2"] = Row(_idsign_row(True))


@row("bignIdVerify")
def _bign_idverify(E, r):
    lib = E.lib
    cv, d, Q, id_hash, sig, ip, iq = _id_material(E, r)
    h = rb(r, cv.no)
    s = lib.alloc(_sig_len(cv.l))
    E.call_ok("bignIdSign2", s, lib.mk(cv.image), lib.mk(cv.oid_der), len(cv.oid_der), lib.mk(id_hash), lib.mk(h), lib.mk(ip), 0, 0)
    id_sig = lib.rd(s, _sig_len(cv.l))
    lib.release()
    args = [IN("params", cv.image), IN("oid_der", cv.oid_der), V("oid_len", len(cv.oid_der)), IN("id_hash", id_hash), IN("hash", h),
            IN("id_sig", id_sig), IN("id_pubkey", iq), IN("pubkey", Q)]
    cases = params_cases("bignIdVerify", cv, "bign.h", r, full=False) + oid_cases("bignIdVerify", cv, "bign.h", r)
    qk = "bign.h bignIdVerify \\expect{ERR_BAD_PUBKEY} открытый ключ id_pubkey получен с помощью функции bignIdExtract(); открытый ключ pubkey корректен"
    q = "bign.h bignIdVerify \\remark При нарушении ограничений на ЭЦП возвращается код ERR_BAD_SIG"
    cases += pubkey_cases("bignIdVerify", cv, "bign.h", Q, r, expect=("ERR_BAD_PUBKEY", "ERR_BAD_SIG"), quote=qk + " / " + q)
    cases += pubkey_cases("bignIdVerify", cv, "bign.h", iq, r, name="id_pubkey", expect=("ERR_BAD_PUBKEY", "ERR_BAD_SIG"), quote=qk + " / " + q)
    n0 = len(id_sig) - cv.no
    cases.append(C("id_sig", "S0-bit-flipped", m_in("id_sig", _flip(id_sig, r.randrange(n0), 1 << r.randrange(8))), "ERR_BAD_SIG", q, "auth"))
    cases.append(C("id_sig", "S1-bit-flipped", m_in("id_sig", _flip(id_sig, n0 + r.randrange(cv.no - 1), 1 << r.randrange(8))), "ERR_BAD_SIG", q, "auth"))
    cases.append(C("id_sig", "S1=q", m_in("id_sig", id_sig[:n0] + cv.q.to_bytes(cv.no, "little")), "ERR_BAD_SIG", q, "auth"))
    cases.append(C("hash", "bit-flipped", m_in("hash", _flip(h, r.randrange(cv.no), 1 << r.randrange(8))), "ERR_BAD_SIG", q, "auth"))
    cases.append(C("id_hash", "bit-flipped", m_in("id_hash", _flip(id_hash, r.randrange(cv.no), 1 << r.randrange(8))), "ERR_BAD_SIG", q, "auth"))
    return {"args": args, "cases": cases}


GROUPS += [
    ("bign-keys", ["bignParamsStd", "bignParamsVal", "bignParamsGen", "bignKeypairGen", "bignKeypairVal", "bignPubkeyVal", "bignPubkeyCalc", "bignDH"], 4, 16),
    ("bign-sign", ["bignSign", "bignSign2", "bignVerify"], 4, 16),
    ("bign-keyt", ["bignKeyWrap", "bignKeyUnwrap"], 4, 16),
    ("bign-id", ["bignIdExtract", "bignIdSign", "bignIdSign2", "bignIdVerify"], 3, 12),
    ("bign96", ["bign96ParamsStd", "bign96ParamsVal", "bign96KeypairGen", "bign96KeypairVal", "bign96PubkeyVal", "bign96PubkeyCalc",
                "bign96Sign", "bign96Sign2", "bign96Verify"], 4, 16),
]
SPLIT.update({"bign-keys": (2, 4), "bign-sign": (2, 4), "bign-keyt": (2, 4), "bign-id": (2, 4), "bign96": (2, 4)})


# ===========================================================================
# bake.h (Start / SWU; Run* excluded; the Step* functions have ordering \expect only) and btok BAUTH Start
# ===========================================================================

class _BakeSettings(ctypes.Structure):
    _fields_ = [("kca", ctypes.c_int), ("kcb", ctypes.c_int), ("helloa", ctypes.c_void_p), ("helloa_len", ctypes.c_size_t),
                ("hellob", ctypes.c_void_p), ("hellob_len", ctypes.c_size_t), ("rng", ctypes.c_void_p), ("rng_state", ctypes.c_void_p)]


class _BakeCert(ctypes.Structure):
    _fields_ = [("data", ctypes.c_void_p), ("len", ctypes.c_size_t), ("val", ctypes.c_void_p)]


CERTVAL = ctypes.CFUNCTYPE(ctypes.c_uint32, ctypes.c_void_p, ctypes.c_void_p, ctypes.c_void_p, ctypes.c_size_t)


def _cv_tail(pubkey, params, data, ln):
    """certificate = name || pubkey: hands out the trailing l/2 octets"""
    try:
        n = int.from_bytes(ctypes.string_at(params, 8), "little") // 2
        if ln < n:
            return errcode("ERR_BAD_CERT")
        if pubkey:
            ctypes.memmove(pubkey, ctypes.string_at(data + (ln - n), n), n)
        return 0
    except BaseException:      # noqa
        return errcode("ERR_BAD_CERT")


def _cv_reject(pubkey, params, data, ln):
    return errcode("ERR_BAD_CERT")


_CB["py:cv_tail"] = CERTVAL(_cv_tail)
_CB["py:cv_reject"] = CERTVAL(_cv_reject)


def _settings_struct(kca, kcb, hello, rng=True):
    s = _BakeSettings(kca, kcb, 0, len(hello[0]) if hello[0] is not None else 0, 0, len(hello[1]) if hello[1] is not None else 0, 0, 0)
    ptrs = []
    if hello[0] is not None:
        ptrs.append((_BakeSettings.helloa.offset, "helloa"))
    if hello[1] is not None:
        ptrs.append((_BakeSettings.hellob.offset, "hellob"))
    if rng:
        ptrs += [(_BakeSettings.rng.offset, ("fn", GEN_SYM)), (_BakeSettings.rng_state.offset, "rng_state")]
    return STRUCT("settings", bytes(s), ptrs)


def _cert_struct(datalen, val="py:cv_tail"):
    c = _BakeCert(0, datalen, 0)
    ptrs = [(_BakeCert.data.offset, "certdata")]
    if val:
        ptrs.append((_BakeCert.val.offset, ("fn", val)))
    return STRUCT("cert", bytes(c), ptrs)


def _start_row(fn, keepfn, hdr, with_cert, kc_rule):
    """kc_rule: None | 'both' (kca == kcb == TRUE) | 'kca'"""
    def build(E, r):
        lib = E.lib
        cv = curve(E, r.choice((128, 192, 256)))
        d, Q = cv.keypair(E, r)
        kca, kcb = (1, 1) if kc_rule == "both" else ((1, r.randrange(2)) if kc_rule == "kca" else (r.randrange(2), r.randrange(2)))
        hello = [rb(r, r.choice((0, 5, 40))) if r.random() < 0.7 else None for _ in range(2)]
        keep = getattr(lib, keepfn)(cv.l)
        certdata = b"holder:" + Q
        hid = [IN("helloa", hello[0] or b"", hid=True), IN("hellob", hello[1] or b"", hid=True),
               RNGST("rng_state", rb(r, 32), rb(r, 32), hid=True), IN("certdata", certdata, hid=True)]
        args = hid + [OUT("state", keep), IN("params", cv.image), _settings_struct(kca, kcb, hello)]
        if with_cert:
            args += [IN("privkey", d), _cert_struct(len(certdata))]
        else:
            pl = r.choice((0, 1, 8, 40))
            args += [IN("pwd", rb(r, pl)), V("pwd_len", pl)]
        h = "%s %s " % (hdr, fn)
        cases = params_cases(fn, cv, hdr, r, full=False)
        cases.append(C("settings.rng", "null", lambda a: put(a, _settings_struct(kca, kcb, hello, rng=False)), ("ERR_BAD_RNG", "ERR_BAD_INPUT"),
                       h + "\\expect{ERR_BAD_RNG} Генератор settings->rng (с состоянием settings->rng_state) корректен / preamble: "
                       "\\expect{ERR_BAD_INPUT} Все входные указатели ... корректны", "generator"))
        if kc_rule == "both":
            for a_, b_ in ((0, 1), (1, 0), (0, 0)):
                cases.append(C("settings.kca,kcb", "%d,%d" % (a_, b_), (lambda a_=a_, b_=b_: (lambda a: put(a, _settings_struct(a_, b_, hello))))(),
                               "ERR_BAD_INPUT", h + "\\expect{ERR_BAD_INPUT} settings->kca == TRUE && settings->kcb == TRUE", "flag"))
        if kc_rule == "kca":
            cases.append(C("settings.kca", 0, lambda a: put(a, _settings_struct(0, kcb, hello)), "ERR_BAD_INPUT",
                           h + "\\expect{ERR_BAD_INPUT} settings->kca == TRUE", "flag"))
        if with_cert:
            qc = h + "\\expect{ERR_BAD_CERT} Сертификат cert корректен"
            cases.append(C("cert", "rejected-by-cert.val", lambda a: put(a, _cert_struct(len(certdata), "py:cv_reject")), "ERR_BAD_CERT", qc, "cert"))
            for k, how, bad in bad_pubkeys(cv, Q, r):
                cases.append(C("cert", "pubkey-" + k, m_in("certdata", b"holder:" + bad), "ERR_BAD_CERT", qc, "cert", show=how))
            cases.append(C("cert", "shorter-than-a-pubkey", m_many(m_in("certdata", Q[:cv.no]), lambda a: put(a, _cert_struct(cv.no))),
                           "ERR_BAD_CERT", qc, "cert"))
        return {"args": args, "cases": cases}
    return build


ROWS["bakeBMQVStart"] = Row(_start_row("bakeBMQVStart", "bakeBMQV_keep", "bake.h", True, None))
ROWS["bakeBSTSStart"] = Row(_start_row("bakeBSTSStart", "bakeBSTS_keep", "bake.h", True, "both"))
ROWS["bakeBPACEStart"] = Row(_start_row("bakeBPACEStart", "bakeBPACE_keep", "bake.h", False, None))
ROWS["btokBAuthTStart"] = Row(_start_row("btokBAuthTStart", "btokBAuthT_keep", "btok.h", True, "kca"))
ROWS["btokBAuthCTStart"] = Row(_start_row("btokBAuthCTStart", "btokBAuthCT_keep", "btok.h", True, "kca"))


@row("bakeSWU")
def _bake_swu(E, r):
    cv = curve(E, r.choice((128, 192, 256)))
    args = [OUT("pt", 2 * cv.no), IN("params", cv.image), IN("msg", rb(r, cv.no))]
    return {"args": args, "cases": params_cases("bakeSWU", cv, "bake.h", r)}


# ===========================================================================
# btok.h: secure messaging
# ===========================================================================

class _ApduCmd(ctypes.Structure):
    _fields_ = [("cla", ctypes.c_ubyte), ("ins", ctypes.c_ubyte), ("p1", ctypes.c_ubyte), ("p2", ctypes.c_ubyte),
                ("rdf_len", ctypes.c_size_t), ("cdf_len", ctypes.c_size_t)]


class _ApduResp(ctypes.Structure):
    _fields_ = [("sw1", ctypes.c_ubyte), ("sw2", ctypes.c_ubyte), ("rdf_len", ctypes.c_size_t)]


CMD_HDR, RESP_HDR = ctypes.sizeof(_ApduCmd), ctypes.sizeof(_ApduResp)


def _sm_state(key, incs):
    def f(lib):
        st = lib.alloc(lib.btokSM_keep())
        lib.btokSMStart(st, lib.mk(key))
        for _ in range(incs):
            lib.btokSMCtrInc(st)
        return st
    return PREP("state", f, "btokSMStart + %d x btokSMCtrInc" % incs)


def _sm_cmd(r):
    cdf = rb(r, r.choice((0, 1, 16, 40, 200)))
    rdf_len = r.choice((0, 1, 20, 256))
    cla = r.choice((0x00, 0x80, 0x03))
    return bytes(_ApduCmd(cla, r.randrange(256), r.randrange(256), r.randrange(256), rdf_len, len(cdf))) + cdf, cdf


def _sm_wrap_cmd(E, key, cmd):
    lib = E.lib
    st = _sm_state(key, 1)["f"](lib)
    pc, pn = lib.mk(cmd), lib.alloc(8)
    E.call_ok("btokSMCmdWrap", 0, pn, pc, st)
    n = lib.rd_size(pn)
    o = lib.alloc(n)
    E.call_ok("btokSMCmdWrap", o, pn, pc, st)
    out = lib.rd(o, n)
    lib.release()
    return out


def _sm_wrap_resp(E, key, resp):
    lib = E.lib
    st = _sm_state(key, 2)["f"](lib)
    pc, pn = lib.mk(resp), lib.alloc(8)
    E.call_ok("btokSMRespWrap", 0, pn, pc, st)
    n = lib.rd_size(pn)
    o = lib.alloc(n)
    E.call_ok("btokSMRespWrap", o, pn, pc, st)
    out = lib.rd(o, n)
    lib.release()
    return out


Q_SM_LOGIC = "\\expect{ERR_BAD_LOGIC} Непосредственно а момент %s счетчик SM принимает %s значение"


@row("btokSMCmdWrap")
def _sm_cmdwrap(E, r):
    key = rb(r, 32)
    cmd, cdf = _sm_cmd(r)
    n = len(_sm_wrap_cmd(E, key, cmd))
    args = [OUT("apdu", n), SZP("count", 0), IN("cmd", cmd), _sm_state(key, 1)]
    h = "btok.h btokSMCmdWrap "
    cases = [C("cmd.cla", "bit-0x04-set", m_in("cmd", bytes([cmd[0] | 0x04]) + cmd[1:]), "ERR_BAD_APDU",
               h + "\\expect{ERR_BAD_APDU} В cmd->cla снят бит 0x04 (признак защиты)", "flag")]
    for k in (0, 2):
        cases.append(C("state.ctr", "even(%d)" % k, (lambda k=k: (lambda a: put(a, _sm_state(key, k))))(), "ERR_BAD_LOGIC",
                       h + Q_SM_LOGIC % ("установки защиты (apdu != 0 && state != 0)", "нечетное"), "state"))
    return {"args": args, "cases": cases}


@row("btokSMCmdUnwrap")
def _sm_cmdunwrap(E, r):
    lib = E.lib
    key = rb(r, 32)
    while True:
        cmd, cdf = _sm_cmd(r)
        if len(cdf) >= 8:
            break
    apdu = _sm_wrap_cmd(E, key, cmd)
    size = CMD_HDR + len(cdf)
    args = [IO("cmd", bytes(size)), SZP("size", 0), IN("apdu", apdu), V("count", len(apdu)), _sm_state(key, 1)]
    h = "btok.h btokSMCmdUnwrap "
    qa = h + "\\expect{ERR_BAD_APDU} Если state != 0, то в cmd->cla установлен бит 0x04 (признак защиты). Если state == 0, то бит снят"
    # plain encoding of the same command
    pn = lib.alloc(8)
    E.call_ok("btokSMCmdWrap", 0, pn, lib.mk(cmd), 0)
    o = lib.alloc(lib.rd_size(pn))
    E.call_ok("btokSMCmdWrap", o, pn, lib.mk(cmd), 0)
    plain = lib.rd(o, lib.rd_size(pn))
    lib.release()
    cases = [C("apdu.cla", "protected-apdu,state=0", m_val("state", 0), "ERR_BAD_APDU", qa, "flag"),
             C("apdu.cla", "plain-apdu,state!=0", m_many(m_in("apdu", plain), m_val("count", len(plain))), "ERR_BAD_APDU", qa, "flag")]
    for k in (0, 2):
        cases.append(C("state.ctr", "even(%d)" % k, (lambda k=k: (lambda a: put(a, _sm_state(key, k))))(), "ERR_BAD_LOGIC",
                       h + Q_SM_LOGIC % ("снятия защиты (cmd != 0 && state != 0)", "нечетное"), "state"))
    qt = h + "\\return ERR_OK в случае успеха и код ошибки в противном случае (контроль целостности)"
    n = len(apdu)
    for name, i in (("mac", n - 1 - r.randrange(8) - (1 if cmd[4:12] != bytes(8) and False else 0)), ("body", 5 + r.randrange(max(1, n - 5 - 12)))):
        cases.append(C("apdu", name + "-bit-flipped", m_in("apdu", _flip(apdu, min(i, n - 1), 1 << r.randrange(8))), "ANY", qt, "release", secret=cdf))
    cases.append(C("state.key", "other-key", lambda a: put(a, _sm_state(_flip(key, r.randrange(32), 1), 1)), "ANY", qt, "release", secret=cdf))
    return {"args": args, "cases": cases}


def _sm_resp(r):
    rdf = rb(r, r.choice((0, 8, 20, 100)))
    return bytes(_ApduResp(0x90, 0x00, len(rdf))) + rdf, rdf


@row("btokSMRespWrap")
def _sm_respwrap(E, r):
    key = rb(r, 32)
    resp, rdf = _sm_resp(r)
    n = len(_sm_wrap_resp(E, key, resp))
    args = [OUT("apdu", n), SZP("count", 0), IN("resp", resp), _sm_state(key, 2)]
    cases = []
    for k in (1, 3):
        cases.append(C("state.ctr", "odd(%d)" % k, (lambda k=k: (lambda a: put(a, _sm_state(key, k))))(), "ERR_BAD_LOGIC",
                       "btok.h btokSMRespWrap " + Q_SM_LOGIC % ("установки защиты (apdu != 0 && state != 0)", "четное"), "state"))
    return {"args": args, "cases": cases}


@row("btokSMRespUnwrap")
def _sm_respunwrap(E, r):
    key = rb(r, 32)
    while True:
        resp, rdf = _sm_resp(r)
        if len(rdf) >= 8:
            break
    apdu = _sm_wrap_resp(E, key, resp)
    args = [IO("resp", bytes(RESP_HDR + len(rdf))), SZP("size", 0), IN("apdu", apdu), V("count", len(apdu)), _sm_state(key, 2)]
    h = "btok.h btokSMRespUnwrap "
    cases = []
    for k in (1, 3):
        cases.append(C("state.ctr", "odd(%d)" % k, (lambda k=k: (lambda a: put(a, _sm_state(key, k))))(), "ERR_BAD_LOGIC",
                       h + Q_SM_LOGIC % ("снятия защиты (resp != 0 && state != 0)", "четное"), "state"))
    qt = h + "\\return ERR_OK в случае успеха и код ошибки в противном случае (контроль целостности)"
    n = len(apdu)
    cases.append(C("apdu", "mac-bit-flipped", m_in("apdu", _flip(apdu, n - 3 - r.randrange(8), 1 << r.randrange(8))), "ANY", qt, "release", secret=rdf))
    cases.append(C("apdu", "body-bit-flipped", m_in("apdu", _flip(apdu, 3 + r.randrange(len(rdf)), 1 << r.randrange(8))), "ANY", qt, "release", secret=rdf))
    cases.append(C("state.key", "other-key", lambda a: put(a, _sm_state(_flip(key, r.randrange(32), 1), 2)), "ANY", qt, "release", secret=rdf))
    return {"args": args, "cases": cases}


# ===========================================================================
# btok.h: CV certificates (content rules of btokCVCCheck; the header names no error class -> any error)
# ===========================================================================

class _CVC(ctypes.Structure):
    _fields_ = [("authority", ctypes.c_ubyte * 13), ("holder", ctypes.c_ubyte * 13), ("pubkey", ctypes.c_ubyte * 128),
                ("pubkey_len", ctypes.c_size_t), ("from_", ctypes.c_ubyte * 6), ("until", ctypes.c_ubyte * 6),
                ("hat_eid", ctypes.c_ubyte * 5), ("hat_esign", ctypes.c_ubyte * 2), ("sig", ctypes.c_ubyte * 96), ("sig_len", ctypes.c_size_t)]


CVC_SIZE = ctypes.sizeof(_CVC)
NAMECHARS = b"0123456789ABCDEFGHIJKLMNOPQRSTUVWXYZabcdefghijklmnopqrstuvwxyz"


def _fld(b, n):
    return (ctypes.c_ubyte * n)(*(bytes(b) + bytes(n))[:n])


def _cvc_image(c):
    s = _CVC(_fld(c["authority"], 13), _fld(c["holder"], 13), _fld(c["pubkey"], 128), c.get("pubkey_len", len(c["pubkey"])),
             _fld(c["from"], 6), _fld(c["until"], 6), _fld(c["hat_eid"], 5), _fld(c["hat_esign"], 2), _fld(b"", 96), 0)
    return bytes(s)


def _ymd(y, m, d):
    return bytes([y // 10, y % 10, m // 10, m % 10, d // 10, d % 10])


def _cvc_content(E, r, self_signed=True):
    cv = curve(E, r.choice((128, 192, 256)))
    d, Q = cv.keypair(E, r)
    name = bytes(r.choice(NAMECHARS) for _ in range(r.choice((8, 10, 12))))
    other = bytes(r.choice(NAMECHARS) for _ in range(r.choice((8, 12))))
    c = {"authority": name if self_signed else other, "holder": name, "pubkey": Q, "from": _ymd(22, 7, 7), "until": _ymd(30, 1, 31),
         "hat_eid": rb(r, 5), "hat_esign": rb(r, 2)}
    return cv, d, Q, c


def _cvc_bad_contents(cv, Q, c, r):
    q = ("btok.h btokCVCCheck: 'Проверка завершается успешно, если: cтроки authority и holder состоят из печатаемых символов; длины "
         "лежат в диапазоне от 8 до 12; даты from и until корректны; from <= until; открытый ключ корректен' \\return ... код ошибки в противном случае")
    out = []
    mk = lambda **kw: _cvc_image(dict(c, **kw))
    out.append(("holder", "length-7", mk(holder=c["holder"][:7])))
    out.append(("holder", "length-0", mk(holder=b"")))
    out.append(("authority", "length-7", mk(authority=c["authority"][:7])))
    out.append(("holder", "non-printable", mk(holder=c["holder"][:3] + b"\x01" + c["holder"][4:])))
    # 13 characters without a terminator inside the 13-octet field
    out.append(("holder", "length-13-unterminated", mk(holder=(c["holder"] * 2)[:13])))
    out.append(("from", "month-13", mk(**{"from": _ymd(22, 13, 1)})))
    out.append(("until", "day-32", mk(until=_ymd(30, 1, 32))))
    out.append(("from", "octet>9", mk(**{"from": bytes([2, 10, 0, 1, 0, 1])})))
    out.append(("from,until", "from>until", mk(**{"from": _ymd(30, 2, 1)})))
    for k, how, bad in bad_pubkeys(cv, Q, r)[:3]:
        out.append(("pubkey", k, mk(pubkey=bad)))
    out.append(("pubkey_len", "l/2-1", mk(pubkey=Q[:-1])))
    out.append(("pubkey_len", "0-in-Check", None))
    return q, [x for x in out if x[2] is not None]


@row("btokCVCCheck")
def _cvc_check(E, r):
    cv, d, Q, c = _cvc_content(E, r)
    args = [IN("cvc", _cvc_image(c))]
    q, bad = _cvc_bad_contents(cv, Q, c, r)
    return {"args": args, "cases": [C("cvc." + f, k, m_in("cvc", img), "ANY", q, "cvc") for f, k, img in bad]}


def _cvc_wrap(E, c, d):
    lib = E.lib
    pc, pl, pk = lib.mk(_cvc_image(c)), lib.alloc(8), lib.mk(d)
    E.call_ok("btokCVCWrap", 0, pl, pc, pk, len(d))
    n = lib.rd_size(pl)
    o = lib.alloc(n)
    E.call_ok("btokCVCWrap", o, pl, pc, pk, len(d))
    out = lib.rd(o, n)
    lib.release()
    return out


@row("btokCVCWrap")
def _cvc_wrap_row(E, r):
    cv, d, Q, c = _cvc_content(E, r)
    cert = _cvc_wrap(E, c, d)
    args = [OUT("cert", len(cert)), SZP("cert_len", 0), IO("cvc", _cvc_image(c)), IN("privkey", d), V("privkey_len", len(d))]
    q, bad = _cvc_bad_contents(cv, Q, c, r)
    q = "btok.h btokCVCWrap: 'Непосредственно перед созданием сертификата проверяется содержание cvc' / " + q
    return {"args": args, "cases": [C("cvc." + f, k, (lambda img=img: (lambda a: put(a, IO("cvc", img))))(), "ANY", q, "cvc") for f, k, img in bad]}


@row("btokCVCUnwrap")
def _cvc_unwrap_row(E, r):
    cv, d, Q, c = _cvc_content(E, r)
    cert = _cvc_wrap(E, c, d)
    _, Q2 = cv.keypair(E, r)
    args = [IO("cvc", bytes(CVC_SIZE)), IN("cert", cert), V("cert_len", len(cert)), IN("pubkey", Q), V("pubkey_len", len(Q))]
    h = "btok.h btokCVCUnwrap "
    qs = h + "'Проверка завершается успешно, если: ... подпись cert признается корректной на открытом ключе pubkey' \\return ... код ошибки в противном случае"
    cases = [C("cert", "signature-bit-flipped", m_in("cert", _flip(cert, len(cert) - 1 - r.randrange(len(Q) // 2), 1 << r.randrange(8))), "ANY", qs, "auth"),
             C("cert", "body-bit-flipped", m_in("cert", _flip(cert, 12 + r.randrange(8), 1)), "ANY", qs, "auth"),
             C("pubkey", "other-valid-key", m_in("pubkey", Q2), "ANY", qs, "auth")]
    ql = h + "\\remark Длина cert должна в точности равняться cert_len. Противное считается ошибкой формата"
    cases.append(C("cert_len", "len-1", m_many(m_in("cert", cert[:-1]), m_val("cert_len", len(cert) - 1)), "ERR_BAD_FORMAT", ql, "length"))
    cases.append(C("cert_len", "len+1", m_many(m_in("cert", cert + b"\0"), m_val("cert_len", len(cert) + 1)), "ERR_BAD_FORMAT", ql, "length"))
    cases.append(C("cert_len", 0, m_many(m_in("cert", b""), m_val("cert_len", 0)), "ERR_BAD_FORMAT", ql, "length"))
    qp = h + "'Может передаваться нулевая длина pubkey_len, и тогда: ... индуцируется ошибка, если pubkey != 0 && pubkey != cvc->pubkey'"
    cases.append(C("pubkey_len", "0-with-foreign-pubkey", m_val("pubkey_len", 0), "ANY", qp, "length"))
    return {"args": args, "cases": cases}


@row("btokCVCMatch")
def _cvc_match_row(E, r):
    cv, d, Q, c = _cvc_content(E, r)
    cert = _cvc_wrap(E, c, d)
    d2, _ = cv.keypair(E, r)
    args = [IN("cert", cert), V("cert_len", len(cert)), IN("privkey", d), V("privkey_len", len(d))]
    q = "btok.h btokCVCMatch: 'Проверка завершается успешно, если: cert имеет корректный формат; открытый ключ cert соответствует privkey' \\return ... код ошибки в противном случае"
    cases = [C("privkey", "other-valid-key", m_in("privkey", d2), "ANY", q, "auth"),
             C("cert_len", "len-1", m_many(m_in("cert", cert[:-1]), m_val("cert_len", len(cert) - 1)), "ANY", q, "length"),
             C("cert", "tag-changed", m_in("cert", bytes([cert[0] ^ 0x20]) + cert[1:]), "ANY", q, "identifier")]
    cases += [C("privkey", k, m_in("privkey", v), "ANY", q, "privkey") for k, v in bad_privkeys(cv)]
    return {"args": args, "cases": cases}


# ===========================================================================
# bpki.h
# ===========================================================================

def _bpki_wrap(E, fn, key, pwd, salt, it):
    lib = E.lib
    pn = lib.alloc(8)
    E.call_ok(fn, 0, pn, 0, len(key), 0, len(pwd), 0, it)
    n = lib.rd_size(pn)
    o = lib.alloc(n)
    E.call_ok(fn, o, pn, lib.mk(key), len(key), lib.mk(pwd), len(pwd), lib.mk(salt), it)
    out = lib.rd(o, n)
    lib.release()
    return out


def _bpki_material(E, which, klen):
    """one container per (kind, key length) and worker: PBKDF2 with 10000 iterations is the expensive part"""
    def f():
        r = __import__("random").Random("%d/bpki/%s/%d" % (E.base, which, klen))
        key = rb(r, klen)
        if which == "share":
            key = bytes([1 + r.randrange(16)]) + key[1:]
        pwd, salt = rb(r, r.choice((1, 8, 20))), rb(r, 8)
        epki = _bpki_wrap(E, "bpkiPrivkeyWrap" if which == "priv" else "bpkiShareWrap", key, pwd, salt, 10000)
        return key, pwd, salt, epki
    return E.memo(("bpki", which, klen), f)


def _wrap_row(fn, which, lens, q_len, cls_len):
    def build(E, r):
        klen = r.choice(lens)
        key, pwd, salt, epki = _bpki_material(E, which, klen)
        keyarg = "privkey" if which == "priv" else "share"
        args = [OUT("epki", len(epki)), SZP("epki_len", 0), IN(keyarg, key), V(keyarg + "_len", klen), IN("pwd", pwd), V("pwd_len", len(pwd)),
                IN("salt", salt), V("iter", 10000)]
        h = "bpki.h %s " % fn
        cases = []
        bad = (0, 1, 31, 33, 47, 49, 63, 65, 128) if which == "priv" else (0, 1, 16, 18, 24, 26, 32, 34, 64)
        for v in bad:
            data = (bytes([key[0]]) + bytes(range(1, 200)))[:v]
            cases.append(C(keyarg + "_len", v, m_many(m_val(keyarg + "_len", v), m_in(keyarg, data)), cls_len, h + q_len, "length"))
        if which == "share":
            for v in (0, 17, 18, 128, 255):
                cases.append(C("share[0]", v, m_in("share", bytes([v]) + key[1:]), "ERR_BAD_SHAREKEY",
                               h + "\\expect{ERR_BAD_SHAREKEY} Если share != 0, то 1 <= share[0] <= 16", "identifier"))
        for v in (0, 1, 9999):
            cases.append(C("iter", v, m_val("iter", v), "ERR_BAD_INPUT", h + "\\expect{ERR_BAD_INPUT} iter >= 10000", "count"))
        return {"args": args, "cases": cases}
    return build


ROWS["bpkiPrivkeyWrap"] = Row(_wrap_row("bpkiPrivkeyWrap", "priv", (32, 48, 64), "\\expect{ERR_BAD_PRIVKEY} privkey_len \\in {32, 48, 64}", "ERR_BAD_PRIVKEY"))
ROWS["bpkiShareWrap"] = Row(_wrap_row("bpkiShareWrap", "share", (17, 25, 33), "\\expect{ERR_BAD_SHAREKEY} share_len \\in {17, 25, 33}", "ERR_BAD_SHAREKEY"))


def _unwrap_row(fn, which, lens):
    def build(E, r):
        klen = r.choice(lens)
        key, pwd, salt, epki = _bpki_material(E, which, klen)
        keyarg = "privkey" if which == "priv" else "share"
        args = [OUT(keyarg, klen), SZP(keyarg + "_len", 0), IN("epki", epki), V("epki_len", len(epki)), IN("pwd", pwd), V("pwd_len", len(pwd))]
        q = "bpki.h %s: 'Защита снимается на пароле [pwd_len]pwd' \\return ERR_OK, если ... успешно извлечен, и код ошибки в противном случае" % fn
        n = len(epki)
        cases = [C("pwd", "wrong-password", m_in("pwd", _flip(pwd, r.randrange(len(pwd)), 1 << r.randrange(8))), "ANY", q, "release", secret=key[1:] if which == "share" else key),
                 C("epki", "last-octet-flipped", m_in("epki", _flip(epki, n - 1, 0x80)), "ANY", q, "release", secret=key),
                 C("epki", "encrypted-part-bit-flipped", m_in("epki", _flip(epki, n - 2 - r.randrange(klen), 1 << r.randrange(8))), "ANY", q, "release", secret=key),
                 C("epki_len", "truncated", m_many(m_in("epki", epki[:-1]), m_val("epki_len", n - 1)), "ANY", q, "release", secret=key)]
        return {"args": args, "cases": cases}
    return build


ROWS["bpkiPrivkeyUnwrap"] = Row(_unwrap_row("bpkiPrivkeyUnwrap", "priv", (32, 48, 64)))


def _share_container_with_number(E, klen, num):
    """a well-formed, correctly protected container whose share carries the number num in its first octet: the valid
    container is opened with the library's own PBKDF2 + KWP, one octet of the plaintext is changed, and it is re-protected"""
    def f():
        lib = E.lib
        key, pwd, salt, epki = _bpki_material(E, "share", klen)
        k = lib.alloc(32)
        E.call_ok("beltPBKDF2", k, lib.mk(pwd), len(pwd), 10000, lib.mk(salt), 8)
        kek = lib.rd(k, 32)
        lib.release()
        for ln in range(32, len(epki)):
            o = lib.alloc(ln - 16)
            ret = lib.beltKWPUnwrap(o, lib.mk(epki[-ln:]), ln, 0, lib.mk(kek), 32)
            pki = lib.rd(o, ln - 16)
            lib.release()
            if ret == 0:
                i = pki.find(key)
                if i < 0:
                    raise Harness("share not found in the opened container")
                pki2 = pki[:i] + bytes([num]) + pki[i + 1:]
                o = lib.alloc(ln)
                E.call_ok("beltKWPWrap", o, lib.mk(pki2), len(pki2), 0, lib.mk(kek), 32)
                out = epki[:-ln] + lib.rd(o, ln)
                lib.release()
                return out
        raise Harness("could not open the share container")
    return E.memo(("bpki-share-num", klen, num), f)


def _share_unwrap(E, r):
    base = _unwrap_row("bpkiShareUnwrap", "share", (17, 25, 33))(E, r)
    klen = len(arg(base["args"], "epki")["data"]) and arg(base["args"], "share")["size"]
    q = "bpki.h bpkiShareUnwrap \\expect{ERR_BAD_SECKEY} Если share != 0, то 1 <= share[0] <= 16"
    for num in (0, 17, 255):
        e2 = _share_container_with_number(E, klen, num)
        base["cases"].append(C("share[0]", num, m_many(m_in("epki", e2), m_val("epki_len", len(e2))), "ERR_BAD_SECKEY", q, "identifier"))
    return base


ROWS["bpkiShareUnwrap"] = Row(_share_unwrap)

CSR_HEX = ("3082017A30820134020100305F3115301306035504030C0C524F4245525420534D495448310E300C06035504040C05534D495448310F300D060355042A0C06"
           "524F42455254311830160603550405130F50415347422D353333333234343238310B3009060355040613024742305D3018060A2A7000020022652D0201060A2A70"
           "00020022652D0301034100F64CDDFFE4D546EF484471583FAEBA9A38061084E280BF996F90BA6AF0DB6620F59ABAA7AD29D4E7D1CA0C21DD9E32D485F9E74084"
           "1F4317CA9481503D1F1B50A06F301F06092A864886F70D01090731120C102F494E464F3A65726970323334313233304C06092A864886F70D01090E313F303D30"
           "170603551D200410300E300C060A2A7000020022654E023D30220603551D11041B30198117726F626572742E736D697468406578616D706C652E756B300D0609"
           "2A7000020022652D0C050003310082B4F9F934E3FD457F5DF06AE63A88E722E35D35F565551535BA94CEF9243011999DF2159E4F4BAC22AD8C3135A3BD26")


def _csr_bad_formats(csr, r):
    out = [("truncated", csr[:-1]), ("trailing-octet", csr + b"\0"), ("empty", b""), ("outer-tag-changed", bytes([0x31]) + csr[1:]),
           ("outer-length+1", csr[:3] + bytes([csr[3] + 1]) + csr[4:])]
    # the curve OID 1.2.112.0.2.0.34.101.45.3.1 -> ...3.2 (bign-curve384v1: not the documented parameter set)
    i = csr.find(bytes.fromhex("060A2A7000020022652D0301"))
    if i > 0:
        out.append(("other-curve-oid", csr[:i + 11] + b"\x02" + csr[i + 12:]))
    return out


@row("bpkiCSRRewrap")
def _csr_rewrap(E, r):
    cv = curve(E, 128)
    d, Q = cv.keypair(E, r)
    csr = bytes.fromhex(CSR_HEX)
    args = [IO("csr", csr), V("csr_len", len(csr)), IN("privkey", d), V("privkey_len", 32)]
    h = "bpki.h bpkiCSRRewrap "
    cases = []
    for v in (0, 1, 24, 31, 33, 48, 64):
        cases.append(C("privkey_len", v, m_many(m_val("privkey_len", v), m_in("privkey", (d * 2)[:v])), "ERR_NOT_IMPLEMENTED",
                       h + "\\expect{ERR_NOT_IMPLEMENTED} privkey_len == 32", "length"))
    qf = h + "\\expect{ERR_BAD_FORMAT} Формат запроса соответствует СТБ 34.101.17 / используются стандартные долговременные параметры bign-curve256v1 и алгоритм bign-with-hbelt"
    for k, data in _csr_bad_formats(csr, r):
        cases.append(C("csr", k, (lambda data=data: (lambda a: (put(a, IO("csr", data)), put(a, V("csr_len", len(data))))))(), "ERR_BAD_FORMAT", qf, "format"))
    cases += [C("privkey", k, m_in("privkey", v), "ANY", "bpki.h bpkiCSRRewrap: \\return ... код ошибки в противном случае (открытый ключ строится по privkey: bign.h "
                "bignPubkeyCalc \\expect{ERR_BAD_PRIVKEY})", "privkey") for k, v in bad_privkeys(cv)]
    return {"args": args, "cases": cases}


@row("bpkiCSRUnwrap")
def _csr_unwrap(E, r):
    csr = bytes.fromhex(CSR_HEX)
    args = [OUT("pubkey", 64), SZP("pubkey_len", 0), IN("csr", csr), V("csr_len", len(csr))]
    h = "bpki.h bpkiCSRUnwrap "
    qf = h + "\\expect{ERR_BAD_FORMAT} Формат запроса соответствует СТБ 34.101.17 / используются стандартные долговременные параметры bign-curve256v1 и алгоритм bign-with-hbelt"
    cases = [C("csr", k, m_many(m_in("csr", data), m_val("csr_len", len(data))), "ERR_BAD_FORMAT", qf, "format") for k, data in _csr_bad_formats(csr, r)]
    qs = h + "'Подпись запроса проверяется на открытом ключе, вложенном в запрос' \\return ... код ошибки в противном случае"
    cases.append(C("csr", "signature-bit-flipped", m_in("csr", _flip(csr, len(csr) - 1 - r.randrange(48), 1 << r.randrange(8))), "ANY", qs, "auth"))
    cases.append(C("csr", "subject-octet-changed", m_in("csr", _flip(csr, 30 + r.randrange(10), 1)), "ANY", qs, "auth"))
    return {"args": args, "cases": cases}


GROUPS += [
    ("bake-start", ["bakeSWU", "bakeBMQVStart", "bakeBSTSStart", "bakeBPACEStart", "btokBAuthTStart", "btokBAuthCTStart"], 4, 16),
    ("btok-sm", ["btokSMCmdWrap", "btokSMCmdUnwrap", "btokSMRespWrap", "btokSMRespUnwrap"], 10, 50),
    ("btok-cvc", ["btokCVCCheck", "btokCVCWrap", "btokCVCUnwrap", "btokCVCMatch"], 4, 16),
    ("bpki", ["bpkiPrivkeyWrap", "bpkiPrivkeyUnwrap", "bpkiShareWrap", "bpkiShareUnwrap", "bpkiCSRRewrap", "bpkiCSRUnwrap"], 2, 6),
]
SPLIT.update({"bake-start": (1, 2), "btok-sm": (1, 2), "btok-cvc": (1, 2), "bpki": (2, 3)})


# ===========================================================================
# dstu.h
# ===========================================================================

class _DstuParams(ctypes.Structure):
    _fields_ = [("p", ctypes.c_uint16 * 4), ("A", ctypes.c_ubyte), ("B", ctypes.c_ubyte * 64), ("n", ctypes.c_ubyte * 64),
                ("c", ctypes.c_uint32), ("P", ctypes.c_ubyte * 128)]


DSTU_NAMES = ["1.2.804.2.1.1.1.1.3.1.1.1.2.%d" % i for i in range(10)]


class Dstu:
    def __init__(self, E, name):
        lib = E.lib
        r = __import__("random").Random("%d/dstu/%s" % (E.base, name))
        size = ctypes.sizeof(_DstuParams)
        p = lib.alloc(size, 0)
        E.call_ok("dstuParamsStd", p, lib.cstr(name))
        raw = bytearray(lib.rd(p, size))
        S = _DstuParams.from_buffer_copy(bytes(raw))
        self.m = S.p[0]
        self.no = (self.m + 7) // 8
        self.n = int.from_bytes(bytes(S.n), "little")
        self.order_no = (self.n.bit_length() + 7) // 8
        # the standard gives no base point: generate one (valid call) and store it in params->P
        gen, st = E.live_rng(r)
        pt = lib.alloc(2 * self.no)
        E.call_ok("dstuPointGen", pt, lib.mk(bytes(raw)), gen, st)
        off = _DstuParams.P.offset
        raw[off:off + 2 * self.no] = lib.rd(pt, 2 * self.no)
        self.image = bytes(raw)
        lib.release()

    def patched(self, **kw):
        S = _DstuParams.from_buffer_copy(self.image)
        for k, v in kw.items():
            if k == "p":
                for i, x in enumerate(v):
                    S.p[i] = x
            else:
                setattr(S, k, v)
        return bytes(S)

    def keypair(self, E, r):
        lib = E.lib
        gen, st = E.live_rng(r)
        d, Q = lib.alloc(self.order_no), lib.alloc(2 * self.no)
        E.call_ok("dstuKeypairGen", d, Q, lib.mk(self.image), gen, st)
        out = lib.rd(d, self.order_no), lib.rd(Q, 2 * self.no)
        lib.release()
        return out


def dstu(E, r, small=True):
    name = r.choice(DSTU_NAMES[:3] if small else DSTU_NAMES)
    return E.memo(("dstu", name), lambda: Dstu(E, name))


def dstu_params_cases(fn, ds, what="Параметры params корректны"):
    q = "dstu.h %s \\expect{ERR_BAD_PARAMS} %s" % (fn, what)
    S = _DstuParams.from_buffer_copy(ds.image)
    p = list(S.p)
    out = []
    for m in (0, 1, 159, 510, 511, 65535):
        out.append(C("params.p[0]", m, m_in("params", ds.patched(p=[m, min(p[1], m), min(p[2], m), min(p[3], m)])), "ERR_BAD_PARAMS",
                     q + " (dstu.h: степень расширения m, максимальная размерность соответствует степени 509)", "level"))
    for a in (2, 3, 255):
        out.append(C("params.A", a, m_in("params", ds.patched(A=a)), "ERR_BAD_PARAMS", q + " (dstu.h: коэффициент A (0 или 1))", "params"))
    out.append(C("params.p", "normal-basis", m_in("params", ds.patched(p=[p[0], 0, 0, 0])), "ERR_BAD_PARAMS",
                 q + " (dstu.h: Операции в нормальном базисе не реализованы / параметры в нормальном базисе не поддержаны)", "params"))
    out.append(C("params.p", "p[1]>p[0]", m_in("params", ds.patched(p=[p[0], p[0] + 1, p[2], p[3]])), "ERR_BAD_PARAMS",
                 q + " (dstu.h: p[0] >= p[1] >= p[2] >= p[3])", "params"))
    if p[2] == 0:
        out.append(C("params.p", "p[2]=0,p[3]!=0", m_in("params", ds.patched(p=[p[0], p[1], 0, 1])), "ERR_BAD_PARAMS",
                     q + " (dstu.h: При p[2] == 0 должно выполняться также p[3] == 0)", "params"))
    else:
        out.append(C("params.p", "p[3]>p[2]", m_in("params", ds.patched(p=[p[0], p[1], p[2], p[2] + 1])), "ERR_BAD_PARAMS",
                     q + " (dstu.h: p[0] >= p[1] >= p[2] >= p[3])", "params"))
    return out


ROWS["dstuParamsStd"] = Row(_std_row("dstuParamsStd", DSTU_NAMES, ctypes.sizeof(_DstuParams),
                                     ["", "1.2.804.2.1.1.1.1.3.1.1.1.2.10", "1.2.804.2.1.1.1.1.3.1.1.1.2", "1.2.804.2.1.1.1.1.3.1.1.1.2.0.", "dstu163"]))


@row("dstuParamsVal")
def _dstu_params_val(E, r):
    ds = dstu(E, r)
    cases = [dict(c, expect={"ANY"}) for c in dstu_params_cases("dstuParamsVal", ds)]
    for c in cases:
        c["quote"] = "dstu.h dstuParamsVal: \\return ERR_OK, если параметры корректны, и код ошибки в противном случае / " + c["quote"]
    off = _DstuParams.P.offset
    bad = bytearray(ds.image)
    bad[off + ds.no] ^= 1          # y + 1: off the curve (y'^2 + x y' = y^2 + x y  <=>  delta in {0, x})
    if ds.image[off:off + ds.no] != bytes([1]) + bytes(ds.no - 1):
        cases.append(C("params.P", "off-curve", m_in("params", bytes(bad)), "ANY",
                       "dstu.h dstuParamsVal \\remark Проверяется корректность в том числе и базовой точки P", "params"))
    return {"args": [IN("params", ds.image)], "cases": cases}


@row("dstuPointGen")
def _dstu_point_gen(E, r):
    ds = dstu(E, r)
    args = [OUT("point", 2 * ds.no), IN("params", ds.image)] + E.rng_args(r)
    return {"args": args, "cases": dstu_params_cases("dstuPointGen", ds, "Параметры params (кроме базовой точки P) корректны")}


def _dstu_off_curve(ds, Q, r):
    """flip one bit delta of y: on the curve iff delta in {0, x}"""
    x = int.from_bytes(Q[:ds.no], "little")
    while True:
        i = r.randrange(ds.m - 1)
        if x != 1 << i:
            return Q[:ds.no] + _flip(Q[ds.no:], i // 8, 1 << (i % 8))


def _dstu_bad_points(ds, Q, r):
    out = [("off-curve", "y-bit-flipped", _dstu_off_curve(ds, Q, r))]
    if ds.m % 8:
        # coordinate of degree >= m: not an element of the field
        out.append(("coord-not-in-field", "x bit m set", _flip(Q, ds.no - 1, 1 << (ds.m % 8))))
        out.append(("coord-not-in-field", "y=ff..ff", Q[:ds.no] + b"\xff" * ds.no))
    return out


@row("dstuPointVal")
def _dstu_point_val(E, r):
    ds = dstu(E, r)
    d, Q = ds.keypair(E, r)
    # a public key is d * P: a point of order n, as dstuPointVal requires
    args = [IN("params", ds.image), IN("point", Q)]
    cases = dstu_params_cases("dstuPointVal", ds)
    q = "dstu.h dstuPointVal: \\return ERR_OK, если точка корректна, и код ошибки в противном случае"
    cases += [C("point", k, m_in("point", v), "ANY", q, "pubkey", show=how) for k, how, v in _dstu_bad_points(ds, Q, r)]
    return {"args": args, "cases": cases}


@row("dstuPointCompress")
def _dstu_point_compress(E, r):
    ds = dstu(E, r)
    d, Q = ds.keypair(E, r)
    return {"args": [OUT("xpoint", ds.no), IN("params", ds.image), IN("point", Q)], "cases": dstu_params_cases("dstuPointCompress", ds)}


@row("dstuPointRecover")
def _dstu_point_recover(E, r):
    lib = E.lib
    ds = dstu(E, r)
    d, Q = ds.keypair(E, r)
    xp = lib.alloc(ds.no)
    E.call_ok("dstuPointCompress", xp, lib.mk(ds.image), lib.mk(Q))
    x = lib.rd(xp, ds.no)
    lib.release()
    return {"args": [OUT("point", 2 * ds.no), IN("params", ds.image), IN("xpoint", x)], "cases": dstu_params_cases("dstuPointRecover", ds)}


@row("dstuKeypairGen")
def _dstu_keypair_gen(E, r):
    ds = dstu(E, r)
    args = [OUT("privkey", ds.order_no), OUT("pubkey", 2 * ds.no), IN("params", ds.image)] + E.rng_args(r)
    return {"args": args, "cases": dstu_params_cases("dstuKeypairGen", ds) + [rng_null_case("dstuKeypairGen", "dstu.h")]}


@row("dstuSign")
def _dstu_sign(E, r):
    ds = dstu(E, r)
    d, Q = ds.keypair(E, r)
    ld = 16 * ds.order_no + r.choice((0, 16, 64))
    hl = r.choice((1, 20, 32, ds.no, 64))
    args = [OUT("sig", ld // 8), IN("params", ds.image), V("ld", ld), IN("hash", rb(r, hl)), V("hash_len", hl), IN("privkey", d)] + E.rng_args(r)
    cases = dstu_params_cases("dstuSign", ds)
    q1 = "dstu.h dstuSign \\expect{ERR_BAD_INPUT} ld делится на 16"
    for v in (ld + 1, ld + 8, ld + 15):
        cases.append(C("ld", "ld%%16=%d" % (v % 16), m_many(m_val("ld", v), lambda a, v=v: put(a, OUT("sig", (v + 7) // 8))), "ERR_BAD_INPUT", q1, "length", show=v))
    q2 = "dstu.h dstuSign \\expect{ERR_BAD_INPUT} два вычета по модулю params->n укладываются в ld битов"
    for v in (0, 16, 16 * ds.order_no - 16):
        cases.append(C("ld", {0: "0", 16: "16"}.get(v, "16*order_no-16"), m_many(m_val("ld", v), lambda a, v=v: put(a, OUT("sig", v // 8))),
                       "ERR_BAD_INPUT", q2, "length", show=v))
    qk = "dstu.h dstuSign \\expect{ERR_BAD_PRIVKEY} Личный ключ privkey корректен"
    no = ds.order_no
    for k, v in (("0", 0), ("n", ds.n), ("n+1", ds.n + 1), ("2^(8 order_no)-1", (1 << (8 * no)) - 1)):
        if v < 1 << (8 * no):
            cases.append(C("privkey", k, m_in("privkey", v.to_bytes(no, "little")), "ERR_BAD_PRIVKEY", qk, "privkey"))
    cases.append(rng_null_case("dstuSign", "dstu.h"))
    return {"args": args, "cases": cases}


@row("dstuVerify")
def _dstu_verify(E, r):
    lib = E.lib
    ds = dstu(E, r)
    d, Q = ds.keypair(E, r)
    _, Q2 = ds.keypair(E, r)
    ld = 16 * ds.order_no + r.choice((0, 16, 64))
    h = rb(r, r.choice((20, 32, ds.no)))
    gen, st = E.live_rng(r)
    s = lib.alloc(ld // 8)
    E.call_ok("dstuSign", s, lib.mk(ds.image), ld, lib.mk(h), len(h), lib.mk(d), gen, st)
    sig = lib.rd(s, ld // 8)
    lib.release()
    args = [IN("params", ds.image), V("ld", ld), IN("hash", h), V("hash_len", len(h)), IN("sig", sig), IN("pubkey", Q)]
    cases = dstu_params_cases("dstuVerify", ds)
    qs = "dstu.h dstuVerify: \\return ERR_OK, если подпись корректна, и код ошибки в противном случае"
    qk = "dstu.h dstuVerify \\expect{ERR_BAD_PUBKEY} Открытый ключ pubkey корректен / " + qs
    for k, how, v in _dstu_bad_points(ds, Q, r):
        cases.append(C("pubkey", k, m_in("pubkey", v), ("ERR_BAD_PUBKEY", "ERR_BAD_SIG"), qk, "pubkey", show=how))
    cases.append(C("sig", "r-bit-flipped", m_in("sig", _flip(sig, r.randrange(ds.order_no - 1), 1 << r.randrange(8))), "ANY", qs, "auth"))
    cases.append(C("sig", "s-bit-flipped", m_in("sig", _flip(sig, ld // 16 + r.randrange(ds.order_no - 1), 1 << r.randrange(8))), "ANY", qs, "auth"))
    cases.append(C("hash", "bit-flipped", m_in("hash", _flip(h, 0, 1 << r.randrange(8))), "ANY", qs, "auth"))
    cases.append(C("pubkey", "other-valid-key", m_in("pubkey", Q2), "ANY", qs, "auth"))
    return {"args": args, "cases": cases}


# ===========================================================================
# g12s.h
# ===========================================================================

class _G12sParams(ctypes.Structure):
    _fields_ = [("l", ctypes.c_uint32), ("p", ctypes.c_ubyte * 68), ("a", ctypes.c_ubyte * 68), ("b", ctypes.c_ubyte * 68),
                ("q", ctypes.c_ubyte * 64), ("n", ctypes.c_uint32), ("xP", ctypes.c_ubyte * 68), ("yP", ctypes.c_ubyte * 68)]


G12S_NAMES = ["1.2.643.2.2.35.0", "1.2.643.2.2.35.1", "1.2.643.2.2.35.2", "1.2.643.2.2.35.3", "1.2.643.2.9.1.8.1",
              "1.2.643.7.1.2.1.2.0", "1.2.643.7.1.2.1.2.1", "1.2.643.7.1.2.1.2.2"]


class G12s:
    def __init__(self, E, name):
        lib = E.lib
        size = ctypes.sizeof(_G12sParams)
        p = lib.alloc(size, 0)
        E.call_ok("g12sParamsStd", p, lib.cstr(name))
        self.image = lib.rd(p, size)
        lib.release()
        S = _G12sParams.from_buffer_copy(self.image)
        self.l = S.l
        self.mo = S.l // 8
        i = lambda f: int.from_bytes(bytes(getattr(S, f)), "little")
        self.p, self.a, self.b, self.q = i("p"), i("a"), i("b"), i("q")
        self.no = (self.p.bit_length() + 7) // 8

    def patched(self, **kw):
        S = _G12sParams.from_buffer_copy(self.image)
        for k, v in kw.items():
            if isinstance(v, bytes):
                ctypes.memmove(ctypes.addressof(S) + getattr(_G12sParams, k).offset, v, len(v))
            else:
                setattr(S, k, v)
        return bytes(S)

    def on_curve(self, x, y):
        return x < self.p and y < self.p and (y * y - (x * x * x + self.a * x + self.b)) % self.p == 0

    def keypair(self, E, r):
        lib = E.lib
        gen, st = E.live_rng(r)
        d, Q = lib.alloc(self.mo), lib.alloc(2 * self.no)
        E.call_ok("g12sKeypairGen", d, Q, lib.mk(self.image), gen, st)
        out = lib.rd(d, self.mo), lib.rd(Q, 2 * self.no)
        lib.release()
        return out


def g12s(E, r):
    name = r.choice(G12S_NAMES)
    return E.memo(("g12s", name), lambda: G12s(E, name))


def g12s_params_cases(fn, g, expect="ERR_BAD_PARAMS"):
    q = "g12s.h %s \\expect{ERR_BAD_PARAMS} Параметры params корректны" % fn
    out = []
    for l in (0, 1, 128, 255, 257, 384, 511, 513, 1024, U32_MAX) + ((512,) if g.l == 256 and g.no > 32 else ()):
        out.append(C("params.l", l, m_in("params", g.patched(l=l)), expect, q + " (g12s.h: уровень стойкости (256 или 512))", "level"))
    out.append(C("params.p", "even", m_in("params", g.patched(p=(g.p - 1).to_bytes(68, "little"))), expect, q + " (p -- простое)", "params"))
    out.append(C("params.q", "even", m_in("params", g.patched(q=(g.q - 1).to_bytes(64, "little"))), expect, q + " (q -- простое)", "params"))
    return out


ROWS["g12sParamsStd"] = Row(_std_row("g12sParamsStd", G12S_NAMES, ctypes.sizeof(_G12sParams),
                                     ["", "1.2.643.2.2.35.4", "1.2.643.7.1.2.1.2.3", "1.2.643.2.2.35", "1.2.643.2.2.35.0.", "gost"]))


@row("g12sParamsVal", every=2)
def _g12s_params_val(E, r):
    g = g12s(E, r)
    cases = g12s_params_cases("g12sParamsVal", g, expect="ANY")
    for c in cases:
        c["quote"] = "g12s.h g12sParamsVal: \\return ERR_OK, если параметры корректны, и код ошибки в противном случае"
    return {"args": [IN("params", g.image)], "cases": cases}


@row("g12sKeypairGen")
def _g12s_keypair_gen(E, r):
    g = g12s(E, r)
    args = [OUT("privkey", g.mo), OUT("pubkey", 2 * g.no), IN("params", g.image)] + E.rng_args(r)
    return {"args": args, "cases": g12s_params_cases("g12sKeypairGen", g) + [rng_null_case("g12sKeypairGen", "g12s.h")]}


@row("g12sSign")
def _g12s_sign(E, r):
    g = g12s(E, r)
    d, Q = g.keypair(E, r)
    args = [OUT("sig", 2 * g.mo), IN("params", g.image), IN("hash", rb(r, g.mo)), IN("privkey", d)] + E.rng_args(r)
    cases = g12s_params_cases("g12sSign", g)
    qk = "g12s.h g12sSign \\expect{ERR_BAD_PRIVKEY} Личный ключ privkey корректен"
    for k, v in (("0", 0), ("q", g.q), ("q+1", g.q + 1), ("2^l-1", (1 << g.l) - 1)):
        cases.append(C("privkey", k, m_in("privkey", v.to_bytes(g.mo, "little")), "ERR_BAD_PRIVKEY", qk, "privkey"))
    cases.append(rng_null_case("g12sSign", "g12s.h"))
    return {"args": args, "cases": cases}


@row("g12sVerify")
def _g12s_verify(E, r):
    lib = E.lib
    g = g12s(E, r)
    d, Q = g.keypair(E, r)
    _, Q2 = g.keypair(E, r)
    h = rb(r, g.mo)
    gen, st = E.live_rng(r)
    s = lib.alloc(2 * g.mo)
    E.call_ok("g12sSign", s, lib.mk(g.image), lib.mk(h), lib.mk(d), gen, st)
    sig = lib.rd(s, 2 * g.mo)
    lib.release()
    args = [IN("params", g.image), IN("hash", h), IN("sig", sig), IN("pubkey", Q)]
    cases = g12s_params_cases("g12sVerify", g)
    qs = "g12s.h g12sVerify \\remark При нарушении ограничений на ЭЦП возвращается код ERR_BAD_SIG"
    qk = "g12s.h g12sVerify \\expect{ERR_BAD_PUBKEY} Открытый ключ pubkey корректен / " + qs
    no = g.no
    x, y = int.from_bytes(Q[:no], "little"), int.from_bytes(Q[no:], "little")
    enc = lambda x, y: x.to_bytes(no, "little") + y.to_bytes(no, "little")
    y2 = y ^ (1 << r.randrange(g.p.bit_length() - 2))
    if y2 < g.p and not g.on_curve(x, y2):
        cases.append(C("pubkey", "off-curve", m_in("pubkey", enc(x, y2)), ("ERR_BAD_PUBKEY", "ERR_BAD_SIG"), qk, "pubkey", show="y-bit-flipped"))
    if not g.on_curve(0, 0):
        cases.append(C("pubkey", "zero-point", m_in("pubkey", bytes(2 * no)), ("ERR_BAD_PUBKEY", "ERR_BAD_SIG"), qk, "pubkey"))
    if g.p < (1 << (8 * no)) - 1:
        cases.append(C("pubkey", "coord>=p", m_in("pubkey", enc(g.p, y)), ("ERR_BAD_PUBKEY", "ERR_BAD_SIG"), qk, "pubkey", show="x=p"))
        cases.append(C("pubkey", "coord>=p", m_in("pubkey", Q[:no] + b"\xff" * no), ("ERR_BAD_PUBKEY", "ERR_BAD_SIG"), qk, "pubkey", show="y=ff..ff"))
    cases.append(C("sig", "first-half-bit-flipped", m_in("sig", _flip(sig, 1 + r.randrange(g.mo - 1), 1 << r.randrange(8))), "ERR_BAD_SIG", qs, "auth"))
    cases.append(C("sig", "second-half-bit-flipped", m_in("sig", _flip(sig, g.mo + 1 + r.randrange(g.mo - 1), 1 << r.randrange(8))), "ERR_BAD_SIG", qs, "auth"))
    cases.append(C("sig", "all-zero", m_in("sig", bytes(2 * g.mo)), "ERR_BAD_SIG", qs, "auth"))
    cases.append(C("sig", "all-ff", m_in("sig", b"\xff" * (2 * g.mo)), "ERR_BAD_SIG", qs, "auth"))
    cases.append(C("hash", "bit-flipped", m_in("hash", _flip(h, r.randrange(g.mo), 1 << r.randrange(8))), "ERR_BAD_SIG", qs, "auth"))
    cases.append(C("pubkey", "other-valid-key", m_in("pubkey", Q2), "ERR_BAD_SIG", qs, "auth"))
    return {"args": args, "cases": cases}


# ===========================================================================
# pfok.h, stb99.h, rng.h
# ===========================================================================

class _PfokParams(ctypes.Structure):
    _fields_ = [("l", ctypes.c_size_t), ("r", ctypes.c_size_t), ("n", ctypes.c_size_t), ("p", ctypes.c_ubyte * 368), ("g", ctypes.c_ubyte * 368)]


class _PfokSeed(ctypes.Structure):
    _fields_ = [("l", ctypes.c_size_t), ("zi", ctypes.c_uint16 * 31), ("li", ctypes.c_size_t * 20)]


class _Stb99Params(ctypes.Structure):
    _fields_ = [("l", ctypes.c_size_t), ("r", ctypes.c_size_t), ("p", ctypes.c_ubyte * 308), ("q", ctypes.c_ubyte * 33),
                ("a", ctypes.c_ubyte * 308), ("d", ctypes.c_ubyte * 308)]


class _Stb99Seed(ctypes.Structure):
    _fields_ = [("l", ctypes.c_size_t), ("zi", ctypes.c_uint16 * 31), ("di", ctypes.c_size_t * 18), ("ri", ctypes.c_size_t * 10)]


class Pfok:
    def __init__(self, E, name):
        lib = E.lib
        size = ctypes.sizeof(_PfokParams)
        p, s = lib.alloc(size, 0), lib.alloc(ctypes.sizeof(_PfokSeed), 0)
        E.call_ok("pfokParamsStd", p, s, lib.cstr(name))
        self.image, self.seed = lib.rd(p, size), lib.rd(s, ctypes.sizeof(_PfokSeed))
        lib.release()
        S = _PfokParams.from_buffer_copy(self.image)
        self.l, self.r, self.n = S.l, S.r, S.n
        self.no, self.mo, self.ko = (S.l + 7) // 8, (S.r + 7) // 8, (S.n + 7) // 8
        self.p = int.from_bytes(bytes(S.p), "little")
        self.g = int.from_bytes(bytes(S.g), "little")

    def patched(self, **kw):
        S = _PfokParams.from_buffer_copy(self.image)
        for k, v in kw.items():
            if isinstance(v, bytes):
                ctypes.memmove(ctypes.addressof(S) + getattr(_PfokParams, k).offset, v, len(v))
            else:
                setattr(S, k, v)
        return bytes(S)

    def keypair(self, E, r):
        lib = E.lib
        gen, st = E.live_rng(r)
        d, Q = lib.alloc(self.mo), lib.alloc(self.no)
        E.call_ok("pfokKeypairGen", d, Q, lib.mk(self.image), gen, st)
        out = lib.rd(d, self.mo), lib.rd(Q, self.no)
        lib.release()
        return out


def pfok(E):
    return E.memo(("pfok", "test"), lambda: Pfok(E, "test"))


def pfok_params_cases(fn, pf, expect="ERR_BAD_PARAMS"):
    q = "pfok.h %s \\expect{ERR_BAD_PARAMS} Параметры params корректны" % fn
    out = []
    for l in (0, 1, pf.l - 1, pf.l + 1, pf.l + 8, 1024, 2943, SIZE_MAX):
        out.append(C("params.l", {pf.l - 1: "l-1", pf.l + 1: "l+1", pf.l + 8: "l+8"}.get(l, l), m_in("params", pf.patched(l=l)), expect,
                     q + " (pfok.h: l и r выбираются из таблицы 5.1)", "level"))
    for rr in (0, pf.r - 1, pf.r + 1, SIZE_MAX):
        out.append(C("params.r", {pf.r - 1: "r-1", pf.r + 1: "r+1"}.get(rr, rr), m_in("params", pf.patched(r=rr)), expect,
                     q + " (pfok.h: l и r выбираются из таблицы 5.1)", "level"))
    for nn in (pf.l, pf.l + 1, SIZE_MAX):
        out.append(C("params.n", {pf.l: "l", pf.l + 1: "l+1"}.get(nn, nn), m_in("params", pf.patched(n=nn)), expect, q + " (pfok.h pfokParamsVal: n < l)", "level"))
    out.append(C("params.p", "even", m_in("params", pf.patched(p=(pf.p - 1).to_bytes(368, "little"))), expect, q + " (p -- простое число битовой длины l)", "params"))
    out.append(C("params.g", "0", m_in("params", pf.patched(g=bytes(368))), expect, q + " (0 < g < p)", "params"))
    out.append(C("params.g", "p", m_in("params", pf.patched(g=pf.p.to_bytes(368, "little"))), expect, q + " (0 < g < p)", "params"))
    out.append(C("params.p", "unused-octets-nonzero", m_in("params", pf.patched(p=pf.p.to_bytes(pf.no, "little") + b"\x01" + bytes(367 - pf.no))), expect,
                 q + " (pfok.h: Неиспользуемые октеты заполняются нулями)", "params"))
    return out


ROWS["pfokParamsStd"] = Row(_std_row("pfokParamsStd", ["test"], ctypes.sizeof(_PfokParams), ["", "1.2.112.0.2.0.1176.2.3.3.1", "1.2.112.0.2.0.1176.2.3.3.3", "Test", "test "]))
ROWS["pfokParamsStd"].build = (lambda f: (lambda E, r: (lambda c: dict(c, args=[c["args"][0], IO("seed", bytes(ctypes.sizeof(_PfokSeed))), c["args"][1]]))(f(E, r))))(ROWS["pfokParamsStd"].build)
ROWS["stb99ParamsStd"] = Row(_std_row("stb99ParamsStd", ["test"], ctypes.sizeof(_Stb99Params), ["", "1.2.112.0.2.0.1176.2.3.3.2", "1.2.112.0.2.0.1176.2.3.3.0", "Test", "tes"]))
ROWS["stb99ParamsStd"].build = (lambda f: (lambda E, r: (lambda c: dict(c, args=[c["args"][0], IO("seed", bytes(ctypes.sizeof(_Stb99Seed))), c["args"][1]]))(f(E, r))))(ROWS["stb99ParamsStd"].build)


@row("pfokKeypairGen")
def _pfok_keypair_gen(E, r):
    pf = pfok(E)
    args = [OUT("privkey", pf.mo), OUT("pubkey", pf.no), IN("params", pf.image)] + E.rng_args(r)
    return {"args": args, "cases": pfok_params_cases("pfokKeypairGen", pf) + [rng_null_case("pfokKeypairGen", "pfok.h")]}


def _pfok_bad_pub(pf):
    return [("0", bytes(pf.no)), ("p", pf.p.to_bytes(pf.no, "little")), ("p+1", (pf.p + 1).to_bytes(pf.no, "little")), ("ff..ff", b"\xff" * pf.no)]


def _pfok_bad_priv(pf, d):
    out = []
    if pf.r % 8:
        out.append(("bit-r-set", _flip(d, pf.mo - 1, 1 << (pf.r % 8))))
        out.append(("ff..ff", b"\xff" * pf.mo))
    return out


@row("pfokPubkeyVal")
def _pfok_pubkey_val(E, r):
    pf = pfok(E)
    d, Q = pf.keypair(E, r)
    q = "pfok.h pfokPubkeyVal: \\return ERR_OK, если ключ корректен, и код ошибки в противном случае"
    cases = pfok_params_cases("pfokPubkeyVal", pf) + [C("pubkey", k, m_in("pubkey", v), "ANY", q, "pubkey") for k, v in _pfok_bad_pub(pf)]
    return {"args": [IN("params", pf.image), IN("pubkey", Q)], "cases": cases}


@row("pfokPubkeyCalc")
def _pfok_pubkey_calc(E, r):
    pf = pfok(E)
    d, Q = pf.keypair(E, r)
    q = "pfok.h pfokPubkeyCalc \\expect{ERR_BAD_PRIVKEY} Личный ключ privkey корректен ([O_OF_B(r)]privkey: битовая длина личного ключа r)"
    cases = pfok_params_cases("pfokPubkeyCalc", pf) + [C("privkey", k, m_in("privkey", v), "ERR_BAD_PRIVKEY", q, "privkey") for k, v in _pfok_bad_priv(pf, d)]
    return {"args": [OUT("pubkey", pf.no), IN("params", pf.image), IN("privkey", d)], "cases": cases}


@row("pfokDH")
def _pfok_dh(E, r):
    pf = pfok(E)
    d, _ = pf.keypair(E, r)
    _, Q = pf.keypair(E, r)
    cases = pfok_params_cases("pfokDH", pf)
    cases += [C("privkey", k, m_in("privkey", v), "ERR_BAD_PRIVKEY", "pfok.h pfokDH \\expect{ERR_BAD_PRIVKEY} Личный ключ privkey корректен", "privkey") for k, v in _pfok_bad_priv(pf, d)]
    cases += [C("pubkey", k, m_in("pubkey", v), "ERR_BAD_PUBKEY", "pfok.h pfokDH \\expect{ERR_BAD_PUBKEY} Открытый ключ pubkey корректен", "pubkey") for k, v in _pfok_bad_pub(pf)]
    return {"args": [OUT("sharekey", pf.ko), IN("params", pf.image), IN("privkey", d), IN("pubkey", Q)], "cases": cases}


@row("pfokMTI")
def _pfok_mti(E, r):
    pf = pfok(E)
    d, _ = pf.keypair(E, r)
    d1, _ = pf.keypair(E, r)
    _, Q = pf.keypair(E, r)
    _, Q1 = pf.keypair(E, r)
    cases = pfok_params_cases("pfokMTI", pf)
    for name, dd in (("privkey", d), ("privkey1", d1)):
        cases += [C(name, k, m_in(name, v), "ERR_BAD_PRIVKEY", "pfok.h pfokMTI \\expect{ERR_BAD_PRIVKEY} Личный ключ privkey корректен", "privkey") for k, v in _pfok_bad_priv(pf, dd)]
    for name in ("pubkey", "pubkey1"):
        cases += [C(name, k, m_in(name, v), "ERR_BAD_PUBKEY", "pfok.h pfokMTI \\expect{ERR_BAD_PUBKEY} Открытый ключ pubkey корректен", "pubkey") for k, v in _pfok_bad_pub(pf)]
    return {"args": [OUT("sharekey", pf.ko), IN("params", pf.image), IN("privkey", d), IN("privkey1", d1), IN("pubkey", Q), IN("pubkey1", Q1)], "cases": cases}


@row("pfokSeedVal")
def _pfok_seed_val(E, r):
    pf = pfok(E)
    q = ("pfok.h pfokSeedVal: 'размерность l соответствует определенному уровню стойкости; zi[i] \\in {1, 2,..., 65256}; цепочка li начинается "
         "с числа li[0] = l - 1 и заканчивается числом li[t] \\in {17,...,32}' \\return ... код ошибки в противном случае")

    def patched(**kw):
        S = _PfokSeed.from_buffer_copy(pf.seed)
        for k, v in kw.items():
            if k == "zi0":
                S.zi[0] = v
            elif k == "li0":
                S.li[0] = v
            else:
                setattr(S, k, v)
        return bytes(S)
    cases = [C("seed.l", v, m_in("seed", patched(l=v)), "ANY", q, "level") for v in (0, 1, pf.l - 1, pf.l + 1, SIZE_MAX)]
    cases += [C("seed.zi[0]", v, m_in("seed", patched(zi0=v)), "ANY", q, "params") for v in (0, 65257, 65535)]
    cases += [C("seed.li[0]", v, m_in("seed", patched(li0=v)), "ANY", q, "params") for v in (0, pf.l, pf.l - 2)]
    return {"args": [IN("seed", pf.seed)], "cases": cases}


@row("stb99SeedVal")
def _stb99_seed_val(E, r):
    def f():
        lib = E.lib
        p, s = lib.alloc(ctypes.sizeof(_Stb99Params), 0), lib.alloc(ctypes.sizeof(_Stb99Seed), 0)
        E.call_ok("stb99ParamsStd", p, s, lib.cstr("test"))
        return lib.rd(p, ctypes.sizeof(_Stb99Params)), lib.rd(s, ctypes.sizeof(_Stb99Seed))
    params, seed = E.memo(("stb99", "test"), f)
    l = int.from_bytes(seed[:8], "little")
    q = ("stb99.h stb99SeedVal: 'размерность l соответствует определенному уровню стойкости; zi[i] \\in {1, 2,..., 65256}; ...' "
         "\\return ... код ошибки в противном случае")

    def patched(**kw):
        S = _Stb99Seed.from_buffer_copy(seed)
        for k, v in kw.items():
            if k == "zi0":
                S.zi[0] = v
            elif k == "ri0":
                S.ri[0] = v
            else:
                setattr(S, k, v)
        return bytes(S)
    cases = [C("seed.l", v, m_in("seed", patched(l=v)), "ANY", q, "level") for v in (0, 1, l - 1, l + 1, SIZE_MAX)]
    cases += [C("seed.zi[0]", v, m_in("seed", patched(zi0=v)), "ANY", q, "params") for v in (0, 65257, 65535)]
    cases += [C("seed.ri[0]", v, m_in("seed", patched(ri0=v)), "ANY", q + " (ri[0] = r)", "params") for v in (0, 16, 1000)]
    return {"args": [IN("seed", seed)], "cases": cases}


@row("rngESRead")
def _rng_esread(E, r):
    # deterministic part of rng.h: the list of supported sources; count == 0 only probes the presence of a source
    args = [SZP("read", 0), OUT("buf", 0), V("count", 0), IN("source", b"timer\0")]
    q = "rng.h rngESRead: 'Поддерживаются следующие источники: trng, trng2, timer, sys' \\return ERR_OK ... или другой код ошибки"
    cases = [C("source", "unsupported", m_in("source", s.encode() + b"\0"), "ANY", q, "identifier", show=s) for s in ("", "Timer", "timer2", "rng", "sys ")]
    return {"args": args, "ok": ("ERR_OK", "ERR_FILE_NOT_FOUND"), "cases": cases}


GROUPS += [
    ("dstu", ["dstuParamsStd", "dstuParamsVal", "dstuPointGen", "dstuPointVal", "dstuPointCompress", "dstuPointRecover", "dstuKeypairGen",
              "dstuSign", "dstuVerify"], 3, 12),
    ("g12s", ["g12sParamsStd", "g12sParamsVal", "g12sKeypairGen", "g12sSign", "g12sVerify"], 4, 16),
    ("pfok-stb99-rng", ["pfokParamsStd", "pfokSeedVal", "pfokKeypairGen", "pfokPubkeyVal", "pfokPubkeyCalc", "pfokDH", "pfokMTI", "stb99ParamsStd",
                        "stb99SeedVal", "rngESRead"], 2, 8),
]
SPLIT.update({"dstu": (2, 4), "g12s": (2, 4), "pfok-stb99-rng": (1, 2)})


# ===========================================================================
# btok.h: issuing and validating CV certificates (conditions listed in the header; no class named -> any error)
# ===========================================================================

def _cvc_chain(E, r):
    """self-signed CA certificate and the (not yet issued) content of a subordinate certificate"""
    cv, da, Qa, ca = _cvc_content(E, r)
    ca = dict(ca, **{"from": _ymd(20, 1, 1), "until": _ymd(40, 12, 31)})
    certa = _cvc_wrap(E, ca, da)
    db, Qb = cv.keypair(E, r)
    holder = bytes(r.choice(NAMECHARS) for _ in range(r.choice((8, 11, 12))))
    cb = {"authority": ca["holder"], "holder": holder, "pubkey": Qb, "from": _ymd(22, 7, 7), "until": _ymd(30, 1, 31),
          "hat_eid": rb(r, 5), "hat_esign": rb(r, 2)}
    return cv, da, Qa, ca, certa, db, Qb, cb


def _cvc_iss(E, cb, certa, da):
    lib = E.lib
    pc, pl, pa, pk = lib.mk(_cvc_image(cb)), lib.alloc(8), lib.mk(certa), lib.mk(da)
    E.call_ok("btokCVCIss", 0, pl, pc, pa, len(certa), pk, len(da))
    n = lib.rd_size(pl)
    o = lib.alloc(n)
    E.call_ok("btokCVCIss", o, pl, pc, pa, len(certa), pk, len(da))
    out = lib.rd(o, n)
    lib.release()
    return out


@row("btokCVCIss")
def _cvc_iss_row(E, r):
    cv, da, Qa, ca, certa, db, Qb, cb = _cvc_chain(E, r)
    cert = _cvc_iss(E, cb, certa, da)
    args = [OUT("cert", len(cert)), SZP("cert_len", 0), IO("cvc", _cvc_image(cb)), IN("certa", certa), V("certa_len", len(certa)),
            IN("privkeya", da), V("privkeya_len", len(da))]
    q = ("btok.h btokCVCIss: 'Перед выпуском проверяются следующие условия: certa имеет корректный формат; btokCVCCheck2(cvc, cvca) == ERR_OK; "
         "открытый ключ в certa соответствует личному ключу privkeya' \\return ... код ошибки в противном случае")
    io = lambda img: (lambda a: put(a, IO("cvc", img)))
    cases = [C("privkeya", "other-valid-key", m_in("privkeya", db), "ANY", q, "auth"),
             C("certa", "truncated", m_many(m_in("certa", certa[:-1]), m_val("certa_len", len(certa) - 1)), "ANY", q, "format"),
             C("cvc.authority", "!=cvca.holder", io(_cvc_image(dict(cb, authority=cb["holder"]))), "ANY", q, "cvc"),
             C("cvc.from", "before-cvca.from", io(_cvc_image(dict(cb, **{"from": _ymd(19, 12, 31)}))), "ANY", q, "cvc"),
             C("cvc.from", "after-cvca.until", io(_cvc_image(dict(cb, **{"from": _ymd(41, 1, 1), "until": _ymd(41, 1, 2)}))), "ANY", q, "cvc"),
             C("cvc.holder", "length-7", io(_cvc_image(dict(cb, holder=cb["holder"][:7]))), "ANY", q, "cvc")]
    return {"args": args, "cases": cases}


@row("btokCVCVal")
def _cvc_val_row(E, r):
    cv, da, Qa, ca, certa, db, Qb, cb = _cvc_chain(E, r)
    cert = _cvc_iss(E, cb, certa, da)
    cv2, d2, Q2, c2 = _cvc_content(E, r)
    other_ca = _cvc_wrap(E, dict(c2, authority=ca["holder"], holder=ca["holder"], **{"from": ca["from"], "until": ca["until"]}), d2)
    args = [IN("cert", cert), V("cert_len", len(cert)), IN("certa", certa), V("certa_len", len(certa)), IN("date", _ymd(25, 6, 15))]
    q = ("btok.h btokCVCVal: 'Проверка завершается успешно, если: certa имеет корректный формат; cert разбирается без ошибок на открытом ключе "
         "из certa; btokCVCCheck2(cvc, cvca) == ERR_OK; date попадает в срок действия cert' \\return ... код ошибки в противном случае")
    cases = [C("date", "before-from", m_in("date", _ymd(22, 7, 6)), "ANY", q, "time"),
             C("date", "after-until", m_in("date", _ymd(30, 2, 1)), "ANY", q, "time"),
             C("date", "month-13", m_in("date", _ymd(25, 13, 1)), "ANY", q, "time"),
             C("cert", "signature-bit-flipped", m_in("cert", _flip(cert, len(cert) - 1 - r.randrange(cv.no), 1 << r.randrange(8))), "ANY", q, "auth"),
             C("certa", "same-name-other-key", m_many(m_in("certa", other_ca), m_val("certa_len", len(other_ca))), "ANY", q, "auth"),
             C("cert_len", "len-1", m_many(m_in("cert", cert[:-1]), m_val("cert_len", len(cert) - 1)), "ANY", q, "length")]
    return {"args": args, "cases": cases}


@row("btokCVCVal2")
def _cvc_val2_row(E, r):
    cv, da, Qa, ca, certa, db, Qb, cb = _cvc_chain(E, r)
    cert = _cvc_iss(E, cb, certa, da)
    _, Q2 = cv.keypair(E, r)
    args = [IO("cvc", bytes(CVC_SIZE)), IN("cert", cert), V("cert_len", len(cert)), IN("cvca", _cvc_image(ca)), IN("date", _ymd(25, 6, 15))]
    q = ("btok.h btokCVCVal2: 'Проверка завершается успешно, если: cert имеет корректный формат; имя издателя в cert совпадает с именем владельца "
         "в cvca; подпись cert признается корректной на открытом ключе из cvca; срок действия, заданный в cvca, корректен; начало действия cert "
         "не выходит за пределы срока действия cvca; date попадает в срок действия cert' \\return ... код ошибки в противном случае")
    cases = [C("date", "before-from", m_in("date", _ymd(22, 7, 6)), "ANY", q, "time"),
             C("date", "after-until", m_in("date", _ymd(30, 2, 1)), "ANY", q, "time"),
             C("cvca.holder", "!=cert.authority", m_in("cvca", _cvc_image(dict(ca, holder=cb["holder"]))), "ANY", q, "cvc"),
             C("cvca.pubkey", "other-valid-key", m_in("cvca", _cvc_image(dict(ca, pubkey=Q2))), "ANY", q, "auth"),
             C("cvca.until", "before-cert.from", m_in("cvca", _cvc_image(dict(ca, until=_ymd(22, 7, 6)))), "ANY", q, "cvc"),
             C("cvca.from", "month-13", m_in("cvca", _cvc_image(dict(ca, **{"from": _ymd(20, 13, 1)}))), "ANY", q, "cvc"),
             C("cert", "signature-bit-flipped", m_in("cert", _flip(cert, len(cert) - 1 - r.randrange(cv.no), 1 << r.randrange(8))), "ANY", q, "auth")]
    return {"args": args, "cases": cases}


for _g in GROUPS:
    if _g[0] == "btok-cvc":
        _g[1].extend(["btokCVCIss", "btokCVCVal", "btokCVCVal2"])


# ===========================================================================
# btok.h: BAUTH step 5 (the only Step function with an \expect{ERR_...} clause)
# ===========================================================================

def _bauth_run(box, cv, kcb, dt, Qt, dct, Qct, seeds):
    """both sides in one process up to the moment before btokBAuthTStep5 (valid calls only); returns M3 (kcb) or a dummy"""
    def f(lib):
        def side(startfn, keepfn, d, Q, seed):
            data = lib.mk(b"holder:" + Q)
            cert = lib.mk(bytes(_BakeCert(data, 7 + len(Q), fnaddr(lib, "py:cv_tail"))))
            st_rng = start_gen(lib, seed, seed[::-1])
            sett = lib.mk(bytes(_BakeSettings(1, kcb, 0, 0, 0, 0, lib.addr(GEN_SYM), st_rng)))
            st = lib.alloc(getattr(lib, keepfn)(cv.l))
            ret = getattr(lib, startfn)(st, lib.mk(cv.image), sett, lib.mk(d), cert)
            if ret != 0:
                raise Harness("setup: %s returned %s" % (startfn, errname(ret)))
            return st, cert
        t_st, t_cert = side("btokBAuthTStart", "btokBAuthT_keep", dt, Qt, seeds[0])
        ct_st, ct_cert = side("btokBAuthCTStart", "btokBAuthCT_keep", dct, Qct, seeds[1])
        m1 = lib.alloc(5 * cv.l // 8 + 16)
        m2 = lib.alloc(8 + 16 if kcb else 8)
        m3len = cv.l // 4 + 7 + len(Qct) + 8
        m3 = lib.alloc(m3len)
        for name, a in (("btokBAuthCTStep2", (m1, t_cert, ct_st)), ("btokBAuthTStep3", (m2, m1, t_st))) + \
                ((("btokBAuthCTStep4", (m3, m2, ct_st)),) if kcb else ()):
            ret = getattr(lib, name)(*a)
            if ret != 0:
                raise Harness("setup: %s returned %s" % (name, errname(ret)))
        box["t_state"] = t_st
        return m3
    return f


@row("btokBAuthTStep5")
def _bauth_step5(E, r):
    # l = 128 only: for l = 192, 256 btokBAuthCTStep4 (a setup call here) reads l/8 octets of Rt from M2 although btok.h and
    # btokBAuthTStep3 define M2 = [8 + 16] -- a heap over-read that belongs to C04/C07, reported to the maintainer
    cv = curve(E, 128)
    dt, Qt = cv.keypair(E, r)
    dct, Qct = cv.keypair(E, r)
    seeds = (rb(r, 32), rb(r, 32))
    m3len = cv.l // 4 + 7 + len(Qct) + 8

    def make(kcb):
        box = {}
        return [PREP("in", _bauth_run(box, cv, kcb, dt, Qt, dct, Qct, seeds), "BAUTH run up to step 4, kcb=%d" % kcb), V("in_len", m3len),
                FN("val_ct", "py:cv_tail"), PREP("state", lambda lib: box["t_state"], "T state after btokBAuthTStep3")]
    q = "btok.h btokBAuthTStep5 \\expect{ERR_BAD_LOGIC} settings->kcb == TRUE, т.е. требуется аутентификация КТ перед Т"

    def kcb0(a):
        a[:] = make(0)
    return {"args": make(1), "nodigest": ("in", "state"), "cases": [C("settings.kcb", 0, kcb0, "ERR_BAD_LOGIC", q, "flag")]}


for _g in GROUPS:
    if _g[0] == "bake-start":
        _g[1].append("btokBAuthTStep5")


# ===========================================================================
# repetitions and workers per group: (quick, thorough).  Crash-prone rows (an ASSERT abort costs a worker restart and the
# runner allows 25 restarts per job) are kept at a few repetitions per worker.
# ===========================================================================

REPS = {"belt-modes": (30, 150), "belt-disk": (25, 125), "belt-aead": (30, 150), "belt-fmt-e": (2, 6), "belt-fmt-d": (2, 6),
        "bash-brng-botp": (30, 150), "bels": (12, 48), "bign-keys": (10, 50), "bign-sign": (10, 50), "bign-keyt": (10, 50),
        "bign-id": (8, 40), "bign96": (10, 50), "bake-start": (10, 50), "btok-sm": (24, 120), "btok-cvc": (10, 50), "bpki": (4, 12),
        "dstu": (6, 24), "g12s": (10, 50), "pfok-stb99-rng": (4, 16)}
SPLIT = {"belt-modes": (3, 6), "belt-disk": (2, 4), "belt-aead": (3, 6), "belt-fmt-e": (1, 2), "belt-fmt-d": (1, 2),
         "bash-brng-botp": (3, 6), "bels": (3, 6), "bign-keys": (2, 5), "bign-sign": (2, 5), "bign-keyt": (2, 5), "bign-id": (2, 5),
         "bign96": (2, 5), "bake-start": (2, 4), "btok-sm": (2, 4), "btok-cvc": (2, 4), "bpki": (2, 4), "dstu": (3, 6), "g12s": (2, 5),
         "pfok-stb99-rng": (2, 4)}
GROUPS = [(g[0], g[1], REPS[g[0]][0], REPS[g[0]][1]) for g in GROUPS]


@row("btokCVCCheck2")
def _cvc_check2_row(E, r):
    cv, da, Qa, ca, certa, db, Qb, cb = _cvc_chain(E, r)
    args = [IN("cvc", _cvc_image(cb)), IN("cvca", _cvc_image(ca))]
    q = ("btok.h btokCVCCheck2: 'Проверка завершается успешно, если: btokCVCCheck(cvc) == ERR_OK; cvc->authority == cvca->holder; даты cvca->from "
         "и cvca->until корректны; cvca->from <= cvc->from && cvc->from <= cvca->until' \\return ... код ошибки в противном случае")
    cases = [C("cvc.authority", "!=cvca.holder", m_in("cvc", _cvc_image(dict(cb, authority=cb["holder"]))), "ANY", q, "cvc"),
             C("cvc.from", "before-cvca.from", m_in("cvc", _cvc_image(dict(cb, **{"from": _ymd(19, 12, 31)}))), "ANY", q, "cvc"),
             C("cvc.from", "after-cvca.until", m_in("cvc", _cvc_image(dict(cb, **{"from": _ymd(41, 1, 1), "until": _ymd(41, 1, 2)}))), "ANY", q, "cvc"),
             C("cvca.until", "day-32", m_in("cvca", _cvc_image(dict(ca, until=_ymd(40, 12, 32)))), "ANY", q, "cvc"),
             C("cvca.from", "octet>9", m_in("cvca", _cvc_image(dict(ca, **{"from": bytes([2, 0, 0, 1, 0, 10])}))), "ANY", q, "cvc"),
             C("cvc.holder", "length-7", m_in("cvc", _cvc_image(dict(cb, holder=cb["holder"][:7]))), "ANY", q, "cvc")]
    return {"args": args, "cases": cases}


for _g in GROUPS:
    if _g[0] == "btok-cvc":
        _g[1].append("btokCVCCheck2")
