"""C09 argument contracts: the declarative table.

One row per err_t-returning high-level public function.  A row is `build(E, r) -> call`:

    call = {"args":  [argument descriptors in prototype order]   -- a FULLY VALID call on exact-size buffers
            "cases": [violations]}                                -- each moves ONE argument out of its documented domain

Argument descriptors (materialised by c09_args.materialise on fresh mallocs):
    IN(name, bytes)            input buffer of exactly len(bytes) octets
    OUT(name, size)            output buffer of exactly size octets, canary-filled
    IO(name, bytes)            in/out buffer
    V(name, int)               scalar (size_t / u32 / tm_time_t) or a literal pointer value (0 = null)
    FN(name, symbol|None)      address of a library function (gen_i = brngCTRStepR) or of a Python callback
    RNGST(name, key, iv)       state of brngCTR started on (key, iv): a deterministic gen_i tape
    SZP(name, int)             size_t* in/out
    AT(name, base, off)        pointer into another argument's buffer (deliberate overlap)
    STRUCT(name, image, ptrs)  structure image with pointers to other (hidden) arguments patched in

Violations: C(arg, cls, mutation, expected class(es), header quote, kind) -- the expected classes are transcribed
from the \\expect{ERR_...} clause quoted next to them; "ANY" = the header promises an error without naming the class.
"""
import ctypes, copy

from ..core import Harness
from ..bee2 import errcode, errname

SIZE_MAX = 2 ** 64 - 1
U32_MAX = 2 ** 32 - 1


class Skip(Exception):
    pass


# ---------------------------------------------------------------------------
# descriptors
# ---------------------------------------------------------------------------

def IN(n, data, hid=False):
    return {"k": "in", "n": n, "data": bytes(data), "hid": hid}


def OUT(n, size, hid=False):
    return {"k": "out", "n": n, "size": size, "hid": hid}


def IO(n, data, hid=False):
    return {"k": "io", "n": n, "data": bytes(data), "hid": hid}


def V(n, v):
    return {"k": "val", "n": n, "v": v}


def FN(n, sym):
    return {"k": "fn", "n": n, "sym": sym}


def RNGST(n, key, iv, hid=False):
    return {"k": "rngst", "n": n, "key": bytes(key), "iv": bytes(iv), "hid": hid}


def SZP(n, v):
    return {"k": "szp", "n": n, "v": v}


def AT(n, base, off, outsize=None):
    return {"k": "at", "n": n, "base": base, "off": off, "outsize": outsize}


def STRUCT(n, data, ptrs=(), out=False, hid=False):
    return {"k": "struct", "n": n, "data": bytes(data), "ptrs": list(ptrs), "out": out, "hid": hid}


def clone(args):
    return copy.deepcopy(args)


def put(args, new, name=None):
    name = name or new["n"]
    for i, a in enumerate(args):
        if a["n"] == name:
            new = dict(new)
            new["n"] = name
            if a.get("hid"):
                new["hid"] = True
            args[i] = new
            return
    raise Harness("no argument %s" % name)


def arg(args, name):
    for a in args:
        if a["n"] == name:
            return a
    raise Harness("no argument %s" % name)


def describe(args):
    out = []
    for a in args:
        k = a["k"]
        if k == "val":
            out.append([a["n"], a["v"]])
        elif k in ("in", "io"):
            d = a["data"]
            out.append([a["n"], "%s[%d]" % (k, len(d)), d[:48].hex()])
        elif k == "out":
            out.append([a["n"], "out[%d]" % a["size"]])
        elif k == "fn":
            out.append([a["n"], "fn:%s" % a["sym"]])
        elif k == "at":
            out.append([a["n"], "%s%+d" % (a["base"], a["off"])])
        elif k == "szp":
            out.append([a["n"], "size_t*=%d" % a["v"]])
        elif k == "struct":
            out.append([a["n"], "struct[%d]" % len(a["data"]), a["data"][:48].hex()])
        else:
            out.append([a["n"], k])
    return out


# mutations ------------------------------------------------------------------

def m_val(name, v):
    return lambda args: put(args, V(name, v))


def m_in(name, data):
    return lambda args: put(args, IN(name, data))


def m_many(*ms):
    def f(args):
        for m in ms:
            m(args)
    return f


def C(arg_, cls, mut, expect, quote, kind="domain", show=None, secret=None, **kw):
    if isinstance(expect, str):
        expect = (expect,)
    d = {"arg": arg_, "cls": str(cls), "mut": mut, "expect": set(expect), "quote": quote, "kind": kind,
         "show": show, "secret": secret}
    d.update(kw)
    return d


# callbacks ------------------------------------------------------------------

GEN = ctypes.CFUNCTYPE(None, ctypes.c_void_p, ctypes.c_size_t, ctypes.c_void_p)


def _gen_zero(buf, count, state):
    ctypes.memset(buf, 0, count)


def _gen_ff(buf, count, state):
    ctypes.memset(buf, 0xFF, count)


_CB = {"py:gen_zero": GEN(_gen_zero), "py:gen_ff": GEN(_gen_ff)}


def fnaddr(lib, sym):
    if sym is None or sym == 0:
        return 0
    if sym in _CB:
        return ctypes.cast(_CB[sym], ctypes.c_void_p).value
    return lib.addr(sym)


# ---------------------------------------------------------------------------
# environment: cached valid objects made by the library itself
# ---------------------------------------------------------------------------

def rb(r, n):
    return bytes(r.getrandbits(8) for _ in range(n))


class Env:
    def __init__(self, lib, base):
        self.lib = lib
        self.base = base
        self.cache = {}

    def memo(self, key, f):
        if key not in self.cache:
            self.cache[key] = f()
            self.lib.release()
        return self.cache[key]

    def call_ok(self, fn, *a):
        ret = getattr(self.lib, fn)(*a)
        if ret != 0:
            raise Harness("setup: %s returned %s" % (fn, errname(ret)))

    def rng_args(self, r, name="rng"):
        """(gen_i, state) pair: the library's brngCTRStepR on a fresh deterministic tape"""
        return [FN(name, "brngCTRStepR"), RNGST(name + "_state", rb(r, 32), rb(r, 32))]

    def live_rng(self, r):
        lib = self.lib
        st = lib.alloc(lib.brngCTR_keep())
        lib.brngCTRStart(st, lib.mk(rb(r, 32)), lib.mk(rb(r, 32)))
        return lib.addr("brngCTRStepR"), st


class Row:
    def __init__(self, build, every=1):
        self.build, self.every = build, every      # every: the row takes part in every k-th repetition only


ROWS = {}


def row(name, every=1):
    def deco(f):
        ROWS[name] = Row(f, every)
        return f
    return deco


# ===========================================================================
# belt.h
# ===========================================================================

Q_KEYLEN = "belt.h \\expect{ERR_BAD_INPUT} len == 16 || len == 24 || len == 32"
BAD_KEYLENS = (0, 1, 15, 17, 23, 25, 31, 33, 64, SIZE_MAX)


def keylen_cases(lenname="len", bufname="key", quote=Q_KEYLEN, expect="ERR_BAD_INPUT", vals=BAD_KEYLENS):
    out = []
    for v in vals:
        # the key buffer has exactly v octets when that can be allocated, 32 otherwise (length-only rejection)
        n = v if v <= 4096 else 32
        out.append(C(lenname, v, m_many(m_val(lenname, v), m_in(bufname, bytes((i * 7 + 1) & 255 for i in range(n)))),
                     expect, quote, "length"))
    return out


def count_cases(vals, quote, countname="count", bufs=(("dest", "out", 0), ("src", "in", 0)), expect="ERR_BAD_INPUT",
                argname=None):
    """bufs: (name, in|out, extra) -> buffer of v + extra octets"""
    out = []
    for v in vals:
        ms = [m_val(countname, v)]
        for bn, kind, extra in bufs:
            n = max(0, v + extra) if v <= 1 << 20 else 32
            ms.append((lambda bn=bn, n=n: (lambda args: put(args, OUT(bn, n))))() if kind == "out" else
                      m_in(bn, bytes((i * 5 + 3) & 255 for i in range(n))))
        out.append(C(argname or countname, v, m_many(*ms), expect, quote, "length"))
    return out


def _pick_klen(r):
    return r.choice((16, 24, 32))


def _mode_row(fn, mincount, step, with_iv, bad_counts, qcount):
    def build(E, r):
        klen = _pick_klen(r)
        count = r.choice([mincount, mincount + step, 48, 64] if mincount else [0, 1, 15, 16, 17, 33, 48])
        if count < mincount:
            count = mincount
        count -= (count % step) if step > 1 else 0
        args = [OUT("dest", count), IN("src", rb(r, count)), V("count", count), IN("key", rb(r, klen)), V("len", klen)]
        if with_iv:
            args.append(IN("iv", rb(r, 16)))
        cases = keylen_cases()
        if bad_counts:
            cases += count_cases(bad_counts, "belt.h %s \\expect{ERR_BAD_INPUT} %s" % (fn, qcount))
        return {"args": args, "cases": cases}
    return build


for _fn, _minc, _step, _iv, _bad, _q in (
        ("beltECBEncr", 16, 1, False, (0, 1, 15), "count >= 16"),
        ("beltECBDecr", 16, 1, False, (0, 1, 15), "count >= 16"),
        ("beltCBCEncr", 16, 1, True, (0, 1, 15), "count >= 16"),
        ("beltCBCDecr", 16, 1, True, (0, 1, 15), "count >= 16"),
        ("beltCFBEncr", 0, 1, True, (), ""),
        ("beltCFBDecr", 0, 1, True, (), ""),
        ("beltCTR", 0, 1, True, (), ""),
        ("beltBDEEncr", 16, 16, True, (0, 1, 15, 17, 31, 33, 47), "count % 16 == 0 && count >= 16"),
        ("beltBDEDecr", 16, 16, True, (0, 1, 15, 17, 31, 33, 47), "count % 16 == 0 && count >= 16"),
        ("beltSDEEncr", 32, 16, True, (0, 1, 15, 16, 17, 31, 33, 47, 49), "count % 16 == 0 && count >= 32"),
        ("beltSDEDecr", 32, 16, True, (0, 1, 15, 16, 17, 31, 33, 47, 49), "count % 16 == 0 && count >= 32")):
    ROWS[_fn] = Row(_mode_row(_fn, _minc, _step, _iv, _bad, _q))


@row("beltMAC")
def _belt_mac(E, r):
    klen, count = _pick_klen(r), r.choice((0, 1, 16, 33))
    return {"args": [OUT("mac", 8), IN("src", rb(r, count)), V("count", count), IN("key", rb(r, klen)), V("len", klen)],
            "cases": keylen_cases()}


def _aead_setup(E, r, wrapfn):
    lib = E.lib
    klen = _pick_klen(r)
    c1, c2 = r.choice((8, 9, 16, 17, 33, 64)), r.choice((0, 1, 16, 33))
    pt, ad, key, iv = rb(r, c1), rb(r, c2), rb(r, klen), rb(r, 16)
    d, m = lib.alloc(c1), lib.alloc(8)
    E.call_ok(wrapfn, d, m, lib.mk(pt), c1, lib.mk(ad), c2, lib.mk(key), klen, lib.mk(iv))
    ct, mac = lib.rd(d, c1), lib.rd(m, 8)
    lib.release()
    return klen, c1, c2, pt, ad, key, iv, ct, mac


def _aead_wrap_row(fn):
    def build(E, r):
        klen = _pick_klen(r)
        c1, c2 = r.choice((8, 9, 16, 17, 33, 64)), r.choice((0, 1, 16, 33))
        args = [OUT("dest", c1), OUT("mac", 8), IN("src1", rb(r, c1)), V("count1", c1), IN("src2", rb(r, c2)),
                V("count2", c2), IN("key", rb(r, klen)), V("len", klen), IN("iv", rb(r, 16))]
        q = "belt.h %s \\expect{ERR_BAD_INPUT} буферы dest и mac не пересекаются" % fn
        cases = keylen_cases()
        # mac inside dest (dest holds >= 8 octets), at the start / at the end / one octet in common
        cases.append(C("dest~mac", "mac-at-dest-start", lambda a: put(a, AT("mac", "dest", 0, 8)), "ERR_BAD_INPUT", q, "overlap"))
        cases.append(C("dest~mac", "mac-at-dest-end", lambda a, c1=c1: put(a, AT("mac", "dest", c1 - 8, 8)), "ERR_BAD_INPUT", q, "overlap"))

        def one_common(a, c1=c1):
            # arena: dest = arena[0:c1], mac = arena[c1-1:c1+7]
            put(a, OUT("arena", c1 + 7), "dest")
            put(a, AT("mac", "dest", c1 - 1, 8))
        cases.append(C("dest~mac", "one-octet-common", one_common, "ERR_BAD_INPUT", q, "overlap"))
        return {"args": args, "cases": cases}
    return build


def _aead_unwrap_row(fn, wrapfn):
    def build(E, r):
        klen, c1, c2, pt, ad, key, iv, ct, mac = _aead_setup(E, r, wrapfn)
        args = [OUT("dest", c1), IN("src1", ct), V("count1", c1), IN("src2", ad), V("count2", c2), IN("mac", mac),
                IN("key", key), V("len", klen), IN("iv", iv)]
        cases = keylen_cases()
        q = ("belt.h %s: 'Если целостность не нарушена, то данные src1 расшифровываются в буфер dest' / "
             "\\return ... код ошибки в противном случае" % fn)
        fl = lambda b, i, bit=1: b[:i] + bytes([b[i] ^ bit]) + b[i + 1:]
        i = r.randrange(8)
        cases.append(C("mac", "bit-flipped", m_in("mac", fl(mac, i, 1 << r.randrange(8))), "ANY", q, "release", secret=pt))
        j = r.randrange(c1)
        cases.append(C("src1", "bit-flipped", m_in("src1", fl(ct, j, 1 << r.randrange(8))), "ANY", q, "release", secret=pt))
        if c2:
            cases.append(C("src2", "bit-flipped", m_in("src2", fl(ad, r.randrange(c2), 0x80)), "ANY", q, "release", secret=pt))
        cases.append(C("iv", "bit-flipped", m_in("iv", fl(iv, r.randrange(16), 0x01)), "ANY", q, "release", secret=pt))
        k2 = fl(key, r.randrange(klen), 0x10)
        cases.append(C("key", "other-key", m_in("key", k2), "ANY", q, "release", secret=pt))
        return {"args": args, "cases": cases}
    return build


ROWS["beltDWPWrap"] = Row(_aead_wrap_row("beltDWPWrap"))
ROWS["beltCHEWrap"] = Row(_aead_wrap_row("beltCHEWrap"))
ROWS["beltDWPUnwrap"] = Row(_aead_unwrap_row("beltDWPUnwrap", "beltDWPWrap"))
ROWS["beltCHEUnwrap"] = Row(_aead_unwrap_row("beltCHEUnwrap", "beltCHEWrap"))


@row("beltKWPWrap")
def _kwp_wrap(E, r):
    klen, count = _pick_klen(r), r.choice((16, 17, 24, 32, 33, 64))
    nullhdr = r.random() < 0.25
    args = [OUT("dest", count + 16), IN("src", rb(r, count)), V("count", count),
            V("header", 0) if nullhdr else IN("header", rb(r, 16)), IN("key", rb(r, klen)), V("len", klen)]
    cases = keylen_cases()
    cases += count_cases((0, 1, 15), "belt.h beltKWPWrap \\expect{ERR_BAD_INPUT} count >= 16",
                         bufs=(("dest", "out", 16), ("src", "in", 0)))
    return {"args": args, "cases": cases}


@row("beltKWPUnwrap")
def _kwp_unwrap(E, r):
    lib = E.lib
    klen, count = _pick_klen(r), r.choice((16, 17, 24, 32, 33, 64))
    nullhdr = r.random() < 0.25
    src, key, hdr = rb(r, count), rb(r, klen), (bytes(16) if nullhdr else rb(r, 16))
    d = lib.alloc(count + 16)
    E.call_ok("beltKWPWrap", d, lib.mk(src), count, lib.mk(hdr), lib.mk(key), klen)
    tok = lib.rd(d, count + 16)
    lib.release()
    args = [OUT("dest", count), IN("src", tok), V("count", count + 16),
            V("header", 0) if nullhdr else IN("header", hdr), IN("key", key), V("len", klen)]
    cases = keylen_cases()
    # dest has count - 16 octets: for count < 16 an empty buffer
    cases += count_cases((0, 1, 16, 17, 31), "belt.h beltKWPUnwrap \\expect{ERR_BAD_INPUT} count >= 32",
                         bufs=(("dest", "out", -16), ("src", "in", 0)))
    q = "belt.h beltKWPUnwrap: \\return ERR_OK, если защита успешно снята, и код ошибки в противном случае"
    fl = lambda b, i, bit=1: b[:i] + bytes([b[i] ^ bit]) + b[i + 1:]
    cases.append(C("src", "bit-flipped", m_in("src", fl(tok, r.randrange(len(tok)), 1 << r.randrange(8))), "ANY", q,
                   "release", secret=src))
    cases.append(C("src", "last-octet-flipped", m_in("src", fl(tok, len(tok) - 1, 0x80)), "ANY", q, "release", secret=src))
    cases.append(C("header", "other-header", m_in("header", fl(hdr, r.randrange(16), 0x04)), "ANY", q, "release", secret=src))
    cases.append(C("key", "other-key", m_in("key", fl(key, r.randrange(klen), 0x20)), "ANY", q, "release", secret=src))
    if count > 16:
        # a token cut by one octet is a different (invalid) token
        cases.append(C("count", "truncated-token", m_many(m_val("count", count + 15), m_in("src", tok[:-1]),
                                                          lambda a: put(a, OUT("dest", count - 1))), "ANY", q, "release", secret=src))
    return {"args": args, "cases": cases}


def _fmt_row(fn):
    def build(E, r):
        klen = _pick_klen(r)
        mod = r.choice((2, 3, 10, 16, 256, 257, 1000, 49667, 65535, 65536))
        count = r.choice((2, 3, 10, 21, 600 if r.random() < 0.2 else 7))
        src = b"".join(r.randrange(mod).to_bytes(2, "little") for _ in range(count))
        nulliv = r.random() < 0.25
        args = [OUT("dest", 2 * count), V("mod", mod), IN("src", src), V("count", count), IN("key", rb(r, klen)),
                V("len", klen), V("iv", 0) if nulliv else IN("iv", rb(r, 16))]
        h = "belt.h %s " % fn
        cases = keylen_cases(quote=h + "\\expect{ERR_BAD_INPUT} len == 16 || len == 24 || len == 32")
        qm = h + "\\expect{ERR_BAD_INPUT} 2 <= mod && mod <= 65536"
        for m in (0, 1, 65537, 65538, 1 << 31, U32_MAX):
            # src stays a string over {0, 1}: inside every alphabet the function could think of
            cases.append(C("mod", m, m_many(m_val("mod", m), m_in("src", bytes(2 * count))), "ERR_BAD_INPUT", qm, "alphabet"))
        qc = h + "\\expect{ERR_BAD_INPUT} 2 <= count"
        for c in (0, 1):
            cases.append(C("count", c, m_many(m_val("count", c), m_in("src", src[:2 * c]), lambda a, c=c: put(a, OUT("dest", 2 * c))),
                           "ERR_BAD_INPUT", qc, "count"))
        qn = h + "\\expect{ERR_NOT_IMPLEMENTED} count <= 600"
        for c in (601, 602, 1000, 4096):
            s2 = b"".join(r.randrange(mod).to_bytes(2, "little") for _ in range(c))
            cases.append(C("count", c, m_many(m_val("count", c), m_in("src", s2), lambda a, c=c: put(a, OUT("dest", 2 * c))),
                           "ERR_NOT_IMPLEMENTED", qn, "count"))
        # a length that no buffer can have: rejected on the length alone (either listed class)
        cases.append(C("count", SIZE_MAX, m_val("count", SIZE_MAX), ("ERR_NOT_IMPLEMENTED", "ERR_BAD_INPUT"), qn, "count"))
        # both violated: the header orders nothing -> either class
        cases.append(C("mod,count", "0,601", m_many(m_val("mod", 0), m_val("count", 601), m_in("src", bytes(1202)),
                                                    lambda a: put(a, OUT("dest", 1202))), ("ERR_BAD_INPUT", "ERR_NOT_IMPLEMENTED"),
                       qm + " / " + qn, "alphabet"))
        cases.append(C("mod,count", "65537,1", m_many(m_val("mod", 65537), m_val("count", 1), m_in("src", bytes(2)),
                                                      lambda a: put(a, OUT("dest", 2))), "ERR_BAD_INPUT", qm + " / " + qc, "alphabet"))
        qo = h + "\\expect{ERR_BAD_INPUT} если iv ненулевой, то буферы iv и [count]dest не пересекаются"
        if 2 * count >= 16:
            cases.append(C("iv~dest", "iv-at-dest-start", lambda a: put(a, AT("iv", "dest", 0)), "ERR_BAD_INPUT", qo, "overlap"))
            cases.append(C("iv~dest", "iv-at-dest-end", lambda a: put(a, AT("iv", "dest", 2 * count - 16)), "ERR_BAD_INPUT", qo, "overlap"))

        def one_common(a):
            put(a, OUT("arena", 2 * count + 15), "dest")
            put(a, AT("iv", "dest", 2 * count - 1))
        cases.append(C("iv~dest", "one-octet-common", one_common, "ERR_BAD_INPUT", qo, "overlap"))
        return {"args": args, "cases": cases}
    return build


ROWS["beltFMTEncr"] = Row(_fmt_row("beltFMTEncr"))
ROWS["beltFMTDecr"] = Row(_fmt_row("beltFMTDecr"))


@row("beltKRP")
def _krp(E, r):
    n = r.choice((16, 24, 32))
    m = r.choice([x for x in (16, 24, 32) if x <= n])
    args = [OUT("dest", m), V("m", m), IN("src", rb(r, n)), V("n", n), IN("level", rb(r, 12)), IN("header", rb(r, 16))]
    h = "belt.h beltKRP \\expect{ERR_BAD_INPUT} "
    cases = []
    for v in BAD_KEYLENS:
        sz = v if v <= 4096 else 32
        # n bad (m stays <= n when possible is irrelevant: either way ERR_BAD_INPUT is the only listed class)
        cases.append(C("n", v, m_many(m_val("n", v), m_in("src", bytes((i + 1) & 255 for i in range(sz)))), "ERR_BAD_INPUT",
                       h + "n == 16 || n == 24 || n == 32", "length"))
        cases.append(C("m", v, m_many(m_val("m", v), lambda a, sz=sz: put(a, OUT("dest", sz)), m_val("n", 32),
                                      m_in("src", bytes(range(32)))), "ERR_BAD_INPUT", h + "m == 16 || m == 24 || m == 32", "length"))
    for mm, nn in ((24, 16), (32, 16), (32, 24)):
        cases.append(C("m>n", "%d>%d" % (mm, nn), m_many(m_val("m", mm), m_val("n", nn), lambda a, mm=mm: put(a, OUT("dest", mm)),
                                                         m_in("src", bytes(range(nn)))), "ERR_BAD_INPUT", h + "m <= n", "length"))
    return {"args": args, "cases": cases}


@row("beltPBKDF2")
def _pbkdf2(E, r):
    pl, sl, it = r.choice((0, 1, 8, 33)), r.choice((0, 8, 16)), r.choice((1, 2, 5))
    args = [OUT("key", 32), IN("pwd", rb(r, pl)), V("pwd_len", pl), V("iter", it), IN("salt", rb(r, sl)), V("salt_len", sl)]
    return {"args": args, "cases": [C("iter", 0, m_val("iter", 0), "ERR_BAD_INPUT",
                                      "belt.h beltPBKDF2 \\expect{ERR_BAD_INPUT} iter != 0", "count")]}


# ===========================================================================
# bash.h, brng.h
# ===========================================================================

@row("bashHash")
def _bash(E, r):
    l = r.choice(range(16, 257, 16))
    count = r.choice((0, 1, 33, 200))
    args = [OUT("hash", l // 4), V("l", l), IN("src", rb(r, count)), V("count", count)]
    # the header spells the class ERR_BAD_PARAM; err.h defines no such code, only ERR_BAD_PARAMS (documentation typo)
    q = "bash.h bashHash \\expect{ERR_BAD_PARAM} [sic: err.h has only ERR_BAD_PARAMS] l > 0 && l % 16 == 0 && l <= 256"
    cases = []
    for v in (0, 1, 8, 15, 17, 24, 100, 255, 257, 264, 272, 512, 1 << 32, SIZE_MAX - 15, SIZE_MAX):
        n = v // 4 if v <= 4096 else 64
        cases.append(C("l", v, m_many(m_val("l", v), lambda a, n=n: put(a, OUT("hash", n))), "ERR_BAD_PARAMS", q, "level"))
    return {"args": args, "cases": cases}


@row("brngHMACRand")
def _brng_hmac(E, r):
    count, kl, il = r.choice((1, 31, 32, 33, 96)), r.choice((0, 16, 32, 65)), r.choice((1, 32, 64, 65, 100))
    args = [OUT("buf", count), V("count", count), IN("key", rb(r, kl)), V("key_len", kl), IN("iv", rb(r, il)), V("iv_len", il)]
    q = "brng.h brngHMACRand \\expect{ERR_BAD_INPUT} Буферы buf и iv не пересекаются"
    cases = []

    def same(a):
        # one arena holding both: buf = arena[0:count], iv = arena[0:il]
        put(a, IO("arena", rb(r, max(count, il))), "buf")
        put(a, AT("iv", "buf", 0))
    cases.append(C("buf~iv", "same-start", same, "ERR_BAD_INPUT", q, "overlap"))

    def one(a):
        put(a, IO("arena", bytes((i * 3 + 1) & 255 for i in range(count + il - 1))), "buf")
        put(a, AT("iv", "buf", count - 1))
    cases.append(C("buf~iv", "one-octet-common", one, "ERR_BAD_INPUT", q, "overlap"))

    def one_front(a):
        # iv first, buf starting at iv's last octet
        put(a, IN("arena", bytes((i * 3 + 2) & 255 for i in range(count + il - 1))), "iv")
        put(a, AT("buf", "iv", il - 1, count))
    cases.append(C("buf~iv", "buf-starts-in-iv", one_front, "ERR_BAD_INPUT", q, "overlap"))
    return {"args": args, "cases": cases}


# ===========================================================================
# botp.h
# ===========================================================================

TIME_ERR = -1


@row("botpHOTPRand")
def _hotp_rand(E, r):
    digit, kl = r.choice((6, 7, 8)), r.choice((16, 32, 33))
    args = [OUT("otp", digit + 1), V("digit", digit), IN("key", rb(r, kl)), V("key_len", kl), IN("ctr", rb(r, 8))]
    q = "botp.h botpHOTPRand \\expect{ERR_BAD_PARAMS} 6 <= digit && digit <= 8"
    cases = []
    for v in (0, 1, 4, 5, 9, 10, 11, 100, SIZE_MAX):
        n = v + 1 if v <= 4096 else 16
        cases.append(C("digit", v, m_many(m_val("digit", v), lambda a, n=n: put(a, OUT("otp", n))), "ERR_BAD_PARAMS", q, "digit"))
    return {"args": args, "cases": cases}


def _wrong_otp(otp, r):
    i = r.randrange(len(otp))
    c = (otp[i] - 48 + 1 + r.randrange(9)) % 10 + 48
    return otp[:i] + bytes([c]) + otp[i + 1:]


def _bad_otp_lens(otp):
    out = []
    for n in (0, 1, 4, 5, 9, 10, 12):
        out.append((n, (otp * 3)[:n]))
    return out


@row("botpHOTPVerify")
def _hotp_verify(E, r):
    lib = E.lib
    digit, kl = r.choice((6, 7, 8)), r.choice((16, 32, 33))
    key, ctr = rb(r, kl), rb(r, 8)
    o = lib.alloc(digit + 1)
    E.call_ok("botpHOTPRand", o, digit, lib.mk(key), kl, lib.mk(ctr))
    otp = lib.rd(o, digit)
    lib.release()
    args = [IN("otp", otp + b"\0"), IN("key", key), V("key_len", kl), IN("ctr", ctr)]
    q1 = "botp.h botpHOTPVerify \\expect{ERR_BAD_PWD} 6 <= digit && digit <= 8 (digit = strLen(otp))"
    q2 = "botp.h botpHOTPVerify \\expect{ERR_BAD_PWD} Пароль otp совпадает с построенным"
    cases = [C("strlen(otp)", n, m_in("otp", s + b"\0"), "ERR_BAD_PWD", q1, "digit") for n, s in _bad_otp_lens(otp)]
    cases.append(C("otp", "wrong-digit", m_in("otp", _wrong_otp(otp, r) + b"\0"), "ERR_BAD_PWD", q2, "auth"))
    c2 = bytes([ctr[0] ^ 1]) + ctr[1:]
    cases.append(C("ctr", "other-counter", m_in("ctr", c2), "ERR_BAD_PWD", q2, "auth", soft=True))
    return {"args": args, "cases": [c for c in cases if not c.get("soft")]}


def _tm(r):
    return r.choice((0, 1, 59, 1449165288 // 60, 2 ** 31, 2 ** 40 + r.randrange(1000)))


@row("botpTOTPRand")
def _totp_rand(E, r):
    digit, kl = r.choice((6, 7, 8)), r.choice((16, 32, 33))
    args = [OUT("otp", digit + 1), V("digit", digit), IN("key", rb(r, kl)), V("key_len", kl), V("t", _tm(r))]
    q = "botp.h botpTOTPRand \\expect{ERR_BAD_PARAMS} 6 <= digit && digit <= 8"
    cases = []
    for v in (0, 1, 4, 5, 9, 10, 11, 100, SIZE_MAX):
        n = v + 1 if v <= 4096 else 16
        cases.append(C("digit", v, m_many(m_val("digit", v), lambda a, n=n: put(a, OUT("otp", n))), "ERR_BAD_PARAMS", q, "digit"))
    cases.append(C("t", "TIME_ERR", m_val("t", TIME_ERR), "ERR_BAD_TIME", "botp.h botpTOTPRand \\expect{ERR_BAD_TIME} t != TIME_ERR", "time"))
    cases.append(C("digit,t", "9,TIME_ERR", m_many(m_val("digit", 9), m_val("t", TIME_ERR), lambda a: put(a, OUT("otp", 10))),
                   ("ERR_BAD_PARAMS", "ERR_BAD_TIME"), q + " / \\expect{ERR_BAD_TIME} t != TIME_ERR", "time"))
    return {"args": args, "cases": cases}


@row("botpTOTPVerify")
def _totp_verify(E, r):
    lib = E.lib
    digit, kl = r.choice((6, 7, 8)), r.choice((16, 32, 33))
    key, t = rb(r, kl), _tm(r)
    o = lib.alloc(digit + 1)
    E.call_ok("botpTOTPRand", o, digit, lib.mk(key), kl, t)
    otp = lib.rd(o, digit)
    lib.release()
    args = [IN("otp", otp + b"\0"), IN("key", key), V("key_len", kl), V("t", t)]
    q1 = "botp.h botpTOTPVerify \\expect{ERR_BAD_PWD} 6 <= digit && digit <= 8"
    q2 = "botp.h botpTOTPVerify \\expect{ERR_BAD_PWD} Пароль otp подошел"
    q3 = "botp.h botpTOTPVerify \\expect{ERR_BAD_TIME} t != TIME_ERR"
    cases = [C("strlen(otp)", n, m_in("otp", s + b"\0"), "ERR_BAD_PWD", q1, "digit") for n, s in _bad_otp_lens(otp)]
    cases.append(C("otp", "wrong-digit", m_in("otp", _wrong_otp(otp, r) + b"\0"), "ERR_BAD_PWD", q2, "auth"))
    cases.append(C("t", "TIME_ERR", m_val("t", TIME_ERR), "ERR_BAD_TIME", q3, "time"))
    cases.append(C("strlen(otp),t", "5,TIME_ERR", m_many(m_in("otp", otp[:5] + b"\0"), m_val("t", TIME_ERR)),
                   ("ERR_BAD_PWD", "ERR_BAD_TIME"), q1 + " / " + q3, "time"))
    return {"args": args, "cases": cases}


OCRA_BAD_SUITES = ("", "OCRA", "OCRA-1", "OCRA-1:", "OCRA-1:HOTP-HBELT-8", "OCRA-1:HOTP-HBELT-8:", "OCRA-2:HOTP-HBELT-8:QN08",
                   "ocra-1:HOTP-HBELT-8:QN08", "OCRA-1:HOTP-HBELT-8:C-QX08", "OCRA-1:HOTP-HBELT-8:QN8", "OCRA-1:HOTP-HBELT-8:QN08-",
                   "OCRA-1:HOTP-HBELT-8:QN08-T1N", "OCRA-1:HOTP-HBELT-8:QN08junk", "OCRA-1:HOTP-HBELT-8:QN08-PHBELT-SA13",
                   "OCRA-1:HOTP-HBELT-8:QN03", "OCRA-1:HOTP-HBELT-8:QN65", "OCRA-1:HOTP-HBELT-8:QN08-T61S",
                   "OCRA-1:HOTP-HBELT-8:QN08-T0M", "OCRA-1:HOTP-HBELT-:QN08", "OCRA-1:HOTP-HBELT-8:QN08-PHBELT-S064-T1M-X")


def _ocra_base(E, r):
    digit = r.choice((4, 6, 8, 9))
    use_c, use_p, use_s, use_t = (r.random() < 0.5 for _ in range(4))
    qt, qmax = r.choice("ANH"), r.choice((4, 8, 10, 32, 64))
    slen = r.choice((1, 20, 64, 512))
    suite = "OCRA-1:HOTP-HBELT-%d:%sQ%s%02d" % (digit, "C-" if use_c else "", qt, qmax)
    if use_p:
        suite += "-PHBELT"
    if use_s:
        suite += "-S%03d" % slen
    if use_t:
        suite += "-T" + r.choice(("1M", "30S", "1H", "59S", "48H"))
    kl = r.choice((16, 32, 40))
    qlen = r.choice((4, qmax, 2 * qmax, min(2 * qmax, qmax + 1)))
    alphabet = {"A": b"abcXYZ019", "N": b"0123456789", "H": b"0123456789ABCDEF"}[qt]
    q = bytes(r.choice(alphabet) for _ in range(qlen))
    # buffers the suite does not use are passed as null (the header makes them optional parameters)
    a = {"suite": suite, "digit": digit, "key": rb(r, kl), "q": q, "qmax": qmax, "use_t": use_t,
         "ctr": IN("ctr", rb(r, 8)) if use_c else V("ctr", 0), "p": IN("p", rb(r, 32)) if use_p else V("p", 0),
         "s": IN("s", rb(r, slen)) if use_s else V("s", 0), "t": _tm(r) if use_t else r.choice((0, TIME_ERR, 12345))}
    return a


def _ocra_cases(fn, b, r, first):
    h = "botp.h %s " % fn
    qf = h + "\\expect{ERR_BAD_FORMAT} Формат suite корректен"
    qp = h + "\\expect{ERR_BAD_PARAMS} 4 <= q_len && q_len <= 2 * q_max"
    qt = h + "\\expect{ERR_BAD_TIME} Если suite задает использование t, то t != TIME_ERR"
    cases = []
    for s in r.sample(OCRA_BAD_SUITES, 6):
        cases.append(C("suite", "malformed", m_in("suite", s.encode() + b"\0"), "ERR_BAD_FORMAT", qf, "identifier", show=s))
    for v in (0, 1, 3, 2 * b["qmax"] + 1, 2 * b["qmax"] + 2, 200, SIZE_MAX):
        n = v if v <= 4096 else 16
        cases.append(C("q_len", {0: 0, 1: 1, 3: 3, 200: 200, SIZE_MAX: "SIZE_MAX"}.get(v, "2qmax+%d" % (v - 2 * b["qmax"])),
                       m_many(m_val("q_len", v), m_in("q", (b"0123456789" * 30)[:n])), "ERR_BAD_PARAMS", qp, "count", show=v))
    if b["use_t"]:
        cases.append(C("t", "TIME_ERR", m_val("t", TIME_ERR), "ERR_BAD_TIME", qt, "time"))
        cases.append(C("q_len,t", "3,TIME_ERR", m_many(m_val("q_len", 3), m_in("q", b"123"), m_val("t", TIME_ERR)),
                       ("ERR_BAD_PARAMS", "ERR_BAD_TIME"), qp + " / " + qt, "time"))
    return cases


@row("botpOCRARand")
def _ocra_rand(E, r):
    b = _ocra_base(E, r)
    args = [OUT("otp", b["digit"] + 1), IN("suite", b["suite"].encode() + b"\0"), IN("key", b["key"]), V("key_len", len(b["key"])),
            IN("q", b["q"]), V("q_len", len(b["q"])), b["ctr"], b["p"], b["s"], V("t", b["t"])]
    return {"args": args, "cases": _ocra_cases("botpOCRARand", b, r, True)}


@row("botpOCRAVerify")
def _ocra_verify(E, r):
    lib = E.lib
    b = _ocra_base(E, r)

    def ptr(a):
        return lib.mk(a["data"]) if a["k"] == "in" else 0
    o = lib.alloc(b["digit"] + 1)
    E.call_ok("botpOCRARand", o, lib.cstr(b["suite"]), lib.mk(b["key"]), len(b["key"]), lib.mk(b["q"]), len(b["q"]),
              ptr(b["ctr"]), ptr(b["p"]), ptr(b["s"]), b["t"])
    otp = lib.rd(o, b["digit"])
    lib.release()
    args = [IN("otp", otp + b"\0"), IN("suite", b["suite"].encode() + b"\0"), IN("key", b["key"]), V("key_len", len(b["key"])),
            IN("q", b["q"]), V("q_len", len(b["q"])), b["ctr"], b["p"], b["s"], V("t", b["t"])]
    cases = _ocra_cases("botpOCRAVerify", b, r, False)
    q2 = "botp.h botpOCRAVerify \\expect{ERR_BAD_PWD} Пароль otp подошел"
    cases.append(C("otp", "wrong-digit", m_in("otp", _wrong_otp(otp, r) + b"\0"), "ERR_BAD_PWD", q2, "auth"))
    cases.append(C("otp", "one-digit-short", m_in("otp", otp[:-1] + b"\0"), "ERR_BAD_PWD", q2, "auth"))
    cases.append(C("otp", "one-digit-long", m_in("otp", otp + b"0\0"), "ERR_BAD_PWD", q2, "auth"))
    return {"args": args, "cases": cases}


# ===========================================================================
# bels.h
# ===========================================================================

BELS_LEN_Q = "\\expect{ERR_BAD_INPUT} len == 16 || len == 24 || len == 32"


def _bels_m(E, ln, num):
    def f():
        lib = E.lib
        o = lib.alloc(ln)
        E.call_ok("belsStdM", o, ln, num)
        return lib.rd(o, ln)
    return E.memo(("belsStdM", ln, num), f)


def _bels_len_cases(fn, resize):
    """resize(args, v): give every len-sized buffer the size that v implies"""
    out = []
    for v in BAD_KEYLENS:
        n = v if v <= 4096 else 32
        out.append(C("len", v, (lambda v=v, n=n: (lambda a: (put(a, V("len", v)), resize(a, n))))(), "ERR_BAD_INPUT",
                     "bels.h %s %s" % (fn, BELS_LEN_Q), "length"))
    return out


@row("belsStdM")
def _bels_stdm(E, r):
    ln, num = r.choice((16, 24, 32)), r.randrange(0, 17)
    args = [OUT("m", ln), V("len", ln), V("num", num)]
    cases = _bels_len_cases("belsStdM", lambda a, n: put(a, OUT("m", n)))
    for v in (17, 18, 255, 256, 1 << 32, SIZE_MAX):
        cases.append(C("num", v, m_val("num", v), "ERR_BAD_INPUT", "bels.h belsStdM \\expect{ERR_BAD_INPUT} 0 <= num <= 16", "identifier"))
    return {"args": args, "cases": cases}


@row("belsValM")
def _bels_valm(E, r):
    ln = r.choice((16, 24, 32))
    args = [IN("m", _bels_m(E, ln, r.randrange(17))), V("len", ln)]
    cases = _bels_len_cases("belsValM", lambda a, n: put(a, IN("m", bytes([3]) + bytes(max(0, n - 1)) if n else b"")))
    return {"args": args, "cases": cases}


def _reducible(ln, r):
    """m0 such that x^(8 len) + m0(x) is reducible for an elementary reason"""
    k = r.choice(("zero", "one", "even-weight"))
    if k == "zero":          # x^n
        return k, bytes(ln)
    if k == "one":           # x^n + 1 = (x + 1)(...)
        return k, bytes([1]) + bytes(ln - 1)
    # x^n + x^a + x^b + 1 ... an even number of terms => divisible by x + 1: x^n + x^a
    a = r.randrange(1, 8 * ln)
    b = bytearray(ln)
    b[a // 8] |= 1 << (a % 8)
    return k, bytes(b)


@row("belsGenM0", every=3)
def _bels_genm0(E, r):
    ln = r.choice((16, 24, 32))
    args = [OUT("m0", ln), V("len", ln)] + E.rng_args(r, "ang")
    cases = _bels_len_cases("belsGenM0", lambda a, n: put(a, OUT("m0", n)))
    if ln == 16:
        q = "bels.h belsGenM0 \\expect{ERR_BAD_ANG} Генератор ang выдает неповторяющиеся ключи-кандидаты"
        cases.append(C("ang", "constant-zero", lambda a: put(a, FN("ang", "py:gen_zero")), "ERR_BAD_ANG", q, "generator"))
    return {"args": args, "cases": cases}


@row("belsGenMi", every=2)
def _bels_genmi(E, r):
    ln = r.choice((16, 24, 32))
    m0 = _bels_m(E, ln, 0)
    args = [OUT("mi", ln), V("len", ln), IN("m0", m0)] + E.rng_args(r, "ang")
    cases = _bels_len_cases("belsGenMi", lambda a, n: (put(a, OUT("mi", n)), put(a, IN("m0", (m0 * 3)[:n]))))
    k, bad = _reducible(ln, r)
    cases.append(C("m0", "reducible", m_in("m0", bad), "ERR_BAD_PUBKEY", "bels.h belsGenMi \\expect{ERR_BAD_PUBKEY} Ключ m0 корректен", "pubkey"))
    q = "bels.h belsGenMi \\expect{ERR_BAD_ANG} Генератор ang корректен и выдает неповторяющиеся ключи-кандидаты"
    cases.append(C("ang", "null", m_many(lambda a: put(a, FN("ang", None)), m_val("ang_state", 0)), "ERR_BAD_ANG", q, "generator"))
    return {"args": args, "cases": cases}


@row("belsGenMid")
def _bels_genmid(E, r):
    ln, il = r.choice((16, 24, 32)), r.choice((0, 1, 8, 40))
    m0 = _bels_m(E, ln, 0)
    args = [OUT("mid", ln), V("len", ln), IN("m0", m0), IN("id", rb(r, il)), V("id_len", il)]
    cases = _bels_len_cases("belsGenMid", lambda a, n: (put(a, OUT("mid", n)), put(a, IN("m0", (m0 * 3)[:n]))))
    k, bad = _reducible(ln, r)
    cases.append(C("m0", "reducible", m_in("m0", bad), "ERR_BAD_PUBKEY", "bels.h belsGenMid \\expect{ERR_BAD_PUBKEY} Ключ m0 корректен", "pubkey"))
    return {"args": args, "cases": cases}


def _thr_cases(fn, sizes, maxcount, count, thr):
    """threshold/count combinations; sizes(args, count) resizes the per-user arrays"""
    h = "bels.h %s \\expect{ERR_BAD_INPUT} 0 < threshold <= count%s" % (fn, " <= 16" if maxcount else "")
    combos = [(count, 0), (count, count + 1), (1, 2), (0, 0), (0, 1), (count, SIZE_MAX), (2, SIZE_MAX)]
    if maxcount:
        combos += [(17, 1), (17, 17), (18, 2), (255, 3)]
    out = []
    for c, t in combos:
        out.append(C("count,threshold", "%s,%s" % (c, "SIZE_MAX" if t == SIZE_MAX else t),
                     (lambda c=c, t=t: (lambda a: (put(a, V("count", c)), put(a, V("threshold", t)), sizes(a, c))))(),
                     "ERR_BAD_INPUT", h, "threshold"))
    return out


@row("belsShare")
def _bels_share(E, r):
    ln = r.choice((16, 24, 32))
    count = r.choice((1, 2, 3, 5, 16))
    thr = r.randrange(1, count + 1)
    m0 = _bels_m(E, ln, 0)
    nums = r.sample(range(1, 17), count)
    mi = b"".join(_bels_m(E, ln, k) for k in nums)
    s = rb(r, ln)
    args = [OUT("si", count * ln), V("count", count), V("threshold", thr), V("len", ln), IN("s", s), IN("m0", m0), IN("mi", mi)] + E.rng_args(r)

    def resize_len(a, n):
        put(a, OUT("si", count * n)), put(a, IN("s", (s * 3)[:n])), put(a, IN("m0", (m0 * 3)[:n])), put(a, IN("mi", (mi * 3)[:count * n]))
    cases = _bels_len_cases("belsShare", resize_len)

    def sizes(a, c):
        c = min(c, 300)
        put(a, OUT("si", c * ln)), put(a, IN("mi", (mi * 20)[:c * ln]))
    cases += _thr_cases("belsShare", sizes, False, count, thr)
    qp = "bels.h belsShare \\expect{ERR_BAD_PUBKEY} Открытые ключи m0, mi корректны и отличаются друг от друга"
    k, bad = _reducible(ln, r)
    cases.append(C("m0", "reducible", m_in("m0", bad), "ERR_BAD_PUBKEY", qp, "pubkey"))
    j = r.randrange(count)
    k, bad = _reducible(ln, r)
    cases.append(C("mi", "reducible", m_in("mi", mi[:j * ln] + bad + mi[(j + 1) * ln:]), "ERR_BAD_PUBKEY", qp, "pubkey", show=k))
    if count >= 2:
        a_, b_ = r.sample(range(count), 2)
        dup = bytearray(mi)
        dup[a_ * ln:(a_ + 1) * ln] = mi[b_ * ln:(b_ + 1) * ln]
        cases.append(C("mi", "two-equal-keys", m_in("mi", bytes(dup)), "ERR_BAD_PUBKEY", qp, "pubkey"))
    cases.append(C("mi", "mi=m0", m_in("mi", m0 + mi[ln:]), "ERR_BAD_PUBKEY", qp, "pubkey"))
    cases.append(C("rng", "null", m_many(lambda a: put(a, FN("rng", None)), m_val("rng_state", 0)), "ERR_BAD_RNG",
                   "bels.h belsShare \\expect{ERR_BAD_RNG} Генератор rng (с состоянием rng_state) корректен", "generator"))
    return {"args": args, "cases": cases}


def _share23(fn, with_rng):
    def build(E, r):
        ln = r.choice((16, 24, 32))
        count = r.choice((1, 2, 3, 5, 16))
        thr = r.randrange(1, count + 1)
        s = rb(r, ln)
        args = [OUT("si", count * (ln + 1)), V("count", count), V("threshold", thr), V("len", ln), IN("s", s)]
        if with_rng:
            args += E.rng_args(r)

        def resize_len(a, n):
            put(a, OUT("si", count * (n + 1))), put(a, IN("s", (s * 3)[:n]))
        cases = _bels_len_cases(fn, resize_len)
        cases += _thr_cases(fn, lambda a, c: put(a, OUT("si", min(c, 300) * (ln + 1))), True, count, thr)
        if with_rng:
            cases.append(C("rng", "null", m_many(lambda a: put(a, FN("rng", None)), m_val("rng_state", 0)), "ERR_BAD_RNG",
                           "bels.h %s \\expect{ERR_BAD_RNG} Генератор rng (с состоянием rng_state) корректен" % fn, "generator"))
        return {"args": args, "cases": cases}
    return build


ROWS["belsShare2"] = Row(_share23("belsShare2", True))
ROWS["belsShare3"] = Row(_share23("belsShare3", False))


@row("belsRecover")
def _bels_recover(E, r):
    lib = E.lib
    ln = r.choice((16, 24, 32))
    count = r.choice((1, 2, 3, 5))
    thr = r.randrange(1, count + 1)
    m0 = _bels_m(E, ln, 0)
    nums = r.sample(range(1, 17), count)
    mi = b"".join(_bels_m(E, ln, k) for k in nums)
    s = rb(r, ln)
    gen, st = E.live_rng(r)
    o = lib.alloc(count * ln)
    E.call_ok("belsShare", o, count, thr, ln, lib.mk(s), lib.mk(m0), lib.mk(mi), gen, st)
    si = lib.rd(o, count * ln)
    lib.release()
    args = [OUT("s", ln), V("count", count), V("len", ln), IN("si", si), IN("m0", m0), IN("mi", mi)]

    def resize_len(a, n):
        put(a, OUT("s", n)), put(a, IN("si", (si * 3)[:count * n])), put(a, IN("m0", (m0 * 3)[:n])), put(a, IN("mi", (mi * 3)[:count * n]))
    cases = _bels_len_cases("belsRecover", resize_len)
    qp = "bels.h belsRecover \\expect{ERR_BAD_PUBKEY} Открытые ключи m0, mi корректны и отличаются друг от друга"
    k, bad = _reducible(ln, r)
    cases.append(C("m0", "reducible", m_in("m0", bad), "ERR_BAD_PUBKEY", qp, "pubkey"))
    j = r.randrange(count)
    k, bad = _reducible(ln, r)
    cases.append(C("mi", "reducible", m_in("mi", mi[:j * ln] + bad + mi[(j + 1) * ln:]), "ERR_BAD_PUBKEY", qp, "pubkey", show=k))
    if count >= 2:
        a_, b_ = r.sample(range(count), 2)
        dup = bytearray(mi)
        dup[a_ * ln:(a_ + 1) * ln] = mi[b_ * ln:(b_ + 1) * ln]
        cases.append(C("mi", "two-equal-keys", m_in("mi", bytes(dup)), "ERR_BAD_PUBKEY", qp, "pubkey"))
    return {"args": args, "cases": cases}


@row("belsRecover2")
def _bels_recover2(E, r):
    lib = E.lib
    ln = r.choice((16, 24, 32))
    count = r.choice((1, 2, 3, 5, 16))
    thr = r.randrange(1, count + 1)
    s = rb(r, ln)
    o = lib.alloc(count * (ln + 1))
    E.call_ok("belsShare3", o, count, thr, ln, lib.mk(s))
    si = lib.rd(o, count * (ln + 1))
    lib.release()
    use = r.randrange(thr, count + 1)
    si = si[:use * (ln + 1)]
    args = [OUT("s", ln), V("count", use), V("len", ln), IN("si", si)]

    def resize_len(a, n):
        put(a, OUT("s", n)), put(a, IN("si", (si * 3)[:use * (n + 1)]))
    cases = _bels_len_cases("belsRecover2", resize_len)
    qp = ("bels.h belsRecover2 \\expect{ERR_BAD_PUBKEY} Номера открытых ключей, указанные в первых октетах частичных секретов, "
          "принадлежат интервалу {1, 2, ..., 16} и отличаются друг от друга")
    j = r.randrange(use)
    for v in (0, 17, 18, 128, 255):
        b = bytearray(si)
        b[j * (ln + 1)] = v
        cases.append(C("si[j][0]", v, m_in("si", bytes(b)), "ERR_BAD_PUBKEY", qp, "identifier"))
    if use >= 2:
        a_, b_ = r.sample(range(use), 2)
        b = bytearray(si)
        b[a_ * (ln + 1)] = si[b_ * (ln + 1)]
        cases.append(C("si[j][0]", "duplicate-number", m_in("si", bytes(b)), "ERR_BAD_PUBKEY", qp, "identifier"))
    return {"args": args, "cases": cases}


# ===========================================================================
# groups -> jobs
# ===========================================================================
# (name, rows, repetitions quick, repetitions thorough)

GROUPS = [
    ("belt-modes", ["beltECBEncr", "beltECBDecr", "beltCBCEncr", "beltCBCDecr", "beltCFBEncr", "beltCFBDecr", "beltCTR", "beltMAC"], 12, 60),
    ("belt-disk", ["beltBDEEncr", "beltBDEDecr", "beltSDEEncr", "beltSDEDecr", "beltKRP", "beltPBKDF2"], 10, 50),
    ("belt-aead", ["beltDWPWrap", "beltDWPUnwrap", "beltCHEWrap", "beltCHEUnwrap", "beltKWPWrap", "beltKWPUnwrap"], 12, 60),
    ("belt-fmt-e", ["beltFMTEncr"], 2, 6),
    ("belt-fmt-d", ["beltFMTDecr"], 2, 6),
    ("bash-brng-botp", ["bashHash", "brngHMACRand", "botpHOTPRand", "botpHOTPVerify", "botpTOTPRand", "botpTOTPVerify",
                        "botpOCRARand", "botpOCRAVerify"], 12, 60),
    ("bels", ["belsStdM", "belsValM", "belsGenM0", "belsGenMi", "belsGenMid", "belsShare", "belsShare2", "belsShare3",
              "belsRecover", "belsRecover2"], 6, 30),
]

# group -> (workers in quick, workers in thorough)
SPLIT = {"belt-modes": (2, 4), "belt-disk": (1, 2), "belt-aead": (2, 4), "belt-fmt-e": (1, 2), "belt-fmt-d": (1, 2), "bash-brng-botp": (2, 4), "bels": (2, 4)}
