"""C15 — secrets are wiped before their memory is released.

Oracle: LD_PRELOADed allocation interposer (drv/wrapalloc.c) on the Release build snapshots every block bee2
releases (free, or the block abandoned by a moving realloc) during a high-level call.  Two deciders:
 1. twin-run differential: the same call is executed in two forked children that differ only in the secret; the
    i-th released block must be byte-identical in both (a wiped block depends only on addresses and the wipe
    counter).  A differing run of octets is excused only if it literally occurs in that twin's public outputs / inputs.
 2. needle scan: no released block contains an 8-octet window of the secret or of its expanded form.
Exits: success, failed authentication, error exits reached by spoiling one input at a time, and every
allocation-failure exit (the k-th allocation fails, k = 1, 2, ...).
Blocks the call obtained and still holds when it returns (an exit that forgot blobClose) are inspected the same
way: the secret stays in the heap although the function is done with it.
The bake Run drivers are run against a scripted peer (transcript recorded from an honest run of both parties).
"""
from .. import wa as walib
from ..core import Harness
from . import secretcalls as sc

LEVEL = "exploration"
ERR_OK = 0
HOW = {0: "free", 1: "realloc", 2: "never"}


def windows(b, w=8):
    if len(b) < w:
        return []
    return [b[i:i + w] for i in range(0, len(b) - w + 1)]


def diff_runs(a, b):
    runs, i, n = [], 0, min(len(a), len(b))
    while i < n:
        if a[i] != b[i]:
            j = i
            while j < n and a[j] != b[j]:
                j += 1
            runs.append((i, j))
            i = j
        else:
            i += 1
    return runs


def wipe_pattern(data, addr, s, e):
    """memWipe fills with a counter whose step depends on the address of each octet (17 + (address & 15)) and whose start
    depends on the addresses of the blocks wiped before; so two wiped blocks can differ between the twins when some buffer
    sits at another address.  A run that follows that recurrence at the block's own address is wipe filler, not data
    (chance of a data run of r octets passing: 2^-8(r-1))."""
    if e - s < 2:
        return False
    for i in range(s, e - 1):
        if (data[i + 1] - data[i]) & 0xFF != (17 + ((addr + i + 1) & 15)) & 0xFF:
            return False
    return True


def twins(lib, w, call, fail_at):
    """both twins from one memory image; returns [resA, resB] or (None, status)"""
    rr = walib.in_twins([lambda k=k: exec_variant(lib, w, call, k, fail_at) for k in (0, 1)])
    for st, res in rr:
        if st != "ok":
            return None, (st, res)
    return [rr[0][1], rr[1][1]], None


def exec_variant(lib, w, call, k, fail_at):
    v = call.v[k]
    ret, info = w.run(call.fn, v.args, fail_at)
    outs = [lib.rd(p, n) for p, n in v.outs]
    return {"ret": ret, "info": info, "outs": outs}


def judge(ctx, call, res, fail_at, reported, desc):
    """res = [resultA, resultB]"""
    name = call.name
    exitc = call.exit_class if not fail_at else "alloc-fail"
    # needle scan
    for k in (0, 1):
        v = call.v[k]
        needles = set()
        for nd in v.needles:
            needles.update(windows(nd))
        pubs = b"\x00".join(v.pub + res[k]["outs"])
        for i, (how, data, addr) in enumerate(res[k]["info"]["snaps"] + res[k]["info"].get("leaked", [])):
            for wnd in windows(data):
                if wnd in needles and wnd not in pubs and len(set(wnd)) > 2:
                    key = "%s:secret-in-released-block:%s:%s" % (name.split(":")[0], HOW[how], exitc) if how < 2 else \
                          "%s:secret-left-in-unreleased-block:%s" % (name.split(":")[0], exitc)
                    if key not in reported:
                        reported.add(key)
                        ctx.violation(key, "a block %s %s (%s exit) still contains the caller's secret" % (
                            "released by" if how < 2 else "obtained and never released by", name, exitc),
                                      dict(desc, block_index=i, block_size=len(data), window=wnd, how=how))
                    break
    # twin differential
    la, lb = res[0]["info"].get("leaked", []), res[1]["info"].get("leaked", [])
    if la or lb:
        ctx.classes["unreleased-block-at-return"] += len(la)
    sa, sb = res[0]["info"]["snaps"] + la, res[1]["info"]["snaps"] + lb
    if len(sa) != len(sb) or any(len(x[1]) != len(y[1]) for x, y in zip(sa, sb)):
        ctx.classes["allocation-pattern-differs-between-twins"] += 1
        return
    for i, ((ha, da, aa), (hb, db, ab)) in enumerate(zip(sa, sb)):
        if da == db:
            continue
        pubA = b"\x00".join(call.v[0].pub + res[0]["outs"])
        pubB = b"\x00".join(call.v[1].pub + res[1]["outs"])
        for s, e in diff_runs(da, db):
            if e - s < 4:
                continue
            if da[s:e] in pubA and db[s:e] in pubB:
                continue
            if wipe_pattern(da, aa, s, e) and wipe_pattern(db, ab, s, e):
                ctx.classes["differing-run-is-wipe-pattern"] += 1
                continue
            key = "%s:released-block-depends-on-secret:%s:%s" % (name.split(":")[0], HOW[ha], exitc) if ha < 2 else \
                  "%s:unreleased-block-depends-on-secret:%s" % (name.split(":")[0], exitc)
            if key not in reported:
                reported.add(key)
                ctx.violation(key, "a block %s %s (%s exit) differs between two runs that differ only in the secret: "
                                   "it was not wiped" % ("released by" if ha < 2 else "obtained and never released by", name, exitc),
                              dict(desc, block_index=i, block_size=len(da), offset=s, length=e - s, a=da[s:e][:64], b=db[s:e][:64]))
            break


def unit_twins(ctx):
    lib, rng = ctx.lib, ctx.rng
    w = walib.WA(lib)
    P = ctx.params
    reported = set()
    exits = {}
    import random
    for name in P["functions"]:
        for size in P["sizes"]:
            for rep in range(P["reps"]):
                s = rng.getrandbits(48)
                desc = {"fn": name, "size": size, "seed": s}
                if not ctx.case(desc, name):
                    continue
                r = random.Random(s)
                call = sc.BUILDERS[name](lib, r, size)
                # success / authentication-failure exit, twins in forked children
                nalloc = 0
                results, bad = twins(lib, w, call, 0)
                if results is None:
                    ctx.violation("%s:crash:%s" % (name.split(":")[0], bad[0]), "child crashed during %s" % name, dict(desc, status=str(bad[1])))
                if results:
                    ok = results[0]["ret"] == ERR_OK
                    if ok and not call.expect_ok:
                        ctx.classes["accepted-although-it-must-be-refused(C09's matter)"] += 1      # not a wipe question
                    elif ok != call.expect_ok:
                        raise Harness("%s returned %d (expected %s)" % (name, results[0]["ret"], "ERR_OK" if call.expect_ok else "an error"))
                    nalloc = results[0]["info"]["nalloc"]
                    judge(ctx, call, results, 0, reported, desc)
                    exits.setdefault(name, set()).add(call.exit_class)
                    ctx.digest(results[0]["ret"], nalloc)
                    if results[0]["info"]["overflow"]:
                        raise Harness("interposer table overflow")
                    ctx.classes["released-blocks-inspected"] += len(results[0]["info"]["snaps"]) + len(results[1]["info"]["snaps"])
                # error exits reached by corrupting one input at a time (all-zero / all-ones content): bad keys, bad points,
                # bad tokens ... whatever the function checks after it has created its state
                if P.get("mutate", True) and results:
                    base = [list(v.args) for v in call.v]
                    saved = {}
                    outp = {p for v in call.v for p, n in v.outs}
                    idxs = [i for i, a in enumerate(base[0]) if isinstance(a, int) and a in lib.sizes and lib.sizes[a] > 0
                            and a not in outp and base[1][i] in lib.sizes]
                    for i in idxs:
                        for pat in (0x00, 0xFF):
                            for k in (0, 1):
                                pk = base[k][i]
                                saved[k] = lib.rd(pk, lib.sizes[pk])
                                lib.wr(pk, bytes([pat]) * lib.sizes[pk])
                            rr, _bad = twins(lib, w, call, 0)
                            for k in (0, 1):
                                lib.wr(base[k][i], saved[k])
                            if rr and rr[0]["ret"] != ERR_OK and rr[0]["info"]["nalloc"]:
                                old_exit = call.exit_class
                                call.exit_class = "arg%d=%02x:err%d" % (i, pat, rr[0]["ret"])
                                judge(ctx, call, rr, 0, reported, dict(desc, mutated_arg=i, pattern=pat, ret=rr[0]["ret"]))
                                exits.setdefault(name, set()).add(call.exit_class)
                                call.exit_class = old_exit
                                ctx.classes["error-exit-after-allocation"] += 1
                                ctx.classes["released-blocks-inspected"] += len(rr[0]["info"]["snaps"]) + len(rr[1]["info"]["snaps"])
                # every allocation-failure exit
                for fail_at in range(1, min(nalloc, P.get("maxfail", 12)) + 1):
                    results, _bad = twins(lib, w, call, fail_at)   # a crash on allocation failure is C09's finding
                    if results and results[0]["info"]["failed"]:
                        judge(ctx, call, results, fail_at, reported, dict(desc, fail_at=fail_at))
                        exits.setdefault(name, set()).add("alloc-fail#%d" % fail_at)
                        ctx.classes["released-blocks-inspected"] += len(results[0]["info"]["snaps"]) + len(results[1]["info"]["snaps"])
                        ctx.classes["alloc-fail-exit"] += 1
                lib.release()
    ctx.note("exits_reached", {k: sorted(v) for k, v in exits.items()})


def jobs(tier, scale=1.0):
    q = tier == "quick"
    names = list(sc.BUILDERS)
    js = []
    light = [n for n in names if n not in sc.HEAVY]
    heavy = [n for n in names if n in sc.HEAVY]
    for i in range(8):
        g = light[i::8]
        js.append({"cfg": "rel64", "unit": "c15:unit_twins",
                   "params": {"functions": g, "sizes": [16, 33, 100] if q else [1, 16, 17, 33, 64, 100, 300], "reps": 6 if q else 120}})
    for i in range(8):
        g = heavy[i::8]
        if g:
            js.append({"cfg": "rel64", "unit": "c15:unit_twins",
                       "params": {"functions": g, "sizes": [32], "reps": 4 if q else 60}})
    return js


def main(run):
    so = walib.build_libwa()
    js = [dict(j, env={"LD_PRELOAD": so}) for j in jobs(run.tier)]
    run.run_jobs(js)
    return run.finish(
        rule="case = (function, size class, seed): twin execution of the success / failed-authentication exit plus one twin execution per "
             "allocation-failure exit; non-trivial = every case (each inspects >= 1 released block); classes count released blocks inspected",
        assumptions=["heap blocks only (automatic variables and registers are outside the property)",
                     "Release build (gcc -O3), the configuration where a wipe could be optimised away",
                     "a differing run shorter than 4 octets is not judged; differing runs are excused only when they literally occur in "
                     "that twin's public outputs/inputs"],
        required_classes=("released-blocks-inspected", "alloc-fail-exit"))
