"""C20 — PIN/CAN/PUK automaton: online trace monitor over the product
(implementation state x monitor state), every product edge one real call of
btokPwdTransition; plus long random histories as a stress cross-check."""
import ctypes, os, re
from .. import build
from ..core import Harness

LEVEL = "model_checking"

EVENTS = ["pin_ok", "pin_bad", "pin_deactivate", "pin_activate", "can_ok", "can_bad", "puk_ok", "puk_bad", "auth_close"]


def parse_enums():
    txt = open(os.path.join(build.REPO, "include/bee2/crypto/btok.h"), encoding="utf-8", errors="replace").read()
    txt = re.sub(r"/\*.*?\*/", " ", txt, flags=re.S)
    out = {}
    for name in ("btok_pin_state", "btok_auth_state", "btok_pwd_event"):
        m = re.search(r"typedef\s+enum\s*\{([^}]*)\}\s*" + name, txt)
        if not m:
            raise Harness("enum %s not found" % name)
        out[name] = [x.strip() for x in m.group(1).split(",") if x.strip()]
    return out


class State(ctypes.Structure):
    _fields_ = [("pin", ctypes.c_uint, 5), ("auth", ctypes.c_uint, 3)]


class Impl:
    def __init__(self, lib):
        self.lib = lib
        en = parse_enums()
        self.PIN = {n: i for i, n in enumerate(en["btok_pin_state"])}
        self.AUTH = {n: i for i, n in enumerate(en["btok_auth_state"])}
        self.EV = {n: i for i, n in enumerate(en["btok_pwd_event"])}
        self.pin_names, self.auth_names = en["btok_pin_state"], en["btok_auth_state"]
        if sorted(self.EV) != sorted(EVENTS) or len(self.PIN) != 16 or len(self.AUTH) != 4:
            raise Harness("unexpected enum contents")
        if ctypes.sizeof(State) != 4:
            raise Harness("bit-field layout")
        self.calls = 0

    def step(self, pin, auth, ev):
        """one real call; state in an exact 4-octet heap block"""
        lib = self.lib
        st = State(self.PIN[pin], self.AUTH[auth])
        p = lib.mk(bytes(st))
        r = lib.btokPwdTransition(p, self.EV[ev])
        st2 = State.from_buffer_copy(lib.rd(p, 4))
        lib.release()
        self.calls += 1
        if st2.pin >= 16 or st2.auth >= 4:
            return r, "pin#%d" % st2.pin, "auth#%d" % st2.auth
        return r, self.pin_names[st2.pin], self.auth_names[st2.auth]


# --- monitor ------------------------------------------------------------------
# monitor state: (bad, can_seen, blocked, pukbad, deact, lastok, owed)
# owed: a correct PUK (before the tenth wrong one) has unblocked the PIN and no PIN attempt was made since: the next one
# must be admitted ("blocks it permanently after ten wrong PUKs", not earlier)

def mon_init(pin):
    if pin == "pin3":
        return (0, False, False, 0, False, None, False)
    if pin == "pin2":
        return (1, False, False, 0, False, None, False)
    if pin == "pins":
        return (2, False, False, 0, False, None, False)
    if pin == "pin1":
        return (2, True, False, 0, False, None, False)
    if pin == "pin0":
        return (3, False, True, 0, False, None, False)
    if pin == "pind":
        return (0, False, False, 0, True, None, False)
    if pin.startswith("puk"):
        return (3, False, True, 10 - int(pin[3:]), False, None, False)
    raise Harness(pin)


def mon_step(m, ev, accepted, before, after):
    """returns (new monitor state, list of violated rules)"""
    bad, can_seen, blocked, pukbad, deact, lastok, owed = m
    viol = []
    if not accepted:
        if before != after:
            viol.append("R6:rejected-event-changed-state:" + ev)
        if owed and ev in ("pin_ok", "pin_bad") and not blocked and not deact:
            viol.append("R3:pin-attempt-refused-after-correct-puk-before-the-tenth-wrong-one:" + ev)
        return m, viol
    if ev in ("pin_ok", "pin_bad"):
        if blocked:
            viol.append(("R3:pin-attempt-accepted-after-10-wrong-puk:" if pukbad >= 10 else
                         "R1:pin-attempt-accepted-while-blocked:") + ev)
        if deact:
            viol.append("R4:pin-attempt-accepted-while-deactivated:" + ev)
        if bad == 2 and not can_seen:
            viol.append("R2:last-pin-attempt-without-can:" + ev)
        owed = False
        if ev == "pin_ok":
            if not blocked and not deact:
                bad, can_seen = 0, False
            lastok = "auth_pin"
        else:
            if not blocked and not deact:
                bad += 1
                if bad >= 3:
                    blocked, pukbad = True, 0
    elif ev == "can_ok":
        if bad == 2:
            can_seen = True
        lastok = "auth_can"
    elif ev == "puk_ok":
        if blocked and pukbad < 10:
            blocked, bad, can_seen, pukbad = False, 0, False, 0
            owed = not deact
        lastok = "auth_puk"
    elif ev == "puk_bad":
        if blocked:
            pukbad = min(10, pukbad + 1)
    elif ev == "pin_deactivate":
        deact, owed = True, False
    elif ev == "pin_activate":
        if not deact:
            viol.append("R4:activate-accepted-when-not-deactivated")
        if before[1] != "auth_puk":
            viol.append("R4:activate-accepted-without-puk-auth")
        deact = False
        if not (blocked and pukbad >= 10):
            # activation under PUK authentication counts as PUK-authorised reset
            blocked, bad, can_seen, pukbad = False, 0, False, 0
    # R5
    if after[1] not in ("auth_none", lastok):
        viol.append("R5:auth-not-most-recent-success:%s" % after[1])
    return (bad, can_seen, blocked, pukbad, deact, lastok, owed), viol


def unit_closure(ctx):
    impl = Impl(ctx.lib)
    # sanity: layout/semantics anchor (documented: pin3 --pin_bad--> pin2)
    r, p, a = impl.step("pin3", "auth_none", "pin_bad")
    if not (r == 1 and p == "pin2" and a == "auth_none"):
        # could be a genuine defect or layout problem; closure below will tell
        pass
    # (a) complete transition relation
    table = {}
    for pin in impl.pin_names:
        for auth in impl.auth_names:
            for ev in EVENTS:
                if not ctx.case(["table", pin, auth, ev], "table"):
                    continue
                table[(pin, auth, ev)] = impl.step(pin, auth, ev)
    # (b) product closure
    seen = set()
    frontier = []
    for pin in impl.pin_names:
        s = ((pin, "auth_none"), mon_init(pin))
        seen.add(s)
        frontier.append((s, [pin]))
    edges = 0
    reported = set()
    while frontier:
        nxt = []
        for (st, m), path in frontier:
            for ev in EVENTS:
                if not ctx.case(["edge", st[0], st[1], list(map(str, m)), ev], "product-edge"):
                    continue
                r, p2, a2 = impl.step(st[0], st[1], ev)
                edges += 1
                after = (p2, a2)
                m2, viol = mon_step(m, ev, bool(r), st, after)
                for v in viol:
                    if v not in reported:
                        reported.add(v)
                        ctx.violation("btokPwdTransition:" + v,
                                      "PIN automaton breaks rule %s" % v,
                                      {"history": path + [ev], "state_before": st, "state_after": after,
                                       "monitor_before": m, "accepted": bool(r)},
                                      replay={"unit": "c20:unit_history", "params": {"history": path + [ev]}})
                s2 = (after, m2)
                if s2 not in seen:
                    seen.add(s2)
                    nxt.append((s2, path + [ev]))
        frontier = nxt
    ctx.note("states", len(seen))
    ctx.note("transitions", edges)
    ctx.note("impl_states_reached", len({s for s, _ in seen}))
    ctx.note("real_calls", impl.calls)
    ctx.note("transition_table_sample", [[k[0], k[1], k[2], v[0], v[1], v[2]] for k, v in list(table.items())[:18]])
    ctx.note("rejected_pairs", sum(1 for v in table.values() if not v[0]))


def unit_history(ctx):
    """replay of one literal history [start pin, ev, ev, ...]"""
    impl = Impl(ctx.lib)
    hist = ctx.params["history"]
    ctx.case(["history"] + hist, "replay")
    st, m = (hist[0], "auth_none"), mon_init(hist[0])
    for ev in hist[1:]:
        r, p2, a2 = impl.step(st[0], st[1], ev)
        m2, viol = mon_step(m, ev, bool(r), st, (p2, a2))
        for v in viol:
            ctx.violation("btokPwdTransition:" + v, "PIN automaton breaks rule %s" % v, {"history": hist})
        st, m = (p2, a2), m2


def unit_random(ctx):
    impl = Impl(ctx.lib)
    rng = ctx.rng
    nhist, hlen = ctx.params["histories"], ctx.params["length"]
    reported = set()
    for h in range(nhist):
        pin = rng.choice(impl.pin_names)
        if not ctx.case(["history", h, pin], "random-history"):
            continue
        st, m = (pin, "auth_none"), mon_init(pin)
        hist = [pin]
        # biased event choice so that rare corners (10 wrong PUKs) are reached
        weights = [rng.random() ** 2 + 0.02 for _ in EVENTS]
        for i in range(hlen):
            ev = rng.choices(EVENTS, weights)[0]
            r, p2, a2 = impl.step(st[0], st[1], ev)
            m2, viol = mon_step(m, ev, bool(r), st, (p2, a2))
            hist.append(ev)
            for v in viol:
                if v not in reported:
                    reported.add(v)
                    ctx.violation("btokPwdTransition:" + v, "PIN automaton breaks rule %s" % v,
                                  {"history": hist[-40:], "state_before": st, "state_after": (p2, a2)},
                                  replay={"unit": "c20:unit_history", "params": {"history": list(hist)}})
            st, m = (p2, a2), m2
        ctx.count(hlen - 1)
    ctx.note("traces_validated_against_impl", nhist)


def main(run):
    q = run.tier == "quick"
    jobs = [{"cfg": "asan64", "unit": "c20:unit_closure"}]
    nw = 4 if q else 16
    for k in range(nw):
        jobs.append({"cfg": "asan64", "unit": "c20:unit_random",
                     "params": {"chunk": k, "histories": 60 if q else 6000, "length": 400}})
    if not q:
        jobs.append({"cfg": "asan32", "unit": "c20:unit_closure"})
        jobs.append({"cfg": "rel64", "unit": "c20:unit_closure"})
    run.run_jobs(jobs)
    run.coverage_extra["exhaustive"] = True
    run.coverage_extra["explanation"] = (
        "breadth-first closure of (implementation state x monitor state) from all 16 persistent PIN states with "
        "auth_none; every product edge is one real btokPwdTransition call on an exact 4-octet heap state under ASan; "
        "every finite history is a path in this finite product")
    return run.finish(
        rule="cases = (state, event) table entries + product edges (impl state, monitor state, event) + random histories; "
             "distinct = distinct (state, monitor state, event) triples / history seeds",
        assumptions=["the monitor's reading of the six rules R1-R6 (DESIGN.md C20) is the property's statement",
                     "enum values outside the 9 events / 16x4 states are not part of the property"],
        min_eval=16 * 4 * 9, required_classes=("table", "product-edge", "random-history"))
