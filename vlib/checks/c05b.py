"""temporary driver for c05_pp (to be deleted)"""
import os
from . import c05_pp
from .. import build

# private build cache: other helpers rebuild /verif/.cache concurrently and delete foreign build directories
build.CACHE = "/tmp/c05b/cache"

LEVEL = "exploration"


def main(run):
    js = []
    only = os.environ.get("C05B_ONLY")
    cfgs = os.environ.get("C05B_CFGS", "asan64,asan32").split(",")
    for cfg in cfgs:
        for j in c05_pp.jobs(run.tier, float(os.environ.get("C05B_SCALE", "1.0"))):
            if only and only not in j["unit"]:
                continue
            js.append(dict(j, cfg=cfg))
    run.run_jobs(js)
    return run.finish(rule="test", assumptions=[])
