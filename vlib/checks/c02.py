"""C02 - bign (STB 34.101.45): signatures, key pairs, DH, key transport and IBS are sound and complete.

Oracle: vlib/ref/bign.py (naive model over ref/ec.py, anchored on the appendix vectors of
/repo/test/crypto/bign_test.c).  Every verifier/unwrapper/extractor decision is evaluated by the model
on the ALTERED input, so "reject exactly what the equations reject" is decided per case.

Units (one worker process per job):
  unit_sign         bignSign / bignSign2 on the boundary grid d x H(<q) x OID + random cases: value = model,
                    own signature verifies
  unit_sign_hq      H >= q (q, q+1, 2^{2l}-1, random) for bignSign/Sign2/IdSign/IdSign2 and the crafted
                    (d, k, H) triples for which a missing reduction of H changes s1 (few cases per job: in a
                    build with ASSERT live each of them may abort the worker)
  unit_verify_alt   one valid signature, every single-bit alteration of s0, s1, H, Q, OID + structured ones
  unit_verify_edge  crafted signatures: s1 in {0,1,2^{2l}-1-q,q-1}, s1+H = 0 mod q, R = O, H >= q accepted,
                    s1+q, H+-q, aliases x+p
  unit_tapes        generator tapes forcing rejection sampling (0, q, [q,p), p, [p,2^{2l}), all-ones; 1, 2, 63,
                    B_PER_IMPOSSIBLE bad candidates then a good one; one more => ERR_BAD_RNG) for KeypairGen/Sign/KeyWrap/IdSign
  unit_dh           DH(a,B) = DH(b,A) = model, key_len classes, invalid keys
  unit_keyt         wrap = model, unwrap(wrap) = id, key lengths 16..64, header / token alterations
  unit_ibs          IdExtract/IdSign/IdSign2/IdVerify = model; alterations of id_hash, hash, id_sig, id_pubkey,
                    pubkey, OID; crafted e in {0,1,q-1}
  unit_val          PubkeyVal / KeypairVal / PubkeyCalc boundary inputs (light; C12 owns validators)
"""
import ctypes, itertools, random

from ..core import Harness
from .. import bee2
from ..ref import bign as RB
from ..ref import ec as REC

LEVEL = "exploration"
LEVELS = (128, 192, 256)
OK = "ERR_OK"

GEN_T = ctypes.CFUNCTYPE(None, ctypes.c_void_p, ctypes.c_size_t, ctypes.c_void_p)

OID_STRS = {
    "short": "1.2",
    "belt-hash": RB.OID_BELT_HASH,
    "long": "1.2." + ".".join(str((3 ** i * 7919) % 4000000007 % 4294967296) for i in range(40)),
    "max-arc": "2.4294967215.4294967295.0.4294967295",
}


def hx(b):
    return bytes(b).hex()


# ----------------------------------------------------------------------------
# environment of a worker: library + model + tape generator
# ----------------------------------------------------------------------------

class TapeGen:
    """gen_i implemented in Python: copies from the current tape"""

    def __init__(self):
        self.tape = RB.Tape(b"")
        self.fail = None
        self.cb = GEN_T(self._fn)
        self.addr = ctypes.cast(self.cb, ctypes.c_void_p).value

    def _fn(self, buf, count, state):
        try:
            ctypes.memmove(buf, self.tape.read(count), count)
        except Exception as e:      # never let an exception escape into C
            self.fail = repr(e)

    def load(self, data):
        self.tape = RB.Tape(data)
        return self.tape


class MemoBign(RB.Bign):
    """the model with a memo on the pure function (scalar, point) -> scalar * point: alterations of one
    base case repeat most multiplications"""

    def __init__(self, lib, l):
        RB.Bign.__init__(self, lib, l)
        self._memo = {}
        raw_mul = self.C.mul

        def mul(k, P):
            key = (k, P)
            r = self._memo.get(key, 0)
            if r == 0:
                if len(self._memo) > 256:
                    self._memo.clear()
                r = self._memo[key] = raw_mul(k, P)
            return r
        self.C.mul = mul


def retry_limit():
    """B_PER_IMPOSSIBLE of include/bee2/defs.h (zz.h documents the give-up threshold of zzRandNZMod through it)"""
    import os, re
    from .. import build
    txt = open(os.path.join(build.REPO, "include/bee2/defs.h"), encoding="utf-8", errors="replace").read()
    m = re.search(r"#define\s+B_PER_IMPOSSIBLE\s+(\d+)", txt)
    if not m:
        raise Harness("B_PER_IMPOSSIBLE not found in defs.h")
    return int(m.group(1))


class Env:
    def __init__(self, ctx, l):
        self.ctx, self.lib, self.l = ctx, ctx.lib, l
        RB.RETRIES = retry_limit()
        try:
            anchors = RB.selftest(ctx.lib, levels=(l,))
            self.M = MemoBign(ctx.lib, l)
        except ValueError as e:
            raise Harness(str(e))
        ctx.note("selftest_anchors_passed", [a for a in anchors])
        self.no = self.M.no
        self.q, self.p = self.M.q, self.M.p
        self.top = 1 << (8 * self.no)
        self.gen = TapeGen()
        self.codes = {}
        self.ders = {k: RB.oid_to_der(v) for k, v in OID_STRS.items()}
        for k, d in self.ders.items():
            if not RB.oid_der_valid(d):
                raise Harness("generator produced an invalid OID: " + k)

    def le(self, x):
        return x.to_bytes(self.no, "little")

    def pp(self):
        return self.lib.mk(self.M.P.raw)

    def finish(self):
        self.ctx.note("reject_code_pairs(model->lib)", self.codes)
        if self.gen.fail:
            raise Harness("generator callback failed: " + self.gen.fail)

    # ---- library calls, exact-size buffers; result tuples shaped like the model's -------------------
    def keypair_gen(self, tape):
        lib, no = self.lib, self.no
        t = self.gen.load(tape)
        d, Q = lib.alloc(no), lib.alloc(2 * no)
        r = lib.bignKeypairGen(d, Q, self.pp(), self.gen.addr, 0)
        return (r, lib.rd(d, no), lib.rd(Q, 2 * no)), t

    def pubkey_calc(self, db):
        lib, no = self.lib, self.no
        Q = lib.alloc(2 * no)
        r = lib.bignPubkeyCalc(Q, self.pp(), lib.mk(db))
        return (r, lib.rd(Q, 2 * no))

    def pubkey_val(self, Qb):
        return (self.lib.bignPubkeyVal(self.pp(), self.lib.mk(Qb)),)

    def keypair_val(self, db, Qb):
        return (self.lib.bignKeypairVal(self.pp(), self.lib.mk(db), self.lib.mk(Qb)),)

    def dh(self, db, Qb, key_len):
        lib = self.lib
        key = lib.alloc(key_len)
        r = lib.bignDH(key, self.pp(), lib.mk(db), lib.mk(Qb), key_len)
        return (r, lib.rd(key, key_len))

    def sign(self, der, H, db, tape):
        lib, no = self.lib, self.no
        t = self.gen.load(tape)
        sig = lib.alloc(no + no // 2)
        r = lib.bignSign(sig, self.pp(), lib.mk(der), len(der), lib.mk(H), lib.mk(db), self.gen.addr, 0)
        return (r, lib.rd(sig, no + no // 2)), t

    def sign2(self, der, H, db, t):
        lib, no = self.lib, self.no
        sig = lib.alloc(no + no // 2)
        tp = 0 if t is None else lib.mk(t)
        r = lib.bignSign2(sig, self.pp(), lib.mk(der), len(der), lib.mk(H), lib.mk(db), tp, 0 if t is None else len(t))
        return (r, lib.rd(sig, no + no // 2))

    def verify(self, der, H, sig, Qb):
        lib = self.lib
        return (lib.bignVerify(self.pp(), lib.mk(der), len(der), lib.mk(H), lib.mk(sig), lib.mk(Qb)),)

    def key_wrap(self, key, header, Qb, tape):
        lib, no = self.lib, self.no
        t = self.gen.load(tape)
        n = no + 16 + len(key)
        tok = lib.alloc(n)
        r = lib.bignKeyWrap(tok, self.pp(), lib.mk(key), len(key), 0 if header is None else lib.mk(header),
                            lib.mk(Qb), self.gen.addr, 0)
        return (r, lib.rd(tok, n)), t

    def key_wrap_shared(self, key, header, Qb, tape, where):
        """the same call with key (and header) stored inside the token buffer (bign_keyt.c: 'buffers key, header and token
        may overlap'): where = 'key@0' | 'key@no' | 'header@0'"""
        lib, no = self.lib, self.no
        t = self.gen.load(tape)
        n = no + 16 + len(key)
        tok = lib.alloc(n)
        pk, ph = lib.mk(key), (0 if header is None else lib.mk(header))
        if where == "key@0":
            lib.wr(tok, key)
            pk = tok
        elif where == "key@no":
            lib.wr(tok + no, key)
            pk = tok + no
        elif where == "header@0" and header is not None:
            lib.wr(tok, header)
            ph = tok
        r = lib.bignKeyWrap(tok, self.pp(), pk, len(key), ph, lib.mk(Qb), self.gen.addr, 0)
        return (r, lib.rd(tok, n)), t

    def key_unwrap(self, token, header, db):
        lib, no = self.lib, self.no
        n = max(0, len(token) - 16 - no)
        key = lib.alloc(n)
        r = lib.bignKeyUnwrap(key, self.pp(), lib.mk(token), len(token), 0 if header is None else lib.mk(header),
                              lib.mk(db))
        return (r, lib.rd(key, n))

    def id_extract(self, der, H0, sig, Qb):
        lib, no = self.lib, self.no
        e, R = lib.alloc(no), lib.alloc(2 * no)
        r = lib.bignIdExtract(e, R, self.pp(), lib.mk(der), len(der), lib.mk(H0), lib.mk(sig), lib.mk(Qb))
        return (r, lib.rd(e, no), lib.rd(R, 2 * no))

    def id_sign(self, der, H0, H, eb, tape):
        lib, no = self.lib, self.no
        t = self.gen.load(tape)
        sig = lib.alloc(no + no // 2)
        r = lib.bignIdSign(sig, self.pp(), lib.mk(der), len(der), lib.mk(H0), lib.mk(H), lib.mk(eb), self.gen.addr, 0)
        return (r, lib.rd(sig, no + no // 2)), t

    def id_sign2(self, der, H0, H, eb, t):
        lib, no = self.lib, self.no
        sig = lib.alloc(no + no // 2)
        tp = 0 if t is None else lib.mk(t)
        r = lib.bignIdSign2(sig, self.pp(), lib.mk(der), len(der), lib.mk(H0), lib.mk(H), lib.mk(eb), tp,
                            0 if t is None else len(t))
        return (r, lib.rd(sig, no + no // 2))

    def id_verify(self, der, H0, H, sig, Rb, Qb):
        lib = self.lib
        return (lib.bignIdVerify(self.pp(), lib.mk(der), len(der), lib.mk(H0), lib.mk(H), lib.mk(sig), lib.mk(Rb),
                                 lib.mk(Qb)),)

    # ---- comparing a library result with the model's -------------------------------------------------
    def compare(self, fn, sigk, m, g, detail):
        """m = (error name, outputs...) of the model, g = (err_t, outputs...) of the library.
        Returns True when they agree on accept/reject and, if accepted, on every output."""
        ctx = self.ctx
        m_ok, g_ok = m[0] == OK, g[0] == 0
        det = dict(detail)
        det["model"] = [m[0]] + [hx(x) for x in m[1:]]
        det["library"] = [bee2.errname(g[0])] + [hx(x) for x in g[1:]]
        if m_ok and not g_ok:
            ctx.violation("%s:rejects-valid:%s" % (fn, sigk),
                          "%s returns %s on an input the standard's equations accept" % (fn, bee2.errname(g[0])), det)
            return False
        if g_ok and not m_ok:
            ctx.violation("%s:accepts-invalid:%s" % (fn, sigk),
                          "%s returns ERR_OK on an input the standard's equations reject (%s)" % (fn, m[0]), det)
            return False
        if m_ok:
            if tuple(m[1:]) != tuple(g[1:len(m)]):
                ctx.violation("%s:value:%s" % (fn, sigk), "%s output differs from the value the standard defines" % fn, det)
                return False
            return True
        k = "%s:%s->%s" % (fn, m[0], bee2.errname(g[0]))
        self.codes[k] = self.codes.get(k, 0) + 1
        return True

    def sampling_diag(self, fn, t, m, g, detail):
        """generator-consuming functions: if the library stopped sampling at a candidate the model rejects,
        say so (one key for the defect whatever its downstream manifestation). Returns True if reported."""
        no = self.no
        if t.overrun:
            self.ctx.violation("%s:sampling:tape-overrun" % fn,
                               "%s read past the end of a tape that holds every candidate the model consumes" % fn,
                               dict(detail, consumed_octets=t.pos, tape_octets=len(t.data)))
            return True
        if t.pos == 0 or t.pos % no:
            return False
        cand = RB.num(t.data[t.pos - no:t.pos])
        mt = RB.Tape(t.data)
        self.M.rand_nz(mt)
        if t.pos < mt.pos and (cand == 0 or cand >= self.q):
            # the library stopped sampling at a candidate the model rejects (whatever happened downstream)
            kind = "=0" if cand == 0 else (">=q-below-p" if cand < self.p else ">=p")
            det = dict(detail, consumed_octets=t.pos, model_consumes=mt.pos, candidate=hx(self.le(cand)),
                       library=[bee2.errname(g[0])] + [hx(x) for x in g[1:]],
                       model=[m[0]] + [hx(x) for x in m[1:]])
            if g[0] == bee2.errcode("ERR_BAD_RNG"):
                self.ctx.violation("%s:sampling:gives-up-early" % fn,
                                   "%s returns ERR_BAD_RNG after %d candidates (documented limit: 1 + B_PER_IMPOSSIBLE = %d)"
                                   % (fn, t.pos // no, RB.RETRIES + 1), det)
            else:
                self.ctx.violation("%s:sampling:accepted-candidate%s" % (fn, kind),
                                   "%s stops rejection sampling at a candidate outside {1..q-1}" % fn, det)
            return True
        return False


def tape_bytes(E, runs):
    """runs: list of (int candidate, count)"""
    return b"".join(E.le(c) * n for c, n in runs)


def tape_desc(E, runs):
    return [[hx(E.le(c)), n] for c, n in runs]


def bad_cand(E, kind, rng):
    if kind == "zero":
        return 0
    if kind == "q":
        return E.q
    if kind == "q+1":
        return E.q + 1
    if kind == "[q,p)":
        return rng.randrange(E.q, E.p)
    if kind == "p-1":
        return E.p - 1
    if kind == "p":
        return E.p
    if kind == "[p,2^2l)":
        return rng.randrange(E.p, E.top)
    if kind == "allones":
        return E.top - 1
    raise Harness(kind)


BAD_KINDS = ("zero", "q", "q+1", "[q,p)", "p-1", "p", "[p,2^2l)", "allones")


def rand_scalar(E, rng):
    return rng.randrange(1, E.q)


def rand_point(E, rng):
    """a random valid public key (model only)"""
    return E.M.C.mul(rand_scalar(E, rng), E.M.G)


def pick_d(E, cls, rng):
    return {"d=1": 1, "d=2": 2, "d=q-1": E.q - 1}.get(cls) or rand_scalar(E, rng)


def pick_H(E, cls, rng):
    q = E.q
    v = {"H=0": 0, "H=1": 1, "H=q-1": q - 1, "H=q": q, "H=q+1": q + 1, "H=2^2l-1": E.top - 1}.get(cls)
    if v is None:
        v = rng.randrange(q, E.top) if cls == "H=rand>=q" else rng.randrange(0, q)
    return v


def inv_mod(a, q):
    return pow(a, -1, q)


# ----------------------------------------------------------------------------
# unit_sign
# ----------------------------------------------------------------------------

def unit_sign(ctx):
    l, chunk, nch, nrand = ctx.params["l"], ctx.params["chunk"], ctx.params["nch"], ctx.params["nrand"]
    E = Env(ctx, l)
    rng = ctx.rng
    M = E.M
    cases = []
    grid = list(itertools.product(("d=1", "d=2", "d=q-1", "d=rand"), ("H=0", "H=1", "H=q-1", "H=rand"),
                                  ("short", "long", "max-arc"), ("Sign", "Sign2")))
    for i, (dc, Hc, oc, fn) in enumerate(grid):
        if i % nch == chunk:
            cases.append((dc, Hc, oc, fn))
    for i in range(nrand):
        cases.append(("d=rand", "H=rand", rng.choice(list(OID_STRS)), rng.choice(("Sign", "Sign2"))))
    plan = []
    for dc, Hc, oc, fn in cases:
        d, H = pick_d(E, dc, rng), pick_H(E, Hc, rng)
        if fn == "Sign":
            kc = rng.choice(("k=rand", "k=rand", "k=rand", "k=1", "k=q-1", "k=2"))
            k = {"k=1": 1, "k=q-1": E.q - 1, "k=2": 2}.get(kc) or rand_scalar(E, rng)
            extra = ("tape", kc, E.le(k))
        else:
            tc = rng.choice(("t=null", "t=empty", "t=short", "t=long"))
            t = {"t=null": None, "t=empty": b""}.get(tc, 0)
            if t == 0:
                t = bytes(rng.getrandbits(8) for _ in range(rng.randrange(1, 32) if tc == "t=short" else rng.randrange(32, 200)))
            extra = ("t", tc, t)
        plan.append((fn, dc, Hc, oc, E.le(d), E.le(H), extra))
    aux = {}
    for n, (fn, dc, Hc, oc, db, H, extra) in enumerate(plan):
        der = E.ders[oc]
        cls = "%s/l%d/%s/%s" % (fn, l, dc, Hc)
        desc = ["bign" + fn, l, {"d": hx(db), "H": hx(H), "oid": hx(der), extra[0]: None if extra[2] is None else hx(extra[2])}]
        if not ctx.case(desc, cls):
            continue
        for a in ("oid=" + oc, extra[1]):
            aux[a] = aux.get(a, 0) + 1
        det = {"l": l, "d": hx(db), "H": hx(H), "oid_der": hx(der), extra[0]: None if extra[2] is None else hx(extra[2])}
        if fn == "Sign":
            g, t = E.sign(der, H, db, extra[2])
            m = M.sign(der, H, db, RB.Tape(extra[2]))
            if not E.sampling_diag("bignSign", t, m, g, det):
                E.compare("bignSign", "H<q", m, g, det)
            ctx.digest(t.pos)
        else:
            g = E.sign2(der, H, db, extra[2])
            m = M.sign2(der, H, db, extra[2])
            E.compare("bignSign2", "H<q", m, g, det)
        rv = None
        if g[0] == 0:
            Qb = M.pubkey_calc(db)[1]
            rv = E.verify(der, H, g[1], Qb)
            same = m[0] == OK and g[1] == m[1]
            mv = M.verify(der, H, g[1], Qb) if (not same or n % 8 == 0) else (OK,)
            if same and mv[0] != OK:
                raise Harness("model rejects its own signature: %r" % (det,))
            E.compare("bignVerify", "own-signature", mv, rv, dict(det, sig=hx(g[1]), pubkey=hx(Qb)))
        ctx.digest(g[0], g[1] if g[0] == 0 else b"", rv)
        E.lib.release()
    ctx.note("sign_aux_classes", aux)
    E.finish()


# ----------------------------------------------------------------------------
# unit_sign_hq : H >= q
# ----------------------------------------------------------------------------

def craft_sign(E, rng, H, a, oid_der, id_hash=None):
    """choose k, then d (or e) such that (k - (s0 + 2^l) d) mod q = a; returns (d, k).  s0 does not depend on d."""
    M = E.M
    while True:
        k = rand_scalar(E, rng)
        R = M.C.mul(k, M.G)
        if id_hash is None:
            s0 = RB.num(M.s0_of(oid_der, E.le(R[0]), H))
        else:
            s0 = RB.num(M.s0_of(oid_der, E.le(R[0]), id_hash, H))
        d = (k - a) * inv_mod(s0 + M.two_l, E.q) % E.q
        if d != 0 or id_hash is not None:
            return d, k


def craft_id_chain(E, rng, e, H0, oid_der):
    """a trusted party (d0, Q0) and its signature of H0 from which bignIdExtract yields exactly e"""
    M = E.M
    while True:
        k0 = rand_scalar(E, rng)
        R = M.C.mul(k0, M.G)
        s0 = RB.num(M.s0_of(oid_der, E.le(R[0]), H0))
        d0 = (k0 - e) * inv_mod(s0 + M.two_l, E.q) % E.q
        if d0:
            break
    sig0 = M.sign_k(oid_der, H0, d0, k0)
    Q0 = M.point_bytes(M.C.mul(d0, M.G))
    return d0, Q0, sig0, M.point_bytes(R)


def unit_sign_hq(ctx):
    l, fam = ctx.params["l"], ctx.params["family"]
    E = Env(ctx, l)
    rng, M, q = ctx.rng, E.M, E.q
    der = E.ders["belt-hash"]
    plan = []
    Hcls = ("H=q", "H=q+1", "H=2^2l-1", "H=rand>=q")
    if fam == "sign":
        for Hc in Hcls:
            H = E.le(pick_H(E, Hc, rng))
            d, k = rand_scalar(E, rng), rand_scalar(E, rng)
            plan.append(("Sign", Hc, H, E.le(d), E.le(k), None))
            plan.append(("Sign2", Hc, H, E.le(d), None, bytes(rng.getrandbits(8) for _ in range(9))))
        for Hv, a, nm in ((E.top - 1, 0, "a=0"), (E.top - 1, E.top - 2 - q, "a=H-q-1"), (E.top - 1, E.top - 1 - q, "a=H-q"),
                          (q + 1, 0, "a=0")):
            H = E.le(Hv)
            d, k = craft_sign(E, rng, H, a, der)
            plan.append(("Sign", "crafted:H=q+%s,%s" % ("1" if Hv == q + 1 else "max", nm), H, E.le(d), E.le(k), None))
    else:
        for Hc in Hcls:
            H, H0 = E.le(pick_H(E, Hc, rng)), E.le(rng.randrange(0, q))
            e, k = rand_scalar(E, rng), rand_scalar(E, rng)
            plan.append(("IdSign", Hc, H, E.le(e), E.le(k), None, H0, None))
            plan.append(("IdSign2", Hc, H, E.le(e), None, bytes(rng.getrandbits(8) for _ in range(9)), H0, None))
        for Hv, a, nm in ((E.top - 1, 0, "a=0"), (E.top - 1, E.top - 2 - q, "a=H-q-1"), (E.top - 1, E.top - 1 - q, "a=H-q"),
                          (q + 1, 0, "a=0")):
            H, H0 = E.le(Hv), E.le(rng.randrange(0, q))
            e, k = craft_sign(E, rng, H, a, der, id_hash=H0)
            chain = craft_id_chain(E, rng, e, H0, der)
            plan.append(("IdSign", "crafted:H=q+%s,%s" % ("1" if Hv == q + 1 else "max", nm), H, E.le(e), E.le(k), None, H0, chain))
    for item in plan:
        fn, Hc, H, db, kb, t = item[:6]
        cls = "%s/l%d/%s" % (fn, l, Hc)
        desc = ["bign" + fn, l, {"H": hx(H), "key": hx(db), "tape": kb and hx(kb), "t": t and hx(t), "oid": hx(der)}]
        if len(item) > 6:
            desc[2]["id_hash"] = hx(item[6])
            if item[7]:
                desc[2]["trusted"] = {"d0": hx(E.le(item[7][0])), "Q0": hx(item[7][1]), "id_sig": hx(item[7][2])}
        if not ctx.case(desc, cls):
            continue
        det = dict(desc[2], l=l, H_minus_q=hex(RB.num(H) - q))
        if fn == "Sign":
            g, tp = E.sign(der, H, db, kb)
            m = M.sign(der, H, db, RB.Tape(kb))
        elif fn == "Sign2":
            g, m = E.sign2(der, H, db, t), M.sign2(der, H, db, t)
        else:
            H0, chain = item[6], item[7]
            if chain:
                # the identity key really is an output of bignIdExtract
                gx = E.id_extract(der, H0, chain[2], chain[1])
                mx = M.id_extract(der, H0, chain[2], chain[1])
                if mx != (OK, db, chain[3]):
                    raise Harness("crafted identity chain is inconsistent in the model")
                E.compare("bignIdExtract", "crafted-chain", mx, gx, det)
            if fn == "IdSign":
                g, tp = E.id_sign(der, H0, H, db, kb)
                m = M.id_sign(der, H0, H, db, RB.Tape(kb))
            else:
                g, m = E.id_sign2(der, H0, H, db, t), M.id_sign2(der, H0, H, db, t)
        if g[0] == 0 and m[0] == OK and g[1] != m[1]:
            s1 = RB.num(g[1][E.no // 2:])
            det["library_s1_minus_q"] = hex(s1 - q)
            det["library_s1>=q"] = s1 >= q
            if fn in ("Sign", "Sign2"):
                Qb = M.pubkey_calc(db)[1]
                det["bignVerify(library signature)"] = bee2.errname(E.verify(der, H, g[1], Qb)[0])
                det["pubkey"] = hx(Qb)
            elif item[7]:
                det["bignIdVerify(library signature)"] = bee2.errname(
                    E.id_verify(der, item[6], H, g[1], item[7][3], item[7][1])[0])
        E.compare("bign" + fn, "H>=q", m, g, det)
        rv = None
        if g[0] == 0 and m[0] == OK and g[1] == m[1] and fn in ("Sign", "Sign2"):
            Qb = M.pubkey_calc(db)[1]
            rv = E.verify(der, H, g[1], Qb)
            E.compare("bignVerify", "H>=q:own-signature", M.verify(der, H, g[1], Qb), rv, dict(det, sig=hx(g[1])))
        ctx.digest(g[0], g[1] if g[0] == 0 else b"", rv)
        E.lib.release()
    E.finish()


# ----------------------------------------------------------------------------
# unit_verify_alt
# ----------------------------------------------------------------------------

def flip(b, i):
    b = bytearray(b)
    b[i // 8] ^= 1 << (i % 8)
    return bytes(b)


def twist_point(E, rng):
    """(x, y) with -y^2 = x^3 + a x + b: on the quadratic twist written in the curve's own coordinates"""
    P = E.M.P
    while True:
        x = rng.randrange(0, E.p)
        rhs = (x * x * x + P.a * x + P.b) % E.p
        if REC.legendre(rhs, E.p) == -1:
            y = REC.sqrt_mod((-rhs) % E.p, E.p)
            if y is None or E.M.C.is_on((x, y)):
                raise Harness("twist construction")
            return (x, y)


def unit_forgery_scan(ctx):
    """Many (not one) altered signatures against bignVerify and bignIdExtract: a verifier that compares only a few octets of
    the hash half s0 still rejects a single alteration almost surely, but accepts about one in 2^(8k) of them.  Alterations:
    s1 replaced by consecutive values (the recomputed R and with it the expected s0 change every time)."""
    l, n, fn = ctx.params["l"], ctx.params["n"], ctx.params["fn"]
    E = Env(ctx, l)
    M, no, q, lib = E.M, E.no, E.q, ctx.lib
    rng = ctx.rng
    der = E.ders["belt-hash"]
    H = E.le(rng.randrange(0, q))
    if fn == "bignVerify":
        d, k = rand_scalar(E, rng), rand_scalar(E, rng)
        sig = M.sign_k(der, H, d, k)
        Qb = M.point_bytes(M.C.mul(d, M.G))
        call = lambda sg: lib.bignVerify(E.pp(), pder, len(der), pH, lib.mk(sg), pQ)
    else:
        e = rand_scalar(E, rng)
        d0, Qb, sig, Rb = craft_id_chain(E, rng, e, H, der)
        eo, Ro = lib.alloc(no), lib.alloc(2 * no)
        call = lambda sg: lib.bignIdExtract(eo, Ro, E.pp(), pder, len(der), pH, lib.mk(sg), pQ)
    pder, pH, pQ = lib.mk(der), lib.mk(H), lib.mk(Qb)
    keep = list(lib._live)
    r0 = call(sig)
    if r0 != 0:
        raise Harness("%s rejects the genuine signature (%s)" % (fn, r0))
    s1 = RB.num(sig[no // 2:])
    start = rng.randrange(1, q)
    if not ctx.case([fn, l, n, start], "%s:forgery-scan" % fn):
        return
    accepted = []
    for i in range(n):
        v = (start + i) % q
        if v == s1:
            continue
        sg = sig[:no // 2] + E.le(v)
        r = call(sg)
        lib.free_one(lib._live[-1])
        if r == 0:
            accepted.append(sg)
    ctx.count(n - 1, "%s:forgery-scan" % fn)
    ctx.digest(len(accepted))
    if accepted:
        ctx.violation("%s:accepts-invalid:one-of-many-altered-signatures" % fn,
                      "%s accepted %d of %d signatures whose s1 was replaced (the hash half is not compared in full?)" % (fn, len(accepted), n),
                      {"l": l, "oid": der, "H": H, "Q": Qb, "genuine": sig, "accepted": accepted[:3], "start": start})


def unit_verify_alt(ctx):
    l, base, part, nparts = ctx.params["l"], ctx.params["base"], ctx.params["part"], ctx.params["nparts"]
    E = Env(ctx, l)
    M, no, q, p = E.M, E.no, E.q, E.p
    rng = random.Random("%s/c02/verify_alt/%d/%d" % (ctx.seed, l, base))     # same base signature in every part
    oc = ("belt-hash", "short", "long", "max-arc")[base % 4]
    der = E.ders[oc]
    d, k = rand_scalar(E, rng), rand_scalar(E, rng)
    H = E.le(rng.randrange(0, q))
    sig = M.sign_k(der, H, d, k)
    Q = M.C.mul(d, M.G)
    Qb = M.point_bytes(Q)
    if M.verify(der, H, sig, Qb) != (OK,):
        raise Harness("model rejects its own signature")
    alts = [("none", None, None)]
    for i in range(3 * l):
        alts.append(("bit:s0" if i < l else "bit:s1", "sig", i))
    for i in range(2 * l):
        alts.append(("bit:H", "H", i))
    for i in range(4 * l):
        alts.append(("bit:Qx" if i < 2 * l else "bit:Qy", "Q", i))
    for i in range(8 * len(der)):
        alts.append(("bit:oid", "oid", i))
    tw = twist_point(E, rng)
    other = rand_point(E, rng)
    structured = [
        ("Q=(x,p-y)", "Qset", M.point_bytes((Q[0], p - Q[1]))),
        ("Q.x=p", "Qset", E.le(p) + Qb[no:]),
        ("Q.x=2^2l-1", "Qset", E.le(E.top - 1) + Qb[no:]),
        ("Q.y=p", "Qset", Qb[:no] + E.le(p)),
        ("Q.y=2^2l-1", "Qset", Qb[:no] + E.le(E.top - 1)),
        ("Q-on-twist", "Qset", E.le(tw[0]) + E.le(tw[1])),
        ("Q=(0,0)", "Qset", bytes(2 * no)),
        ("Q=G", "Qset", M.point_bytes(M.G)),
        ("Q=other-valid", "Qset", M.point_bytes(other)),
        ("Q=(y,x)", "Qset", Qb[no:] + Qb[:no]),
        ("s1=q", "sigset", sig[:no // 2] + E.le(q)),
        ("s1=2^2l-1", "sigset", sig[:no // 2] + E.le(E.top - 1)),
        ("s1=0", "sigset", sig[:no // 2] + E.le(0)),
        ("s1=q-s1", "sigset", sig[:no // 2] + E.le(q - RB.num(sig[no // 2:]))),
        ("s0=0", "sigset", bytes(no // 2) + sig[no // 2:]),
        ("s0=ones", "sigset", b"\xff" * (no // 2) + sig[no // 2:]),
        ("H=0", "Hset", E.le(0)),
        ("H=q-H", "Hset", E.le(q - RB.num(H))),
        ("oid=other-valid", "oidset", E.ders["short" if oc != "short" else "long"]),
        ("oid=truncated", "oidset", der[:-1]),
        ("oid=extended", "oidset", der + b"\x01"),
        ("oid=empty", "oidset", b""),
    ]
    if Q[0] + p < E.top:
        structured.append(("Q.x+p", "Qset", E.le(Q[0] + p) + Qb[no:]))
    alts += structured
    for n, (kind, field, arg) in enumerate(alts):
        if n % nparts != part:
            continue
        a_der, a_H, a_sig, a_Q = der, H, sig, Qb
        if field == "sig":
            a_sig = flip(sig, arg)
        elif field == "H":
            a_H = flip(H, arg)
        elif field == "Q":
            a_Q = flip(Qb, arg)
        elif field == "oid":
            a_der = flip(der, arg)
        elif field == "Qset":
            a_Q = arg
        elif field == "sigset":
            a_sig = arg
        elif field == "Hset":
            a_H = arg
        elif field == "oidset":
            a_der = arg
        cls = "verify-alt/l%d/%s" % (l, kind)
        desc = ["bignVerify", l, kind, arg if not isinstance(arg, bytes) else hx(arg),
                {"oid": hx(der), "H": hx(H), "sig": hx(sig), "Q": hx(Qb)}]
        if not ctx.case(desc, cls):
            continue
        g = E.verify(a_der, a_H, a_sig, a_Q)
        m = M.verify(a_der, a_H, a_sig, a_Q)
        if kind == "none" and m[0] != OK:
            raise Harness("base")
        E.compare("bignVerify", kind, m, g, {"l": l, "alteration": kind, "index": arg if not isinstance(arg, bytes) else None,
                                            "oid_der": hx(a_der), "H": hx(a_H), "sig": hx(a_sig), "pubkey": hx(a_Q)})
        ctx.digest(g[0])
        E.lib.release()
    E.finish()


# ----------------------------------------------------------------------------
# unit_verify_edge: crafted signatures at the boundaries of the verifier's range checks
# ----------------------------------------------------------------------------

def craft_s1(E, rng, H, s1, oid_der):
    """(d, k, sig) with the second signature component equal to s1 (mod q)"""
    M = E.M
    while True:
        k = rand_scalar(E, rng)
        R = M.C.mul(k, M.G)
        s0 = RB.num(M.s0_of(oid_der, E.le(R[0]), H))
        d = (k - RB.num(H) - s1) * inv_mod(s0 + M.two_l, E.q) % E.q
        if d:
            return d, k, M.sign_k(oid_der, H, d, k)


def unit_verify_edge(ctx):
    l = ctx.params["l"]
    reps = ctx.params.get("reps", 1)
    E = Env(ctx, l)
    M, no, q, p, rng = E.M, E.no, E.q, E.p, ctx.rng
    der = E.ders["belt-hash"]
    plan = []       # (class, oid, H, sig, Q)

    def add(cls, H, sig, Qb, d=None):
        plan.append((cls, der, H, sig, Qb))

    for rep in range(reps):
        gap = E.top - 1 - q
        # s1 at the edges of [0, q) and the alias s1 + q where it fits into l/4 octets
        for s1v, nm in ((0, "s1=0"), (1, "s1=1"), (gap, "s1=2^2l-1-q"), (q - 1, "s1=q-1"), (rng.randrange(0, gap), "s1=small")):
            H = E.le(rng.randrange(0, q))
            d, k, sig = craft_s1(E, rng, H, s1v, der)
            Qb = M.point_bytes(M.C.mul(d, M.G))
            if RB.num(sig[no // 2:]) != s1v:
                raise Harness("craft_s1")
            add("edge/%s:valid" % nm, H, sig, Qb)
            if s1v + q < E.top:
                add("edge/%s:alias-s1+q" % nm, H, sig[:no // 2] + E.le(s1v + q), Qb)
        # (s1 + H) mod q at the wrap: s1 + H = q - 1, q, q + 1 ; and the zero scalar for G
        for tot, nm in ((q - 1, "s1+H=q-1"), (q, "s1+H=q"), (q + 1, "s1+H=q+1")):
            Hv = rng.randrange(2, q)
            H = E.le(Hv)
            d, k, sig = craft_s1(E, rng, H, tot - Hv, der)
            add("edge/%s:valid" % nm, H, sig, M.point_bytes(M.C.mul(d, M.G)))
        # H >= q must be ACCEPTED when the signature was made for exactly these octets; H -+ q is another message
        for Hv, nm in ((q, "H=q"), (q + 1, "H=q+1"), (E.top - 1, "H=2^2l-1"), (rng.randrange(q, E.top), "H=rand>=q")):
            H = E.le(Hv)
            d, k = rand_scalar(E, rng), rand_scalar(E, rng)
            sig = M.sign_k(der, H, d, k)
            Qb = M.point_bytes(M.C.mul(d, M.G))
            add("edge/%s:valid" % nm, H, sig, Qb)
            add("edge/%s:alias-H-q" % nm, E.le(Hv - q), sig, Qb)
        for Hv, nm in ((0, "H=0"), (1, "H=1"), (gap, "H=2^2l-1-q")):
            H = E.le(Hv)
            d, k = rand_scalar(E, rng), rand_scalar(E, rng)
            sig = M.sign_k(der, H, d, k)
            Qb = M.point_bytes(M.C.mul(d, M.G))
            add("edge/%s:valid" % nm, H, sig, Qb)
            add("edge/%s:alias-H+q" % nm, E.le(Hv + q), sig, Qb)
        # H >= q and s1 + (H - q) wrapping once more
        Hv = E.top - 1
        d, k, sig = craft_s1(E, rng, E.le(Hv), q - 1, der)
        add("edge/H=2^2l-1,s1=q-1:valid", E.le(Hv), sig, M.point_bytes(M.C.mul(d, M.G)))
        # R = O: s1 + H = -(s0 + 2^l) d  (forged; must be rejected)
        d = rand_scalar(E, rng)
        Hv = rng.randrange(0, q)
        s0 = rng.getrandbits(l)
        s1 = (-(s0 + M.two_l) * d - Hv) % q
        add("edge/R=O", E.le(Hv), s0.to_bytes(no // 2, "little") + E.le(s1), M.point_bytes(M.C.mul(d, M.G)))
        # public keys with extreme private keys; aliases of the x-coordinate 0 of G
        for dv, nm in ((1, "d=1"), (q - 1, "d=q-1"), (2, "d=2")):
            H = E.le(rng.randrange(0, q))
            k = rand_scalar(E, rng)
            sig = M.sign_k(der, H, dv, k)
            Qp = M.C.mul(dv, M.G)
            add("edge/%s:valid" % nm, H, sig, M.point_bytes(Qp))
            if Qp[0] + p < E.top:
                add("edge/%s:alias-Q.x+p" % nm, H, sig, E.le(Qp[0] + p) + E.le(Qp[1]))
            if Qp[1] + p < E.top:
                add("edge/%s:alias-Q.y+p" % nm, H, sig, E.le(Qp[0]) + E.le(Qp[1] + p))
    for cls, a_der, H, sig, Qb in plan:
        desc = ["bignVerify", l, cls, {"oid": hx(a_der), "H": hx(H), "sig": hx(sig), "Q": hx(Qb)}]
        if not ctx.case(desc, "verify-" + cls.replace("edge/", "edge/l%d/" % l)):
            continue
        g = E.verify(a_der, H, sig, Qb)
        m = M.verify(a_der, H, sig, Qb)
        if cls.endswith(":valid") and m[0] != OK:
            raise Harness("crafted valid signature rejected by the model: " + cls)
        if not cls.endswith(":valid") and m[0] == OK:
            raise Harness("crafted forgery accepted by the model: " + cls)
        E.compare("bignVerify", cls.split("/", 1)[1], m, g, {"l": l, "oid_der": hx(a_der), "H": hx(H), "sig": hx(sig), "pubkey": hx(Qb)})
        ctx.digest(g[0])
        E.lib.release()
    E.finish()


# ----------------------------------------------------------------------------
# unit_tapes: rejection sampling
# ----------------------------------------------------------------------------

def tape_plans(E, rng, nrand, heavy):
    """list of (class, runs) ; runs = [(candidate, count)...]; R = B_PER_IMPOSSIBLE: R bad candidates followed by a
    good one must succeed, R + 1 bad candidates must give ERR_BAD_RNG"""
    q, R = E.q, RB.RETRIES
    plans = []
    for g, nm in ((1, "good=1"), (2, "good=2"), (q - 1, "good=q-1")):
        plans.append((nm, [(g, 1)]))
    for _ in range(nrand):
        plans.append(("random", [(rng.randrange(0, E.top), 1) for _ in range(3)] + [(rand_scalar(E, rng), 1)]))
    for r, rn in ((1, "1"), (2, "2"), (R - 1, "R-1"), (R, "R")):
        for kind in (BAD_KINDS if (heavy or r in (1, R)) else ("zero", "[q,p)", "[p,2^2l)")):
            plans.append(("rej%s:%s" % (rn, kind), [(bad_cand(E, kind, rng), r), (rand_scalar(E, rng), 1)]))
        mixed = [(bad_cand(E, rng.choice(BAD_KINDS), rng), 1) for _ in range(r)]
        plans.append(("rej%s:mixed" % rn, mixed + [(rand_scalar(E, rng), 1)]))
    for kind in (BAD_KINDS if heavy else ("zero", "[q,p)", "allones")):
        plans.append(("allbadR+1:%s" % kind, [(bad_cand(E, kind, rng), R + 1)]))
    plans.append(("rejR+1-then-good:zero", [(0, R + 1), (rand_scalar(E, rng), 1)]))
    plans.append(("rejR+1-then-good:[p,2^2l)", [(bad_cand(E, "[p,2^2l)", rng), R + 1), (rand_scalar(E, rng), 1)]))
    for _ in range(4 if heavy else 2):
        plans.append(("first-in-[q,p)", [(rng.randrange(q, E.p), 1), (rand_scalar(E, rng), 1)]))
        plans.append(("first-in-[p,2^2l)", [(rng.randrange(E.p, E.top), 1), (rand_scalar(E, rng), 1)]))
    return plans


def unit_tapes(ctx):
    l, fn = ctx.params["l"], ctx.params["fn"]
    E = Env(ctx, l)
    M, rng, q, no = E.M, ctx.rng, E.q, E.no
    der = E.ders["belt-hash"]
    plans = tape_plans(E, rng, ctx.params["nrand"], fn == "KeypairGen")
    items = []
    for cls, runs in plans:
        # pad so that a library that over-consumes is seen as an overrun only beyond the documented limit
        extra = {"d": E.le(rand_scalar(E, rng)), "H": E.le(rng.randrange(0, q)), "H0": E.le(rng.randrange(0, q)),
                 "key": bytes(rng.getrandbits(8) for _ in range(rng.randrange(16, 65))),
                 "header": bytes(rng.getrandbits(8) for _ in range(16))}
        items.append((cls, runs, extra))
    for cls, runs, x in items:
        tb = tape_bytes(E, runs)
        desc = ["bign" + fn, l, cls, tape_desc(E, runs) if len(runs) < 8 else "mixed:" + hx(tb[:64]) + "..",
                {k: hx(v) for k, v in x.items()}]
        if not ctx.case(desc, "tape/%s/l%d/%s" % (fn, l, cls)):
            continue
        det = {"l": l, "tape_class": cls, "tape_runs": tape_desc(E, runs)[:6], "tape_octets": len(tb)}
        rv = ()
        if fn == "KeypairGen":
            g, t = E.keypair_gen(tb)
            m = M.keypair_gen(RB.Tape(tb))
            if not E.sampling_diag("bignKeypairGen", t, m, g, det):
                E.compare("bignKeypairGen", "tape", m, g, det)
            if g[0] == 0:
                # "key generation returns a pair that passes key-pair validation"
                v1, v2 = E.keypair_val(g[1], g[2]), E.pubkey_val(g[2])
                rv = (v1[0], v2[0])
                if v1[0] != 0:
                    ctx.violation("bignKeypairGen:pair-fails-bignKeypairVal:%s" % bee2.errname(v1[0]),
                                  "the generated key pair does not pass bignKeypairVal",
                                  dict(det, privkey=hx(g[1]), pubkey=hx(g[2]), privkey_minus_q=hex(RB.num(g[1]) - q),
                                       model_says=M.keypair_val(g[1], g[2])[0]))
                mc = M.pubkey_calc(g[1])
                gc = E.pubkey_calc(g[1])
                E.compare("bignPubkeyCalc", "generated-privkey", mc, gc, dict(det, privkey=hx(g[1])))
                E.compare("bignPubkeyVal", "generated-pubkey", M.pubkey_val(g[2]), v2, dict(det, pubkey=hx(g[2])))
        elif fn == "Sign":
            g, t = E.sign(der, x["H"], x["d"], tb)
            m = M.sign(der, x["H"], x["d"], RB.Tape(tb))
            det.update(d=hx(x["d"]), H=hx(x["H"]))
            if not E.sampling_diag("bignSign", t, m, g, det):
                E.compare("bignSign", "tape", m, g, det)
            if g[0] == 0:
                Qb = M.pubkey_calc(x["d"])[1]
                v = E.verify(der, x["H"], g[1], Qb)
                rv = (v[0],)
                E.compare("bignVerify", "tape:own-signature", M.verify(der, x["H"], g[1], Qb), v, dict(det, sig=hx(g[1])))
        elif fn == "KeyWrap":
            Qb = M.pubkey_calc(x["d"])[1]
            g, t = E.key_wrap(x["key"], x["header"], Qb, tb)
            m = M.key_wrap(x["key"], x["header"], Qb, RB.Tape(tb))
            det.update(d=hx(x["d"]), key=hx(x["key"]), header=hx(x["header"]))
            if not E.sampling_diag("bignKeyWrap", t, m, g, det):
                E.compare("bignKeyWrap", "tape", m, g, det)
            if g[0] == 0 and len(x["key"]) >= 16:
                # the same tape with key / header laid inside the token buffer must give the same token
                for where in ("key@0", "key@no", "header@0"):
                    g2, _ = E.key_wrap_shared(x["key"], x["header"], Qb, tb, where)
                    if g2 != g:
                        E.compare("bignKeyWrap", "shared-buffer:" + where, g, g2, dict(det, placement=where))
            if g[0] == 0:
                u = E.key_unwrap(g[1], x["header"], x["d"])
                rv = (u[0],)
                E.compare("bignKeyUnwrap", "tape:own-token",
                          (OK, x["key"]) if (m[0] == OK and g[1] == m[1]) else M.key_unwrap(g[1], x["header"], x["d"]),
                          u, dict(det, token=hx(g[1])))
        elif fn == "IdSign":
            g, t = E.id_sign(der, x["H0"], x["H"], x["d"], tb)
            m = M.id_sign(der, x["H0"], x["H"], x["d"], RB.Tape(tb))
            det.update(e=hx(x["d"]), H=hx(x["H"]), id_hash=hx(x["H0"]))
            if not E.sampling_diag("bignIdSign", t, m, g, det):
                E.compare("bignIdSign", "tape", m, g, det)
        else:
            raise Harness(fn)
        ctx.digest(g[0], t.pos, *([x for x in g[1:]] if g[0] == 0 else []), *rv)
        E.lib.release()
    E.finish()


# ----------------------------------------------------------------------------
# unit_dh
# ----------------------------------------------------------------------------

def unit_dh(ctx):
    l, n = ctx.params["l"], ctx.params["n"]
    E = Env(ctx, l)
    M, rng, q, no, p = E.M, ctx.rng, E.q, E.no, E.p
    plan = []
    dcl = ("d=1", "d=2", "d=q-1", "d=rand")
    for i in range(n):
        ac, bc = (dcl[i % 4], dcl[(i // 4) % 4]) if i < 16 else ("d=rand", "d=rand")
        klen = (2 * no, no, no + 1, 1, 0, no - 1, 2 * no - 1, 32)[i % 8]
        plan.append(("sym", ac, bc, pick_d(E, ac, rng), pick_d(E, bc, rng), klen))
    tw = twist_point(E, rng)
    a0 = rand_scalar(E, rng)
    B0 = M.C.mul(rand_scalar(E, rng), M.G)
    bad = [("keylen=2no+1", E.le(a0), M.point_bytes(B0), 2 * no + 1),
           ("d=0", E.le(0), M.point_bytes(B0), no), ("d=q", E.le(q), M.point_bytes(B0), no),
           ("d=q+1", E.le(q + 1), M.point_bytes(B0), no), ("d=2^2l-1", E.le(E.top - 1), M.point_bytes(B0), no),
           ("Q-on-twist", E.le(a0), E.le(tw[0]) + E.le(tw[1]), no), ("Q=(0,0)", E.le(a0), bytes(2 * no), no),
           ("Q.x=p", E.le(a0), E.le(p) + E.le(M.G[1]), no), ("Q.y+1", E.le(a0), E.le(B0[0]) + E.le((B0[1] + 1) % p), no),
           ("Q.y=2^2l-1", E.le(a0), E.le(B0[0]) + E.le(E.top - 1), no),
           ("Q=(x,p-y)", E.le(a0), M.point_bytes((B0[0], p - B0[1])), 2 * no)]
    for kind, ac, bc, a, b, klen in plan:
        cls = "dh/l%d/%s/%s/keylen=%s" % (l, ac, bc, {2 * no: "2no", no: "no", no + 1: "no+1", 1: "1", 0: "0"}.get(klen, "other"))
        if not ctx.case(["bignDH", l, hx(E.le(a)), hx(E.le(b)), klen], cls):
            continue
        A, B = M.pubkey_calc(E.le(a))[1], M.pubkey_calc(E.le(b))[1]
        gA, gB = E.pubkey_calc(E.le(a)), E.pubkey_calc(E.le(b))
        E.compare("bignPubkeyCalc", "dh", (OK, A), gA, {"d": hx(E.le(a))})
        E.compare("bignPubkeyCalc", "dh", (OK, B), gB, {"d": hx(E.le(b))})
        g1, g2 = E.dh(E.le(a), B, klen), E.dh(E.le(b), A, klen)
        m = M.dh(E.le(a), B, klen)
        det = {"l": l, "a": hx(E.le(a)), "b": hx(E.le(b)), "A": hx(A), "B": hx(B), "key_len": klen}
        E.compare("bignDH", "value", m, g1, det)
        if g1 != g2:
            ctx.violation("bignDH:asymmetric", "DH(a, B) != DH(b, A)",
                          dict(det, k1=[g1[0], hx(g1[1])], k2=[g2[0], hx(g2[1])]))
        ctx.digest(g1[0], g1[1], g2[0], g2[1])
        E.lib.release()
    for kind, db, Qb, klen in bad:
        if not ctx.case(["bignDH", l, kind, hx(db), hx(Qb), klen], "dh/l%d/invalid:%s" % (l, kind)):
            continue
        g = E.dh(db, Qb, klen)
        m = M.dh(db, Qb, klen)
        E.compare("bignDH", kind, m, g, {"l": l, "privkey": hx(db), "pubkey": hx(Qb), "key_len": klen})
        ctx.digest(g[0], g[1] if g[0] == 0 else b"")
        E.lib.release()
    E.finish()


# ----------------------------------------------------------------------------
# unit_keyt
# ----------------------------------------------------------------------------

def no_sqrt_x(E, rng):
    P = E.M.P
    while True:
        x = rng.randrange(0, E.p)
        if REC.legendre((x * x * x + P.a * x + P.b) % E.p, E.p) == -1:
            return x


def unit_keyt(ctx):
    l, part, nparts, full = ctx.params["l"], ctx.params["part"], ctx.params["nparts"], ctx.params["full_header"]
    E = Env(ctx, l)
    M, rng, q, no, p = E.M, ctx.rng, E.q, E.no, E.p
    lens = [n for i, n in enumerate(range(16, 65)) if i % nparts == part]
    n = 0
    for klen in lens:
        d = pick_d(E, ("d=rand", "d=1", "d=q-1", "d=rand", "d=2")[klen % 5], rng)
        db = E.le(d)
        Qb = M.pubkey_calc(db)[1]
        key = bytes(rng.getrandbits(8) for _ in range(klen))
        hc = ("hdr=rand", "hdr=null", "hdr=zero", "hdr=ones")[klen % 4]
        header = {"hdr=null": None, "hdr=zero": bytes(16), "hdr=ones": b"\xff" * 16}.get(hc, 0)
        if header == 0:
            header = bytes(rng.getrandbits(8) for _ in range(16))
        k = {0: 1, 1: q - 1}.get(klen % 7) or rand_scalar(E, rng)
        tb = E.le(k)
        alt_rng = random.Random(rng.getrandbits(64))
        xbad = no_sqrt_x(E, alt_rng)
        cls = "keyt/l%d/wrap/len=%d/%s" % (l, klen, hc)
        desc = ["bignKeyWrap", l, {"key": hx(key), "header": header and hx(header), "d": hx(db), "tape": hx(tb)}]
        if not ctx.case(desc, cls):
            continue
        det = {"l": l, "key": hx(key), "header": header and hx(header), "privkey": hx(db), "pubkey": hx(Qb), "tape": hx(tb)}
        g, t = E.key_wrap(key, header, Qb, tb)
        m = M.key_wrap(key, header, Qb, RB.Tape(tb))
        if not E.sampling_diag("bignKeyWrap", t, m, g, det):
            E.compare("bignKeyWrap", "value", m, g, det)
        ctx.digest(g[0], g[1] if g[0] == 0 else b"")
        E.lib.release()
        token = m[1]
        hdr = bytes(16) if header is None else header
        # alterations (model decides on the altered input)
        alts = [("none", token, header)]
        if header is None:
            alts.append(("hdr:null->zero", token, bytes(16)))
        elif hc == "hdr=zero":
            alts.append(("hdr:zero->null", token, None))
        hbits = range(128) if (full and klen in (16, 33, 64)) else sorted(alt_rng.sample(range(128), 6))
        for i in hbits:
            alts.append(("hdr:bit", token, flip(hdr, i)))
        for o in (0, no - 1, no, len(token) - 16, len(token) - 1):
            for b in ((0, 7) if not full else range(8)):
                alts.append(("token:bit@%s" % {0: "first", no - 1: "x-last", no: "body-first", len(token) - 1: "last"}.get(o, "hdr-first"),
                             flip(token, 8 * o + b), header))
        alts.append(("token:x-without-sqrt", E.le(xbad) + token[no:], header))
        alts.append(("token:x=p", E.le(p) + token[no:], header))
        alts.append(("token:x=2^2l-1", E.le(E.top - 1) + token[no:], header))
        alts.append(("token:x=0(G)", E.le(0) + token[no:], header))
        alts.append(("token:truncated-1", token[:-1], header))
        alts.append(("token:extended+1", token + b"\0", header))
        if klen == 16:
            alts.append(("token:len=no+31", token[:no + 31], header))
            alts.append(("token:len=no", token[:no], header))
            alts.append(("token:len=0", b"", header))
        alts.append(("privkey:other", token, header, E.le(rand_scalar(E, alt_rng))))
        alts.append(("privkey:q-d", token, header, E.le(q - d)))
        for a in alts:
            kind, tok, hd = a[:3]
            dk = a[3] if len(a) > 3 else db
            desc = ["bignKeyUnwrap", l, kind, {"token": hx(tok), "header": hd and hx(hd), "d": hx(dk)}]
            if not ctx.case(desc, "keyt/l%d/unwrap/%s" % (l, kind)):
                continue
            g = E.key_unwrap(tok, hd, dk)
            mu = M.key_unwrap(tok, hd, dk)
            if kind in ("none", "privkey:q-d") and mu != (OK, key):
                raise Harness("model: unwrap(wrap) != id")
            E.compare("bignKeyUnwrap", kind, mu, g, {"l": l, "alteration": kind, "token": hx(tok), "header": hd and hx(hd),
                                                     "privkey": hx(dk), "original_key": hx(key)})
            ctx.digest(g[0], g[1] if g[0] == 0 else b"")
            E.lib.release()
    E.finish()


# ----------------------------------------------------------------------------
# unit_ibs
# ----------------------------------------------------------------------------

def sample_bits(nbits, k, rng):
    if k >= nbits:
        return list(range(nbits))
    s = {0, 7, nbits - 8, nbits - 1}
    s.update(rng.sample(range(nbits), k))
    return sorted(s)


def unit_ibs(ctx):
    l, base, part, nparts, nbits = (ctx.params[k] for k in ("l", "base", "part", "nparts", "bits"))
    E = Env(ctx, l)
    M, no, q, p = E.M, E.no, E.q, E.p
    rng = random.Random("%s/c02/ibs/%d/%d" % (ctx.seed, l, base))
    oc = ("belt-hash", "long", "short", "max-arc")[base % 4]
    der = E.ders[oc]
    H0 = E.le(rng.randrange(0, q) if base % 3 else rng.randrange(q, E.top))
    ecls = ("e=rand", "e=0", "e=1", "e=q-1")[base % 4]
    if ecls == "e=rand":
        d0, k0 = rand_scalar(E, rng), rand_scalar(E, rng)
        sig0 = M.sign_k(der, H0, d0, k0)
        Q0 = M.point_bytes(M.C.mul(d0, M.G))
    else:
        ev = {"e=0": 0, "e=1": 1, "e=q-1": q - 1}[ecls]
        d0, Q0, sig0, _ = craft_id_chain(E, rng, ev, H0, der)
    mx = M.id_extract(der, H0, sig0, Q0)
    if mx[0] != OK:
        raise Harness("model: id_extract rejects a valid identity signature")
    eb, Rb = mx[1], mx[2]
    if ecls != "e=rand" and RB.num(eb) != ev:
        raise Harness("crafted e")
    Hc = ("H=rand", "H=0", "H=q-1", "H=rand")[(base // 2) % 4]
    H = E.le(pick_H(E, Hc, rng))
    k = rand_scalar(E, rng)
    t = (None, b"", b"tt", bytes(rng.getrandbits(8) for _ in range(77)))[base % 4]
    msig = M.id_sign_k(der, H0, H, RB.num(eb), k)
    if M.id_verify(der, H0, H, msig, Rb, Q0) != (OK,):
        raise Harness("model: id_verify rejects the model's identity-based signature")
    tw = twist_point(E, rng)
    tag = "ibs/l%d/%s/%s" % (l, ecls, Hc)
    base_det = {"l": l, "oid_der": hx(der), "id_hash": hx(H0), "trusted_privkey": hx(E.le(d0)), "trusted_pubkey": hx(Q0),
                "id_sig_of_trusted": hx(sig0), "e": hx(eb), "id_pubkey": hx(Rb), "hash": hx(H)}
    cases = []
    # producers (only in part 0)
    if part == 0:
        cases.append(("produce:extract",))
        cases.append(("produce:idsign",))
        cases.append(("produce:idsign2",))
    n = 0
    arng = random.Random(rng.getrandbits(64))
    ext_alts = [("none", None, None)]
    for fld, data in (("sig", sig0), ("id_hash", H0), ("pubkey", Q0), ("oid", der)):
        for i in sample_bits(8 * len(data), nbits, arng):
            ext_alts.append(("bit:" + fld, fld, i))
    ext_alts += [("pubkey-on-twist", "pubkey=", E.le(tw[0]) + E.le(tw[1])), ("pubkey=(0,0)", "pubkey=", bytes(2 * no)),
                 ("pubkey=(x,p-y)", "pubkey=", Q0[:no] + E.le(p - RB.num(Q0[no:]))), ("pubkey.x=p", "pubkey=", E.le(p) + Q0[no:]),
                 ("s1=q", "sig=", sig0[:no // 2] + E.le(q)), ("s1=2^2l-1", "sig=", sig0[:no // 2] + E.le(E.top - 1))]
    if RB.num(sig0[no // 2:]) + q < E.top:
        ext_alts.append(("s1+q", "sig=", sig0[:no // 2] + E.le(RB.num(sig0[no // 2:]) + q)))
    ver_alts = [("none", None, None)]
    for fld, data in (("id_sig", msig), ("id_hash", H0), ("hash", H), ("id_pubkey", Rb), ("pubkey", Q0), ("oid", der)):
        for i in sample_bits(8 * len(data), nbits, arng):
            ver_alts.append(("bit:" + fld, fld, i))
    Rp = (RB.num(Rb[:no]), RB.num(Rb[no:]))
    ver_alts += [("id_pubkey-on-twist", "id_pubkey=", E.le(tw[0]) + E.le(tw[1])), ("id_pubkey=(0,0)", "id_pubkey=", bytes(2 * no)),
                 ("id_pubkey=(x,p-y)", "id_pubkey=", Rb[:no] + E.le(p - Rp[1])), ("id_pubkey.x=p", "id_pubkey=", E.le(p) + Rb[no:]),
                 ("id_pubkey=pubkey", "id_pubkey=", Q0),
                 ("pubkey-on-twist", "pubkey=", E.le(tw[0]) + E.le(tw[1])), ("pubkey=(0,0)", "pubkey=", bytes(2 * no)),
                 ("pubkey=(x,p-y)", "pubkey=", Q0[:no] + E.le(p - RB.num(Q0[no:]))), ("pubkey.y=p", "pubkey=", Q0[:no] + E.le(p)),
                 ("pubkey=id_pubkey", "pubkey=", Rb),
                 ("s1=q", "id_sig=", msig[:no // 2] + E.le(q)), ("s1=2^2l-1", "id_sig=", msig[:no // 2] + E.le(E.top - 1)),
                 ("hash<->id_hash", "swap", None)]
    if RB.num(msig[no // 2:]) + q < E.top:
        ver_alts.append(("s1+q", "id_sig=", msig[:no // 2] + E.le(RB.num(msig[no // 2:]) + q)))
    idx = 0
    for a in ext_alts:
        if idx % nparts == part:
            cases.append(("extract",) + a)
        idx += 1
    for a in ver_alts:
        if idx % nparts == part:
            cases.append(("verify",) + a)
        idx += 1
    for c in cases:
        op = c[0]
        if op.startswith("produce"):
            cls = "%s/%s" % (tag, op)
            if not ctx.case([op, l, base_det, hx(E.le(k)), t and hx(t)], cls):
                continue
            if op == "produce:extract":
                g = E.id_extract(der, H0, sig0, Q0)
                E.compare("bignIdExtract", ecls, mx, g, base_det)
                ctx.digest(*g)
            elif op == "produce:idsign":
                g, tp = E.id_sign(der, H0, H, eb, E.le(k))
                m = (OK, msig)
                if not E.sampling_diag("bignIdSign", tp, m, g, base_det):
                    E.compare("bignIdSign", ecls, m, g, dict(base_det, tape=hx(E.le(k))))
                v = None
                if g[0] == 0:
                    v = E.id_verify(der, H0, H, g[1], Rb, Q0)
                    E.compare("bignIdVerify", "own-signature", M.id_verify(der, H0, H, g[1], Rb, Q0), v, dict(base_det, id_sig=hx(g[1])))
                ctx.digest(g[0], g[1] if g[0] == 0 else b"", v)
            else:
                g = E.id_sign2(der, H0, H, eb, t)
                m = M.id_sign2(der, H0, H, eb, t)
                E.compare("bignIdSign2", ecls, m, g, dict(base_det, t=t and hx(t)))
                v = None
                if g[0] == 0:
                    v = E.id_verify(der, H0, H, g[1], Rb, Q0)
                    E.compare("bignIdVerify", "own-signature", M.id_verify(der, H0, H, g[1], Rb, Q0), v, dict(base_det, id_sig=hx(g[1])))
                ctx.digest(g[0], g[1] if g[0] == 0 else b"", v)
            E.lib.release()
            continue
        _, kind, fld, arg = c
        a = {"oid": der, "id_hash": H0, "hash": H, "sig": sig0, "id_sig": msig, "id_pubkey": Rb, "pubkey": Q0}
        if fld is None:
            pass
        elif fld == "swap":
            a["hash"], a["id_hash"] = H0, H
        elif fld.endswith("="):
            a[fld[:-1]] = arg
        else:
            a[fld] = flip(a[fld], arg)
        cls = "%s/%s-alt/%s" % (tag, op, kind)
        desc = ["bignId" + op.capitalize(), l, kind, arg if not isinstance(arg, bytes) else hx(arg), base_det]
        if not ctx.case(desc, cls):
            continue
        det = dict(base_det, alteration=kind, index=arg if not isinstance(arg, bytes) else hx(arg))
        if op == "extract":
            g = E.id_extract(a["oid"], a["id_hash"], a["sig"], a["pubkey"])
            m = M.id_extract(a["oid"], a["id_hash"], a["sig"], a["pubkey"])
            if kind == "none" and m[0] != OK:
                raise Harness("ibs base")
            E.compare("bignIdExtract", kind, m, g, det)
        else:
            det["id_sig"] = hx(msig)
            g = E.id_verify(a["oid"], a["id_hash"], a["hash"], a["id_sig"], a["id_pubkey"], a["pubkey"])
            m = M.id_verify(a["oid"], a["id_hash"], a["hash"], a["id_sig"], a["id_pubkey"], a["pubkey"])
            if kind == "none" and m[0] != OK:
                raise Harness("ibs base")
            E.compare("bignIdVerify", kind, m, g, det)
        ctx.digest(g[0], *(g[1:] if g[0] == 0 else ()))
        E.lib.release()
    E.finish()


# ----------------------------------------------------------------------------
# unit_val (light)
# ----------------------------------------------------------------------------

def unit_val(ctx):
    l, n = ctx.params["l"], ctx.params["n"]
    E = Env(ctx, l)
    M, rng, q, no, p = E.M, ctx.rng, E.q, E.no, E.p
    pts = []
    for i in range(n):
        pts.append(("on-curve", M.point_bytes(rand_point(E, rng))))
        tw = twist_point(E, rng)
        pts.append(("twist", E.le(tw[0]) + E.le(tw[1])))
        P0 = rand_point(E, rng)
        pts.append(("y+1", E.le(P0[0]) + E.le((P0[1] + 1) % p)))
        pts.append(("(x,p-y)", E.le(P0[0]) + E.le(p - P0[1])))
        pts.append(("bitflip", flip(M.point_bytes(P0), rng.randrange(16 * no))))
    G = M.G
    pts += [("G", M.point_bytes(G)), ("-G", M.point_bytes((0, p - G[1]))), ("(0,0)", bytes(2 * no)),
            ("x=p(G)", E.le(p) + E.le(G[1])),
            ("x=2^2l-1", E.le(E.top - 1) + E.le(G[1])), ("y=p", E.le(0) + E.le(p)), ("y=2^2l-1", E.le(0) + E.le(E.top - 1))]
    for kind, Qb in pts:
        if not ctx.case(["bignPubkeyVal", l, kind, hx(Qb)], "val/l%d/pubkey:%s" % (l, kind)):
            continue
        g = E.pubkey_val(Qb)
        E.compare("bignPubkeyVal", kind, M.pubkey_val(Qb), g, {"l": l, "pubkey": hx(Qb)})
        ctx.digest(g[0])
        E.lib.release()
    d = rand_scalar(E, rng)
    Qd = M.pubkey_calc(E.le(d))[1]
    Qo = M.point_bytes(rand_point(E, rng))
    pairs = [("valid", E.le(d), Qd), ("d=1", E.le(1), M.point_bytes(G)), ("d=q-1", E.le(q - 1), M.point_bytes((0, p - G[1]))),
             ("d=0", E.le(0), Qd), ("d=q", E.le(q), Qd), ("d=q+1", E.le(q + 1), M.point_bytes(G)),
             ("d=2^2l-1", E.le(E.top - 1), Qd), ("Q=-Q", E.le(d), Qd[:no] + E.le(p - RB.num(Qd[no:]))),
             ("Q=other", E.le(d), Qo), ("Q=bitflip", E.le(d), flip(Qd, rng.randrange(16 * no))),
             ("d=bitflip", flip(E.le(d), rng.randrange(8 * no - 1)), Qd)]
    for kind, db, Qb in pairs:
        if not ctx.case(["bignKeypairVal", l, kind, hx(db), hx(Qb)], "val/l%d/keypair:%s" % (l, kind)):
            continue
        g = E.keypair_val(db, Qb)
        E.compare("bignKeypairVal", kind, M.keypair_val(db, Qb), g, {"l": l, "privkey": hx(db), "pubkey": hx(Qb)})
        gc = E.pubkey_calc(db)
        E.compare("bignPubkeyCalc", "d-class" if kind.startswith("Q") else kind, M.pubkey_calc(db), gc, {"l": l, "privkey": hx(db)})
        ctx.digest(g[0], gc[0], gc[1] if gc[0] == 0 else b"")
        E.lib.release()
    E.finish()


# ----------------------------------------------------------------------------
# jobs
# ----------------------------------------------------------------------------

def hq_jobs():
    return [{"unit": "c02:unit_sign_hq", "params": {"l": l, "family": fam}} for l in LEVELS for fam in ("sign", "idsign")]


def jobs(tier, scale=1.0):
    """scale < 1: reduced replay workload (other configurations); the boundary grid of unit_sign, the H >= q
    classes, the tapes and the edge cases stay complete, the bulk (random cases, alteration slices) shrinks."""
    quick = tier == "quick"
    f = (1.0 if quick else 8.0) * scale
    full = scale >= 1
    js = []

    def cnt(x, lo=1):
        return max(lo, int(round(x * f)))

    for l, nch in ((128, 3), (192, 4), (256, 6)):
        nch = max(1, int(round(nch * (1 if quick else 2) * min(1.0, scale))))
        for c in range(nch):
            js.append({"unit": "c02:unit_sign", "params": {"l": l, "chunk": c, "nch": nch, "nrand": cnt(400.0 / nch, 2)}})
    js += hq_jobs()
    for l, nparts in ((128, 2), (192, 4), (256, 8)):
        if not full:
            # one base signature, one slice of its alteration list
            js.append({"unit": "c02:unit_verify_alt", "params": {"l": l, "base": 0, "part": 0, "nparts": int(round(nparts / scale))}})
            continue
        for b in range(1 if quick else 8):
            for part in range(nparts):
                js.append({"unit": "c02:unit_verify_alt", "params": {"l": l, "base": b, "part": part, "nparts": nparts}})
    # forgery scans (l = 128, the cheapest level): 16 x 6000 altered signatures in quick, 16 x 100000 in thorough
    for fn in ("bignIdExtract", "bignVerify"):
        for c in range(max(1, int(round((12 if fn == "bignIdExtract" else 4) * min(1.0, scale))))):
            js.append({"unit": "c02:unit_forgery_scan", "params": {"l": 128, "fn": fn, "chunk": c, "n": cnt(24000 if quick else 12500, 200)}})
    for l in LEVELS:
        js.append({"unit": "c02:unit_verify_edge", "params": {"l": l, "reps": cnt(1)}})
        for fn in ("KeypairGen", "Sign", "KeyWrap", "IdSign"):
            js.append({"unit": "c02:unit_tapes", "params": {"l": l, "fn": fn, "nrand": cnt(20 if fn == "KeypairGen" else 6)}})
        js.append({"unit": "c02:unit_dh", "params": {"l": l, "n": cnt(40, 16)}})
        nparts = {128: 1, 192: 2, 256: 3}[l]
        if not full:
            js.append({"unit": "c02:unit_keyt", "params": {"l": l, "part": 0, "nparts": int(round(4 * nparts / scale)), "rep": 0,
                                                          "full_header": False}})
        else:
            for rep in range(1 if quick else 6):
                for part in range(nparts):
                    js.append({"unit": "c02:unit_keyt", "params": {"l": l, "part": part, "nparts": nparts, "rep": rep,
                                                                  "full_header": rep == 0}})
        npi = {128: 1, 192: 1, 256: 2}[l]
        nb = 1 if not full else (4 if quick else 16)
        for b in range(nb):
            allbits = (not quick) and full and l == 128 and b < 4
            for part in range(4 if allbits else npi):
                js.append({"unit": "c02:unit_ibs", "params": {"l": l, "base": b, "part": part, "nparts": 4 if allbits else npi,
                                                             "bits": 10 ** 6 if allbits else (24 if quick or not full else 96)}})
        js.append({"unit": "c02:unit_val", "params": {"l": l, "n": cnt(6, 2)}})
    return js


def required_classes():
    req = []
    for l in LEVELS:
        req += ["%s/l%d/%s/%s" % (fn, l, d, H) for fn in ("Sign", "Sign2") for d in ("d=1", "d=2", "d=q-1", "d=rand")
                for H in ("H=0", "H=1", "H=q-1", "H=rand")]
        req += ["verify-alt/l%d/%s" % (l, k) for k in ("none", "bit:s0", "bit:s1", "bit:H", "bit:Qx", "bit:Qy", "bit:oid", "Q=(x,p-y)",
                                                       "Q.x=p", "Q-on-twist", "Q=(0,0)", "s1=q")]
        req += ["verify-edge/l%d/%s" % (l, k) for k in ("s1=0:valid", "s1=0:alias-s1+q", "s1=2^2l-1-q:alias-s1+q", "s1+H=q:valid",
                                                       "H=q:valid", "H=2^2l-1:valid", "H=q:alias-H-q", "H=0:alias-H+q", "R=O",
                                                       "d=1:alias-Q.x+p")]
        req += ["tape/KeypairGen/l%d/%s" % (l, k) for k in ("rej1:[q,p)", "rejR:zero", "rejR:[q,p)", "rejR-1:zero", "rej2:[p,2^2l)",
                                                           "allbadR+1:zero", "allbadR+1:[q,p)", "rejR+1-then-good:zero", "first-in-[q,p)",
                                                           "good=q-1", "good=1")]
        req += ["tape/%s/l%d/%s" % (fn, l, k) for fn in ("Sign", "KeyWrap", "IdSign") for k in ("rejR:[q,p)", "allbadR+1:zero", "first-in-[q,p)")]
        req += ["Sign/l%d/H=q" % l, "Sign2/l%d/H=2^2l-1" % l, "IdSign/l%d/H=q+1" % l, "IdSign2/l%d/H=rand>=q" % l,
                "Sign/l%d/crafted:H=q+max,a=0" % l, "Sign/l%d/crafted:H=q+max,a=H-q-1" % l, "IdSign/l%d/crafted:H=q+1,a=0" % l]
        req += ["keyt/l%d/unwrap/%s" % (l, k) for k in ("none", "hdr:bit", "token:bit@first", "token:bit@last", "token:x-without-sqrt",
                                                       "token:x=p", "token:truncated-1", "token:len=no+31")]
        req += ["keyt/l%d/wrap/len=16/hdr=rand" % l, "keyt/l%d/wrap/len=64/hdr=rand" % l]
        req += ["ibs/l%d/e=rand/H=rand/produce:extract" % l, "ibs/l%d/e=0/H=rand/produce:idsign" % l,
                "ibs/l%d/e=rand/H=rand/verify-alt/bit:id_sig" % l, "ibs/l%d/e=rand/H=rand/verify-alt/bit:id_pubkey" % l,
                "ibs/l%d/e=rand/H=rand/extract-alt/bit:sig" % l, "ibs/l%d/e=rand/H=rand/extract-alt/pubkey-on-twist" % l]
        req += ["val/l%d/pubkey:twist" % l, "val/l%d/pubkey:(0,0)" % l, "val/l%d/pubkey:x=p(G)" % l, "val/l%d/keypair:d=0" % l,
                "val/l%d/keypair:d=q" % l, "val/l%d/keypair:d=q+1" % l]
        req += ["dh/l%d/invalid:Q-on-twist" % l, "dh/l%d/invalid:keylen=2no+1" % l, "dh/l%d/d=1/d=q-1/keylen=2no" % l]
    return tuple(req)


def _weight(j):
    u, p = j["unit"], j["params"]
    w = {128: 1, 192: 2, 256: 4}[p["l"]]
    if "hq" in u:
        return 100 * w if j["cfg"].startswith("asan") else w
    if "verify_alt" in u:
        return 30 * w
    if "ibs" in u or "keyt" in u:
        return 12 * w
    return 5 * w


def main(run):
    quick = run.tier == "quick"
    # (the forgery scans are pure volume: Release build)
    js = [dict(j, cfg="rel64" if j["unit"].endswith("unit_forgery_scan") else "asan64") for j in jobs(run.tier)]
    # the H >= q classes again in the Release build: there no ASSERT stops the call and the value is compared
    js += [dict(j, cfg="rel64") for j in hq_jobs()]
    if not quick:
        js += [dict(j, cfg="asan32") for j in jobs("quick", 0.25)]
    js.sort(key=lambda j: -_weight(j))
    run.run_jobs(js)
    return run.finish(
        rule="case = one call of a public bign function on (level, keys, hash, OID DER, generator tape / t, alteration); "
             "boundary catalogue x random fill; every verifier/unwrapper/extractor case is decided by the model on the "
             "altered input; non-trivial = distinct (function, arguments)",
        assumptions=[
            "belt-hash, belt-wblock, belt-kwp inside the model are the library's own (tied to STB 34.101.31 by C01)",
            "curve tables are taken from bignParamsStd and checked (p = 2^2l - c, a = p - 3, p and q prime, G on curve, "
            "qG = O, Hasse interval)",
            "rejection sampling convention copied from zzRandNZMod: l/4 octets per candidate, little-endian, at most 65 candidates",
            "the model is anchored on the appendix vectors of bign_test.c (l = 128 only: the repository embeds none for "
            "l = 192, 256; there the claim is agreement of two independent implementations)",
            "accept/reject is compared, not the particular error code of a rejection (histogram in reject_code_pairs)",
            "forgeries that succeed with probability 2^-l are not searched for; the retry loop of alg. 6.3.3 is never taken",
        ],
        min_eval=3000, required_classes=required_classes())
