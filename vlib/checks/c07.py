"""C07 — no access outside buffers / declared keep / declared deep; no uninitialised influence; no ASSERT.

Decided by replaying the functional workloads of the other checks (their jobs() at a reduced scale; all of them
allocate every buffer, state and stack at exactly the documented size) under
  1. asan64 and asan32 (ASan + UBSan bounds/null, exact-size blobs, ASSERT live): a sanitizer report, an
     `Assertion in file::line` abort or a fatal signal inside bee2 is a violation;
  2. the two-fill differential: the same jobs run with the scratch / state / output fill pattern 0x00 and 0xA5
     (and 0xFF in thorough); the per-case transcript digests must be identical, otherwise never-written
     scratch memory influenced a result;
  3. (thorough) memcheck on the Release build for a sample of jobs with *unfilled* scratch memory
     (definedness errors and invalid accesses with a bee2 frame);
  4. (thorough) the gcov build for the list of public functions the workloads reached.
Functional violations raised by the replayed units belong to their own properties and are only tallied here.
"""
import importlib, os, re, subprocess, json
from .. import build
from ..core import Harness

LEVEL = "exploration"

MODULES = ["c01", "c02", "c03", "c04", "c05_zz", "c05_pp", "c06", "c08", "c10", "c11", "c12", "c13", "c16", "c17", "c09_args", "c07_misc"]
SANITIZER_PREFIXES = ("asan:", "ubsan:", "assert:", "signal:", "fill-diff:", "memcheck:")


from .replayset import collect as _collect


def main(run):
    global MODULES
    if os.environ.get("VERIF_C07_ONLY"):          # development aid: restrict the replayed modules
        MODULES = os.environ["VERIF_C07_ONLY"].split(",")
    q = run.tier == "quick"
    scale = 0.05 if q else 0.15
    every = {"c13": 8, "c16": 6, "c02": 5, "c17": 4, "c01": 3, "c05_zz": 3, "c05_pp": 2, "c06": 6, "c12": 4, "c08": 2, "c04": 2} if q else \
            {"c13": 4, "c16": 3, "c06": 3, "c02": 2, "c17": 2, "c12": 2}
    base, missing = _collect(MODULES, "quick", scale, every, run.seed)
    js = []
    for j in base:
        js.append(dict(j, cfg="asan64", fill=0xA5))
        js.append(dict(j, cfg="asan64", fill=0x00))
        js.append(dict(j, cfg="asan32", fill=0xA5))
        if not q:
            js.append(dict(j, cfg="asan64", fill=0xFF))
            js.append(dict(j, cfg="asan32", fill=0x00))
    # the blob layer once more on a build WITHOUT the exact-size hook (1 KiB pages): growth inside a page, page crossings
    try:
        bl = [j for j in importlib.import_module("vlib.checks.c07_misc").jobs("quick", 1.0 if not q else 0.3) if j["unit"].endswith("unit_blob")]
    except Exception:
        bl = []
    for j in bl:
        j = dict(j)
        j.pop("cfg", None)
        js.append(dict(j, cfg="rel64", fill=0xA5))
        js.append(dict(j, cfg="rel64", fill=0x00))
    if not q:
        # 3. memcheck on the Release build with unfilled scratch for a sample of the jobs
        sample = [j for i, j in enumerate(_collect(MODULES, "quick", 0.02, {"c13": 8, "c16": 6, "c02": 5, "c17": 4, "c06": 6,
                                                                            "c05_zz": 3, "c12": 4, "c08": 3, "c01": 3}, run.seed)[0])
                  if "tl_exhaust" not in j["unit"] and "window" not in j["unit"]]
        for j in sample:
            js.append(dict(j, cfg="rel64", fill=-1, memcheck=True, timeout=3000))
        run.coverage_extra["memcheck_sample_jobs"] = len(sample)
    run.coverage_extra["replayed_modules_missing"] = missing
    run.coverage_extra["replayed_jobs"] = len(base)
    run.run_jobs(js, timeout=3000)
    # memcheck flags every *read* of an undefined bit, also where the value provably cancels out (wwSetBit on a fresh word:
    # a ^= (f ^ a) & bit -- seen in ppMinPolyMod's sequence buffer).  Whether undefined memory *influences* a result is what
    # the fill differential decides: each job with a definedness report is re-run natively on the same build with four
    # fill patterns; without a digest difference the report is tallied as unconfirmed, with one it stands.
    mc = [k for k in run.viol if k.startswith("memcheck:Uninit")]
    if mc:
        seenj, confirm = set(), []
        for k in mc:
            j = dict(run.viol[k]["info"].get("job") or {})
            jk = json.dumps([j.get("unit"), j.get("params")], sort_keys=True)
            if not j or jk in seenj:
                continue
            seenj.add(jk)
            for fill in (0x00, 0xFF, 0x5C, 0xA5):
                confirm.append({"cfg": "rel64", "unit": j["unit"], "params": j.get("params") or {}, "fill": fill, "timeout": 3000})
        run.run_jobs(confirm, timeout=3000)
    compared = run.compare_digests("fill-diff", "scratch fill pattern influences the results", ref="asan64", same_cfg=True)
    unconfirmed = {}
    for k in mc:
        unit = (run.viol[k]["info"].get("job") or {}).get("unit", "?")
        if not any(d.startswith("fill-diff:%s:" % unit) and "rel64" in d for d in run.viol):
            unconfirmed[k] = run.viol.pop(k)["count"]
    run.coverage_extra["memcheck_definedness_reports_not_confirmed_by_fill_differential"] = unconfirmed
    run.coverage_extra["two_fill_cases_compared"] = compared
    # keep only what C07 states
    tallied = {}
    for key in list(run.viol):
        unit = ((run.viol[key].get("info") or {}).get("job") or {}).get("unit", "")
        if not key.startswith(SANITIZER_PREFIXES) and not unit.startswith("c07_misc:"):
            # (value keys of c07_misc stay: those functions belong to no other property's workload, and what its oracles
            # judge -- stale or undefined octets in a grown blob, pointers of a copied object -- is C07's matter)
            tallied[key] = run.viol.pop(key)["count"]
    run.coverage_extra["functional_violation_keys_tallied_only"] = sorted(tallied)[:50]
    # which public entry points did the workloads drive directly (the others are reached only indirectly or not at all)
    try:
        from .. import proto
        allp = set(proto.parse_headers())
        called = set(run.extra.get("functions_called", []))
        run.coverage_extra["public_functions_total"] = len(allp)
        run.coverage_extra["public_functions_called_directly"] = len(called & allp)
        run.coverage_extra["public_functions_not_called_directly"] = sorted(allp - called)
    except Exception as e:
        run.coverage_extra["public_functions_error"] = str(e)
    if compared == 0 and not run.harness_errors:
        run.harness_fail("two-fill differential compared no case")
    return run.finish(
        rule="cases = the functional cases of C01-C06, C08, C09(args), C10-C13, C16, C17 replayed at scale %.2f under asan64 (two or three fill "
             "patterns) and asan32; distinct = distinct case descriptions; every case hands bee2 only exact-size heap blocks" % scale,
        assumptions=["ASan cannot see an overrun from one field of a state/stack block into its neighbour inside the same allocation",
                     "UBSan kinds other than bounds/null (alignment, shift, signed overflow) are outside the property",
                     "functions no workload reaches are not claimed",
                     "generator interfaces whose output buffer is also additional input (brngCTRStepR, rngStepR, rngStepR2) get an "
                     "initialised buffer; their random output is not digested",
                     "MemorySanitizer is not applicable to the ctypes driver (uninstrumented interpreter); definedness is decided by the "
                     "two-fill differential (and memcheck in thorough)"])
