"""temporary driver for c09_args (to be deleted)"""
import os
from . import c09_args as A

LEVEL = "exploration"


def main(run):
    js = [dict(j, cfg=os.environ.get("C09A_CFG", "asan64")) for j in A.jobs(run.tier)]
    only = os.environ.get("C09A_ONLY")
    if only:
        js = [j for j in js if j["params"]["group"] in only.split(",")]
    run.run_jobs(js)
    return run.finish(rule=A.RULE, assumptions=A.ASSUMPTIONS, required_classes=())
