"""Job sets of the functional checks as replayed by C07 (sanitizers, two-fill) and C19 (configurations)."""
import importlib


def collect(modules, tier, scale, every=None, seed=1, skip=("selftest", "fmt_table")):
    """jobs() of each module at the given scale; for heavy modules keep every k-th job (rotated by the seed so that
    different VERIF_SEED values replay different slices)."""
    every = every or {}
    out, missing = [], []
    for m in modules:
        try:
            mod = importlib.import_module("vlib.checks." + m)
            js = mod.jobs(tier, scale)
        except Exception as e:
            missing.append("%s (%s: %s)" % (m, type(e).__name__, e))
            continue
        js = [j for j in js if not any(s in j["unit"] for s in skip)]
        k = every.get(m, 1)
        if k > 1:
            # jobs marked "always" (small units aimed at one boundary) are kept whatever the thinning
            js = [j for i, j in enumerate(js) if (i + seed) % k == 0 or j.get("always")]
        for j in js:
            j = dict(j)
            j.pop("cfg", None)
            out.append(j)
    return out, missing
