"""C19 — all build configurations compute the same function.

N-way differential: the deterministic case streams of the octet-level checks (C01 belt, C02 bign, C03 bash/brng/botp,
C04 bake, C13 bels, C16 bign96/g12s/dstu/pfok, C17 token layer, C10 incremental APIs) are executed by workers built in
each configuration; the per-case transcript digests (return codes and output octets) are compared case by case against
the reference configuration rel64.  Additionally a functional violation key raised by a unit's own oracle in some
configuration but not in the reference configuration is a configuration-specific deviation.
Configurations: word size {64, 32}, SAFE vs SAFE_FAST, NDEBUG on/off, -O0..-O3, gcc vs clang, and the bash-f platform
variants the CPU supports (bash units only)."""
import importlib
from .. import build

LEVEL = "exploration"

MODULES = ["c01", "c02", "c03", "c04", "c13", "c16", "c17", "c10"]
# word-level layers (the quantifier names the input distributions of C05, C06 too; C12 for the word-size specific number
# theory): their transcripts legitimately depend on the word size, so digests are compared among configurations of the same
# word size only; their own value oracles decide in every configuration
WORD_MODULES = ["c05_zz", "c05_pp", "c06", "c12"]
W32 = ("rel32", "dbg32", "asan32")
BASH_CFGS = ["bash32", "sse2", "avx2", "avx512"]
SAN = ("asan:", "ubsan:", "assert:", "signal:")


from .replayset import collect as _collect


def main(run):
    q = run.tier == "quick"
    scale = 0.04 if q else 0.3
    every = {"c13": 8, "c16": 6, "c02": 5, "c17": 3, "c01": 2} if q else {"c13": 2, "c16": 2}
    base, missing = _collect(MODULES, "quick", scale, every, run.seed)
    wbase, wmissing = _collect(WORD_MODULES, "quick", 0.03 if q else 0.15,
                               {"c05_zz": 3, "c05_pp": 2, "c06": 8, "c12": 3} if q else {"c06": 3, "c12": 2}, run.seed)
    wbase = [j for j in wbase if not any(x in j["unit"] for x in ("unit_stb99", "unit_pfok", "unit_gen", "unit_dates"))]
    # always: the windows around the thresholds where priIsPrimeW switches its base sets (the switch points are word-size specific)
    import importlib
    thr = [dict(j) for j in importlib.import_module("vlib.checks.c12").jobs("quick", 1.0)
           if j["unit"] == "c12:unit_primes_window" and j["params"]["hi"] - j["params"]["lo"] == 4096]
    for j in thr:
        j.pop("cfg", None)
    wbase = [j for j in wbase if j not in thr] + thr
    missing += wmissing
    cfgs = ["rel64", "rel32", "fast64", "dbg64"] if q else \
           ["rel64", "rel32", "fast64", "dbg64", "dbg32", "o1", "o2", "clangrel", "asan64"]
    js = []
    for c in cfgs:
        js += [dict(j, cfg=c) for j in base]
        if c != "asan64":
            js += [dict(j, cfg=c) for j in wbase]
    plat = {}
    bash_units = [j for j in base if j["unit"].startswith("c03:") and ("bash" in j["unit"] or "hash" in j["unit"] or "prg" in j["unit"])]
    bash_units += [j for j in base if j["unit"].startswith("c10:") and ("bash" in str(j["params"]) or "prg" in str(j["params"]))]
    for c in BASH_CFGS:
        ok = build.config_available(c)
        plat[c] = "run" if ok else "skipped: CPU lacks the extension"
        if ok and (not q or c in ("bash32", "sse2", "avx2")):
            js += [dict(j, cfg=c) for j in bash_units]
        elif ok:
            plat[c] = "thorough only"
    # the text codecs (hex / base64 / decimal): octet-string functions with SAFE/FAST editions of their own
    try:
        tb = [dict(j) for j in importlib.import_module("vlib.checks.c08").jobs("quick", scale) if "unit_text" in j["unit"]]
    except Exception as e:
        tb, missing = [], missing + ["c08 (%s)" % e]
    for j in tb:
        j.pop("cfg", None)
    js += [dict(j, cfg=c) for c in cfgs if c != "asan64" for j in tb]
    run.coverage_extra["configurations"] = cfgs
    run.coverage_extra["bash_platform_variants"] = plat
    run.coverage_extra["modules_missing"] = missing
    run.coverage_extra["jobs_per_configuration"] = len(base)
    run.run_jobs(js, timeout=3400)
    # 1. digests against the reference configuration (first variant listed is rel64 because jobs were added in that order)
    wunits = {j["unit"] for j in wbase}
    compared = run.compare_digests("config-diff", "configurations disagree on return codes / output octets", ref="rel64",
                                   group=lambda cfg, unit: ("w32" if cfg in W32 else "w64") if unit in wunits else "all")
    run.coverage_extra["word_level_jobs_per_configuration"] = len(wbase)
    run.coverage_extra["cases_compared_across_configurations"] = compared
    # 2. sanitizer/assert crashes in a configuration are C07's business; functional keys are C19's only if config-specific
    tallied = {}
    for key in list(run.viol):
        if key.startswith("config-diff"):
            continue
        v = run.viol[key]
        cfg = (v["info"].get("job") or {}).get("cfg")
        if key.startswith("assert:") or (key.startswith("signal:") and cfg not in (None, "rel64")):
            # the reference configuration (NDEBUG) computed a result for this case, this configuration aborted instead:
            # a configuration-specific deviation (C07 reports the same abort from its own runs)
            del run.viol[key]
            v["what"] = "a configuration aborts (%s) on a case the reference configuration computes: %s" % (cfg, v.get("what", ""))
            v["key"] = "config-diff:abort:" + key
            run.viol[v["key"]] = v
            continue
        if key.startswith(SAN):
            tallied[key] = v["count"]
            del run.viol[key]
            continue
        # a unit's own value oracle: if the reference configuration raises the same key it is that property's matter;
        # if only other configurations do, the function computed there is not the one computed by the reference build
        del run.viol[key]
        cfgs = v.get("cfgs") or []
        if cfgs and "rel64" not in cfgs:
            v["what"] = "only in configuration(s) %s: %s" % (",".join(sorted(cfgs)), v.get("what", ""))
            v["key"] = "config-diff:oracle:%s:%s" % ("+".join(sorted(cfgs)), key)
            run.viol[v["key"]] = v
        else:
            tallied[key] = v["count"]
    run.coverage_extra["keys_tallied_for_other_properties"] = sorted(tallied)[:40]
    if compared == 0 and not run.harness_errors:
        run.harness_fail("no case was compared across configurations")
    return run.finish(
        rule="case = one functional case of the octet-level checks at scale %.2f, executed in every configuration; non-trivial = distinct case "
             "descriptions; the comparison is on per-case digests of return codes and output octets" % scale,
        assumptions=["big-endian, B_PER_W = 16 and NEON builds cannot be produced/run on this x86-64 image",
                     "the 32-bit word configuration is obtained with the guarded hook BEE2_VERIF_W32 on the 64-bit ABI",
                     "a case on which an assertion-enabled configuration aborts while the reference configuration computes a result is a deviation of that configuration (also reported by C07); sanitizer reports of the asan64 configuration are C07's matter",
                     "value-level violations of a unit's own oracle are reported by that unit's property, here only digests decide"])
