"""Runner: fans units of work out to worker processes (one library
configuration each, sanitizer runtime preloaded where needed), captures
crashes as events, routes every violation through known-findings matching,
writes replays and the evidence file.
"""
import hashlib, importlib, json, mmap, os, random, re, shutil, struct, subprocess, sys, time, traceback
from collections import Counter

from . import build

VERIF = build.VERIF
OUT = os.path.join(VERIF, "out")
NPROC = int(os.environ.get("VERIF_JOBS", "16"))
MARK_SIZE = 1 << 16


def seed_from_env():
    try:
        return int(os.environ.get("VERIF_SEED", "1"))
    except ValueError:
        return 1


# ----------------------------------------------------------------------------
# worker side
# ----------------------------------------------------------------------------

class Harness(Exception):
    """Harness failure (exit 2), never a violation."""


class Ctx:
    """Handed to a unit function inside a worker."""

    def __init__(self, job, marker_path, out_path):
        self.job = job
        self.params = job.get("params", {})
        self.cfg = job["cfg"]
        self.seed = job["seed"]
        self.tier = job["tier"]
        self.resume_after = job.get("resume_after", -1)
        self.stop_after = job.get("stop_after")
        self.idx = -1
        self.n_eval = 0
        self.classes = Counter()
        self.hashes = set()
        self.samples = []
        self.extra = {}
        self._out = open(out_path, "a")
        self._mf = open(marker_path, "r+b")
        self._mm = mmap.mmap(self._mf.fileno(), MARK_SIZE)
        self.lib = None
        self._dg = None
        self._dgf = open(out_path + ".digests", "a")
        self.max_samples = 3
        self.rng = random.Random("%s/%s/%s" % (job["seed"], job["unit"], json.dumps(job.get("params", {}), sort_keys=True)))

    def emit(self, obj):
        self._out.write(json.dumps(obj) + "\n")
        self._out.flush()

    def case(self, desc, cls=None, nontrivial=True):
        """Announce the next case. Returns False if the case must be skipped
        (resuming after a crash / replaying a single case)."""
        self._flush_digest()
        self.idx += 1
        if self.idx <= self.resume_after:
            return False
        if self.stop_after is not None and self.idx > self.stop_after:
            raise StopIteration
        s = json.dumps([self.idx, desc], default=_jd)
        b = s.encode()
        if len(b) > MARK_SIZE - 8:
            b = json.dumps([self.idx, "<large>"]).encode()
        self._mm[0:4] = struct.pack("<I", len(b))
        self._mm[4:4 + len(b)] = b
        self.n_eval += 1
        if cls is not None:
            self.classes[cls] += 1
        self._lasth = None
        if nontrivial:
            self._lasth = hash(s[s.index(",") + 1:]) & 0xFFFFFFFFFFFFFFFF
            self.hashes.add(self._lasth)
        if len(self.samples) < self.max_samples:
            self.samples.append(_short(desc))
        self._desc = desc
        return True

    def mark_trivial(self):
        """the case just announced turned out to be trivial by the check's rule: do not count it as distinct non-trivial"""
        if getattr(self, "_lasth", None) is not None:
            self.hashes.discard(self._lasth)
            self._lasth = None

    def digest(self, *vals):
        """Fold the observable results of the current case (outputs, return codes) into its
        transcript digest; C07 (two-fill) and C19 (configurations) compare digests case by case."""
        if self._dg is None:
            self._dg = hashlib.blake2b(digest_size=8)
        for v in vals:
            if isinstance(v, (bytes, bytearray)):
                self._dg.update(b"b%d:" % len(v) + bytes(v))
            else:
                self._dg.update(("s:" + repr(v)).encode())

    def _flush_digest(self):
        if self._dg is not None:
            self._dgf.write("%d %s\n" % (self.idx, self._dg.hexdigest()))
            self._dg = None

    def count(self, n, cls=None, distinct=None):
        """Account for n cases executed in bulk by a C harness."""
        self.n_eval += n
        if cls is not None:
            self.classes[cls] += n
        if distinct:
            self.extra["bulk_distinct"] = self.extra.get("bulk_distinct", 0) + distinct

    def violation(self, key, what, detail=None, replay=None):
        """replay: optional {"unit":..., "params":...} that re-executes exactly this case on its own"""
        self.emit({"t": "viol", "key": key, "what": what, "detail": _short(detail, 4000),
                   "idx": self.idx, "case": _short(getattr(self, "_desc", None), 20000), "replay": replay})

    def note(self, k, v):
        self.extra[k] = v

    def finish(self):
        self._flush_digest()
        if self.lib is not None:
            try:
                self.extra["functions_called"] = sorted(self.lib._fn)
            except Exception:
                pass
        self._dgf.close()
        hp = self._out.name + ".hashes"
        with open(hp, "w") as f:
            for h in self.hashes:
                f.write("%016x\n" % h)
        self.emit({"t": "done", "evaluations": self.n_eval, "classes": dict(self.classes),
                   "samples": self.samples, "extra": self.extra, "hashes": hp, "nhash": len(self.hashes),
                   "digests": self._dgf.name})


def _jd(o):
    if isinstance(o, (bytes, bytearray)):
        return o.hex()
    if isinstance(o, set):
        return sorted(o)
    return repr(o)


def _short(o, lim=600):
    try:
        s = json.dumps(o, default=_jd)
    except Exception:
        s = repr(o)
    if len(s) > lim:
        return s[:lim] + "...(%d chars)" % len(s)
    return json.loads(s)


def worker_main(argv):
    job = json.loads(argv[0])
    marker, outp = argv[1], argv[2]
    modname, fname = job["unit"].split(":")
    ctx = Ctx(job, marker, outp)
    try:
        mod = importlib.import_module("vlib.checks." + modname)
        fn = getattr(mod, fname)
        if job["cfg"] != "none" and not job.get("nolib"):
            from . import bee2
            ctx.lib = bee2.Lib(job["cfg"], job.get("libdir"))
            ctx.lib.fill = job.get("fill", 0xA5)
        try:
            fn(ctx)
        except StopIteration:
            pass
        ctx.finish()
    except Harness as e:
        ctx.emit({"t": "harness", "msg": str(e)})
        sys.exit(2)
    except Exception:
        ctx.emit({"t": "harness", "msg": traceback.format_exc()})
        sys.exit(2)
    sys.stdout.flush()
    os._exit(0)


# ----------------------------------------------------------------------------
# parent side
# ----------------------------------------------------------------------------

ASAN_LIB = None


def asan_preload():
    global ASAN_LIB
    if ASAN_LIB is None:
        ASAN_LIB = subprocess.run(["gcc", "-print-file-name=libasan.so"], capture_output=True, text=True).stdout.strip()
        ubsan = subprocess.run(["gcc", "-print-file-name=libubsan.so"], capture_output=True, text=True).stdout.strip()
        ASAN_LIB = ASAN_LIB + ":" + ubsan
    return ASAN_LIB


def worker_env(cfg):
    env = dict(os.environ)
    env["PYTHONPATH"] = VERIF
    env["PYTHONHASHSEED"] = "0"
    if cfg.startswith("asan"):
        env["LD_PRELOAD"] = asan_preload()
        env["ASAN_OPTIONS"] = "detect_leaks=0:abort_on_error=0:halt_on_error=1:allocator_may_return_null=1:" \
                              "malloc_context_size=5:quarantine_size_mb=16:detect_stack_use_after_return=0:" \
                              "handle_abort=1:symbolize=1:exitcode=66"
        env["UBSAN_OPTIONS"] = "print_stacktrace=1:halt_on_error=1:exitcode=67"
    return env


_FRAME = re.compile(r"#\d+ 0x[0-9a-f]+ in (\w+) (/\S+?):(\d+)")


def classify_crash(stderr, rc):
    """Stable key for a dead worker: kind + innermost bee2 function + outermost bee2 function."""
    kind = None
    m = re.search(r"ERROR: AddressSanitizer: ([\w-]+)", stderr)
    if m:
        kind = "asan:" + m.group(1)
    m2 = re.search(r"runtime error: ([^\n]*)", stderr)
    if kind is None and m2:
        msg = m2.group(1)
        msg = re.sub(r"0x[0-9a-f]+", "ADDR", msg)
        msg = re.sub(r"\d+", "N", msg)
        kind = "ubsan:" + msg[:60].strip().replace(" ", "_")
    m3 = re.search(r"Assertion in (\S+?)::(\d+)", stderr)
    if m3:
        f = os.path.basename(m3.group(1))
        kind = "assert:%s" % f
    if kind is None:
        if rc < 0:
            kind = "signal:%d" % (-rc)
        else:
            kind = "exit:%d" % rc
    frames = [(fn, path) for fn, path, _ in _FRAME.findall(stderr) if "/src/" in path and "libsanitizer" not in path]
    # first stack only
    first = []
    for line in stderr.splitlines():
        mm = _FRAME.search(line)
        if mm:
            if "/src/" in mm.group(2) and "libsanitizer" not in mm.group(2):
                first.append(mm.group(1))
        elif first and line.strip() == "":
            break
    inner = first[0] if first else "?"
    outer = first[-1] if first else "?"
    if m3:
        return "%s:%s:%s" % (kind, m3.group(2), outer), kind
    return "%s:%s:%s" % (kind, inner, outer), kind


class Findings:
    def __init__(self):
        p = os.path.join(VERIF, "known_findings.json")
        self.entries = json.load(open(p)) if os.path.exists(p) else []

    def match(self, prop, key):
        for e in self.entries:
            if e.get("status") == "known" and e["property"] == prop and _keymatch(e["key"], key):
                return e
        return None


def _keymatch(pat, key):
    if pat == key:
        return True
    if pat.endswith("*") and key.startswith(pat[:-1]):
        return True
    return False


class Run:
    """One invocation of a check."""

    def __init__(self, prop, tier, seed, level="exploration"):
        self.prop, self.tier, self.seed, self.level = prop, tier, seed, level
        self.t0 = time.time()
        self.viol = {}          # key -> dict(first occurrence) + count
        self.evaluations = 0
        self.classes = Counter()
        self.samples = []
        self.extra = {}
        self.hash_files = []
        self.digest_files = {}
        self.bulk_distinct = 0
        self.harness_errors = []
        self.unit_stats = {}
        self.work = os.path.join(OUT, "work", "%s-%d" % (prop, os.getpid()))
        shutil.rmtree(self.work, ignore_errors=True)
        os.makedirs(self.work)
        self.findings = Findings()
        self.assumptions = []
        self.coverage_extra = {}

    # -- executing jobs -----------------------------------------------------
    def run_jobs(self, jobs, timeout=3600, max_restarts=25):
        """jobs: list of dict(cfg, unit, params).  Runs up to NPROC at once."""
        cfgs = sorted({j["cfg"] for j in jobs if j["cfg"] != "none"})
        libdirs = {}
        for c in cfgs:
            try:
                libdirs[c] = build.build(c)
            except Exception as e:
                self.harness_errors.append("build %s: %s" % (c, e))
                return
        pending = []
        seq0 = getattr(self, "_jobseq", 0)          # numbering continues over several run_jobs calls of one run (file names)
        self._jobseq = seq0 + len(jobs)
        for n, j in enumerate(jobs, seq0):
            j = dict(j)
            j.setdefault("params", {})
            j["seed"], j["tier"], j["n"] = self.seed, self.tier, n
            if j["cfg"] != "none":
                j["libdir"] = libdirs[j["cfg"]]
            j["restarts"] = 0
            pending.append(j)
        running = []
        deadline = time.time() + timeout
        while pending or running:
            while pending and len(running) < NPROC:
                j = pending.pop(0)
                running.append(self._spawn(j))
            time.sleep(0.02)
            still = []
            for r in running:
                rc = r["proc"].poll()
                if rc is None:
                    if time.time() > r["t0"] + r["job"].get("timeout", timeout):
                        r["proc"].kill()
                        r["proc"].wait()
                        r["timed_out"] = True
                        nj = self._reap(r, -9)
                        if nj:
                            pending.insert(0, nj)
                    else:
                        still.append(r)
                    continue
                nj = self._reap(r, rc, max_restarts)
                if nj:
                    pending.insert(0, nj)
            running = still

    def _spawn(self, job):
        base = os.path.join(self.work, "j%d_%d" % (job["n"], job["restarts"]))
        marker, outp, errp = base + ".mark", base + ".jsonl", base + ".err"
        with open(marker, "wb") as f:
            f.write(b"\0" * MARK_SIZE)
        open(outp, "w").close()
        jj = {k: v for k, v in job.items() if k not in ("restarts",)}
        with open(base + ".job", "w") as f:
            json.dump(jj, f, default=str)
        errf = open(errp, "w")
        env = worker_env(job["cfg"])
        for k, v in (job.get("env") or {}).items():
            env[k] = (v + ":" + env[k]) if (k == "LD_PRELOAD" and env.get(k)) else v
        cmd = [sys.executable, "-m", "vlib.core", "--worker", json.dumps(jj), marker, outp]
        if job.get("memcheck"):
            # the whole worker under valgrind memcheck; only errors with a libbee2 frame are counted afterwards
            env["PYTHONMALLOC"] = "malloc"
            cmd = ["valgrind", "--tool=memcheck", "--error-limit=no", "-q", "--num-callers=14", "--leak-check=no",
                   "--xml=yes", "--xml-file=" + base + ".vg.xml"] + cmd
        proc = subprocess.Popen(cmd, cwd=VERIF, env=env, stdout=errf, stderr=errf)
        errf.close()
        return {"proc": proc, "job": job, "marker": marker, "out": outp, "err": errp, "t0": time.time(),
                "vgxml": base + ".vg.xml" if job.get("memcheck") else None}

    def _memcheck_errors(self, r):
        job = r["job"]
        try:
            x = open(r["vgxml"], errors="replace").read()
        except OSError:
            return
        n = 0
        for e in re.findall(r"<error>(.*?)</error>", x, re.S):
            kind = re.search(r"<kind>(.*?)</kind>", e).group(1)
            first = e.split("</stack>")[0]
            frames = re.findall(r"<frame>(.*?)</frame>", first, re.S)
            if kind.startswith("Leak_"):
                continue            # allocation sites of the interpreter reached through a callback (generator, read/write) are not bee2's
            bee = []
            first_own = None        # object of the innermost frame that is not the C library / a valgrind replacement
            for f in frames:
                obj = re.search(r"<obj>(.*?)</obj>", f)
                fn = re.search(r"<fn>(.*?)</fn>", f)
                o = obj.group(1) if obj else ""
                if first_own is None and not ("vgpreload_" in o or "/libc.so" in o or "/libc-" in o or "ld-linux" in o):
                    first_own = o
                if "libbee2" in o:
                    bee.append(fn.group(1) if fn else "?")
            if not bee or "libbee2" not in (first_own or ""):
                continue            # the access happened in the driver (e.g. inside a Python callback called by bee2)
            n += 1
            self.add_violation("memcheck:%s:%s:%s" % (kind, bee[0], bee[-1]),
                               "valgrind memcheck: %s inside bee2 (%s <- %s)" % (kind, bee[0], bee[-1]),
                               {"job": _jobkey(job), "idx": -1, "case": None, "detail": {"stack": bee[:8]}})
        self.extra["memcheck_errors_with_bee2_frame"] = self.extra.get("memcheck_errors_with_bee2_frame", 0) + n
        self.extra["memcheck_jobs"] = self.extra.get("memcheck_jobs", 0) + 1

    def _reap(self, r, rc, max_restarts=25):
        job = r["job"]
        done = False
        if r.get("vgxml"):
            self._memcheck_errors(r)
        for line in open(r["out"]):
            try:
                o = json.loads(line)
            except ValueError:
                continue
            if o["t"] == "viol":
                info = {"job": _jobkey(job), "idx": o["idx"], "case": o["case"], "detail": o.get("detail")}
                if o.get("replay"):
                    rj = dict(_jobkey(job))
                    rj.update(o["replay"])
                    info["replay_job"] = rj
                self.add_violation(o["key"], o["what"], info)
            elif o["t"] == "done":
                done = True
                self.evaluations += o["evaluations"]
                self.classes.update(o["classes"])
                us = self.unit_stats.setdefault(job["unit"] + "@" + job["cfg"], {"evaluations": 0, "jobs": 0, "cpu_wall_s": 0.0})
                us["evaluations"] += o["evaluations"]
                us["jobs"] += 1
                us["cpu_wall_s"] = round(us["cpu_wall_s"] + time.time() - r["t0"], 1)
                if len(self.samples) < 12:
                    for s in o["samples"][:2]:
                        self.samples.append({"unit": job["unit"], "cfg": job["cfg"], "case": s})
                self.hash_files.append(o["hashes"])
                self.digest_files.setdefault((job["unit"], json.dumps(job.get("params", {}), sort_keys=True)), []).append(
                    (job["cfg"], job.get("fill", 0xA5), o.get("digests"), job))
                for k, v in o["extra"].items():
                    if k == "bulk_distinct":
                        self.bulk_distinct += v
                    elif isinstance(v, (int, float)) and not isinstance(v, bool):
                        self.extra[k] = self.extra.get(k, 0) + v
                    elif isinstance(v, list):
                        self.extra.setdefault(k, [])
                        for x in v:
                            if x not in self.extra[k] and len(self.extra[k]) < 5000:
                                self.extra[k].append(x)
                    elif isinstance(v, dict):
                        d = self.extra.setdefault(k, {})
                        for kk, vv in v.items():
                            if isinstance(vv, (int, float)) and not isinstance(vv, bool):
                                d[kk] = d.get(kk, 0) + vv
                            else:
                                d[kk] = vv
                    else:
                        self.extra[k] = v
            elif o["t"] == "harness":
                self.harness_errors.append("%s: %s" % (job["unit"], o["msg"]))
        if done:
            return None
        if rc == 2 and self.harness_errors:
            return None
        # crashed worker: partial stats lost for that segment except violations; find the case
        stderr = open(r["err"], errors="replace").read()
        with open(r["marker"], "rb") as f:
            raw = f.read(MARK_SIZE)
        ln = struct.unpack("<I", raw[:4])[0]
        idx, desc = -1, None
        if 0 < ln < MARK_SIZE:
            try:
                idx, desc = json.loads(raw[4:4 + ln].decode())
            except ValueError:
                pass
        if r.get("timed_out"):
            key = "hang:%s" % job["unit"]
            what = "worker exceeded its wall-clock budget"
            self.harness_errors.append("timeout in %s at case %s (inconclusive)" % (job["unit"], idx))
            return None
        if idx < 0:
            self.harness_errors.append("worker for %s died before its first case (rc=%s): %s" % (job["unit"], rc, stderr[-1500:]))
            return None
        key, kind = classify_crash(stderr, rc)
        if kind.startswith("exit:") or ("Traceback" in stderr and not kind.startswith(("asan", "ubsan", "assert"))):
            self.harness_errors.append("worker for %s failed (rc=%s): %s" % (job["unit"], rc, stderr[-1500:]))
            return None
        self.add_violation(key, "library crashed / sanitizer report: " + kind,
                           {"job": _jobkey(job), "idx": idx, "case": desc, "stderr": stderr[-6000:]})
        # account for the cases before the crash
        self.evaluations += max(0, idx - job.get("resume_after", -1))
        if job["restarts"] >= max_restarts:
            self.harness_errors.append("too many crashes in %s; remaining cases not run" % job["unit"])
            return None
        if job.get("stop_after") is not None and idx >= job["stop_after"]:
            return None
        nj = dict(job)
        nj["resume_after"] = idx
        nj["restarts"] = job["restarts"] + 1
        return nj

    def compare_digests(self, keyprefix, what, ref=None, same_cfg=False, group=None):
        """For every (unit, params) executed under several (cfg, fill) variants compare the per-case
        transcript digests; a difference is a violation keyed by unit and the pair of variants.
        group(cfg, unit) -> label: only variants with the same label are compared (first of each group is the base)."""
        compared = 0
        for (unit, pj), variants in sorted(self.digest_files.items()):
            if len(variants) < 2:
                continue
            tables = []
            for cfg, fill, path, job in variants:
                d = {}
                if path and os.path.exists(path):
                    for line in open(path):
                        a, b = line.split()
                        d[int(a)] = b
                tables.append((cfg, fill, d, job))
            tables.sort(key=lambda t: (0 if (ref and t[0] == ref) else 1, t[0], t[1]))
            pairs = []
            if same_cfg:
                bycfg = {}
                for t in tables:
                    bycfg.setdefault(t[0], []).append(t)
                for ts in bycfg.values():
                    pairs += [(ts[0], o) for o in ts[1:]]
            elif group:
                byg = {}
                for t in tables:
                    byg.setdefault(group(t[0], unit), []).append(t)
                for ts in byg.values():
                    pairs += [(ts[0], o) for o in ts[1:]]
            else:
                pairs = [(tables[0], o) for o in tables[1:]]
            for base, other in pairs:
                common = set(base[2]) & set(other[2])
                compared += len(common)
                bad = sorted(i for i in common if base[2][i] != other[2][i])
                if bad:
                    va = "%s/fill%02x" % (base[0], base[1])
                    vb = "%s/fill%02x" % (other[0], other[1])
                    job = dict(_jobkey(other[3]))
                    self.add_violation("%s:%s:%s-vs-%s" % (keyprefix, unit, vb, va),
                                       "%s: %d case(s) differ between %s and %s (first idx %d)" % (what, len(bad), va, vb, bad[0]),
                                       {"job": job, "idx": bad[0], "case": None, "detail": {"differing_idx": bad[:20]},
                                        "digest_pair": [_jobkey(base[3]), _jobkey(other[3])]})
        return compared

    # -- verdicts -----------------------------------------------------------
    def add_violation(self, key, what, info):
        v = self.viol.get(key)
        if v is None:
            v = self.viol[key] = {"key": key, "what": what, "info": info, "count": 1, "cfgs": []}
        else:
            v["count"] += 1
        cfg = ((info or {}).get("job") or {}).get("cfg") if isinstance(info, dict) else None
        if cfg and cfg not in v["cfgs"]:
            v["cfgs"].append(cfg)            # configurations in which this key was raised (C19)

    def harness_fail(self, msg):
        self.harness_errors.append(msg)

    def distinct(self):
        files = [f for f in self.hash_files if os.path.exists(f)]
        n = 0
        if files:
            lst = os.path.join(self.work, "hashfiles.lst")
            with open(lst, "wb") as f:
                f.write(b"\0".join(x.encode() for x in files))
            p = subprocess.run("sort -u --files0-from=%s | wc -l" % lst, shell=True, capture_output=True, text=True)
            n = int(p.stdout.strip() or 0)
        return n + self.bulk_distinct

    def finish(self, rule, assumptions=None, min_eval=1, exhaustive=None, required_classes=()):
        wall = time.time() - self.t0
        distinct = self.distinct()
        new, known = [], []
        for key, v in sorted(self.viol.items()):
            e = self.findings.match(self.prop, key)
            (known if e else new).append((v, e))
        rdir = os.path.join(OUT, "replays", self.prop)
        os.makedirs(rdir, exist_ok=True)
        for v, e in known:
            print("KNOWN-FINDING: property=%s %s [%s] (x%d)" % (self.prop, e["what"], v["key"], v["count"]))
        for v, _ in new:
            h = hashlib.sha256(v["key"].encode()).hexdigest()[:16]
            path = os.path.join(rdir, h + ".json")
            with open(path, "w") as f:
                json.dump({"property": self.prop, "key": v["key"], "what": v["what"], "seed": self.seed,
                           "tier": self.tier, "info": v["info"], "count": v["count"]}, f, indent=1, default=_jd)
            v["replay"] = path
        for v, _ in new[:20]:
            print("VIOLATION property=%s replay=%s" % (self.prop, v["replay"]))
            print("  key=%s count=%d: %s" % (v["key"], v["count"], v["what"]))
        missing = [c for c in required_classes if self.classes.get(c, 0) == 0]
        if missing:
            self.harness_errors.append("promised case classes never produced: %s" % missing)
        cov = {
            "evaluations": int(self.evaluations),
            "distinct_nontrivial": int(distinct),
            "rule": rule,
            "samples": self.samples[:12] or ["<none>"],
            "classes": dict(sorted(self.classes.items())),
            "units": self.unit_stats,
            "violation_keys": [v["key"] for v, _ in new],
            "known_finding_keys": [v["key"] for v, _ in known],
            "harness_errors": self.harness_errors[:10],
        }
        if exhaustive is not None:
            cov["exhaustive"] = bool(exhaustive)
        cov.update(self.extra)
        cov.update(self.coverage_extra)
        if "exhaustive" in cov and not isinstance(cov["exhaustive"], bool):
            cov["exhaustive_domains"] = cov.pop("exhaustive")
        ev = {
            "property_id": self.prop, "tier": self.tier, "seed": self.seed, "level": self.level,
            "coverage": cov, "assumptions": list(assumptions or []) + self.assumptions,
            "wall_s": round(wall, 2), "violations": len(new),
        }
        # evidence of runs against another tree (VERIF_REPO: mutants, reverts) must not overwrite the evidence of /repo
        evdir = os.path.join(VERIF, "evidence") if not os.environ.get("VERIF_REPO") else os.path.join(OUT, "evidence-other-tree")
        os.makedirs(evdir, exist_ok=True)
        evp = os.path.join(evdir, self.prop + ".json")
        with open(evp + ".tmp", "w") as f:
            json.dump(ev, f, indent=1, default=_jd)
        os.rename(evp + ".tmp", evp)
        if not os.environ.get("VERIF_KEEP"):
            shutil.rmtree(self.work, ignore_errors=True)
        print("%s tier=%s seed=%d: evaluations=%d distinct=%d violations=%d known=%d wall=%.1fs" %
              (self.prop, self.tier, self.seed, self.evaluations, distinct, len(new), len(known), wall))
        if new:
            return 1
        if self.harness_errors:
            for m in self.harness_errors[:6]:
                print("INCONCLUSIVE/harness: " + m[-1200:], file=sys.stderr)
            return 2
        if self.evaluations < min_eval or distinct < 2:
            print("INCONCLUSIVE: too few cases observed (%d)" % self.evaluations, file=sys.stderr)
            return 2
        return 0


def _jobkey(job):
    return {k: job[k] for k in ("cfg", "unit", "params", "seed", "tier", "fill", "nolib", "env", "memcheck") if k in job}


def replay(prop, path):
    """Re-execute exactly the recorded case; prints the key(s) it produces."""
    rec = json.load(open(path))
    info = rec["info"]
    if info.get("digest_pair"):
        # re-execute the differing case under both variants and compare the transcript digests again
        idx = info["idx"]
        run = Run(prop, rec.get("tier", "quick"), rec.get("seed", 1))
        jobs = []
        for j in info["digest_pair"]:
            j = dict(j)
            j["resume_after"], j["stop_after"] = idx - 1, idx
            jobs.append(j)
        run.seed = jobs[0].get("seed", run.seed)
        run.run_jobs(jobs)
        tabs = []
        for (unit, pj), variants in run.digest_files.items():
            for cfg, fill, path, job in variants:
                d = dict(l.split() for l in open(path)) if path and os.path.exists(path) else {}
                tabs.append((cfg, fill, d.get(str(idx))))
        for t in tabs:
            print("REPLAY variant=%s/fill%02x digest=%s" % t)
        shutil.rmtree(run.work, ignore_errors=True)
        if len(tabs) == 2 and tabs[0][2] != tabs[1][2]:
            print("VIOLATION property=%s replay=%s" % (prop, path))
            return 1
        return 0
    if info.get("replay_job"):
        job = dict(info["replay_job"])
    else:
        job = dict(info["job"])
        idx = info["idx"]
        if idx >= 0:                      # (memcheck findings of a whole job carry idx -1: the job is re-run as a whole)
            job["resume_after"], job["stop_after"] = idx - 1, idx
    run = Run(prop, rec.get("tier", "quick"), rec.get("seed", 1))
    run.seed = job.get("seed", run.seed)
    run.run_jobs([job], timeout=3000)
    keys = sorted(run.viol)
    for k in keys:
        print("REPLAY key=%s" % k)
        if k == rec["key"]:
            print("VIOLATION property=%s replay=%s" % (prop, path))
    if os.environ.get("VERIF_KEEP"):
        print("work directory kept: %s" % run.work)
    else:
        shutil.rmtree(run.work, ignore_errors=True)
    return 1 if rec["key"] in keys else 0


if __name__ == "__main__":
    if len(sys.argv) > 1 and sys.argv[1] == "--worker":
        worker_main(sys.argv[2:])
