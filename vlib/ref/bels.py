"""STB 34.101.60 (bels) threshold secret sharing — naive model over GF(2)[x].

Octet strings are little-endian polynomials (octet 0 holds the coefficients of
x^0..x^7), a public key [len]m stands for the polynomial x^l + m(x), l = 8*len.

  share:    k(x) <- (threshold-1)*len generator octets,  c = (x^l + m0) k + s,
            s_i = c mod (x^l + m_i)
  recover:  the c' of degree < t*l with c' = s_i mod (x^l + m_i) (CRT), s = c' mod (x^l + m0)
  genmi:    minimal polynomial over GF(2) of a field element u of GF(2)[x]/(x^l + m0)
            (bels.h: "BuildIrred returns the minimal polynomial f of u"); accepted when
            deg f = l and f != f0

Conventions copied from the implementation (not decidable from the header):
the generator is asked once for (threshold-1)*len octets by the share
functions and once for len octets per attempt (3 attempts) by belsGenMi;
belsGenMid takes the first len octets of belt-hash(id) as u and steps
u <- u + 1 as an integer when an attempt fails.
"""
from . import gf2poly as gf

LENS = (16, 24, 32)

BELT_H_HEAD = bytes.fromhex("B194BAC80A08F53B366D008E584A5DE4")


def poly(m):
    """x^l + m(x) for a public key of len octets"""
    return (1 << (8 * len(m))) | int.from_bytes(m, "little")


def is_valid(m):
    return len(m) in LENS and gf.is_irreducible(poly(m))


def share(s, m0, mis, threshold, tape):
    """list of len-octet partial secrets, one per key in mis"""
    ln = len(s)
    need = (threshold - 1) * ln
    if len(tape) < need:
        raise ValueError("tape too short")
    k = int.from_bytes(tape[:need], "little")
    c = gf.mul(poly(m0), k) ^ int.from_bytes(s, "little")
    assert gf.deg(c) < threshold * 8 * ln
    return [gf.mod(c, poly(mi)).to_bytes(ln, "little") for mi in mis]


def crt(residues, moduli):
    """the unique c with deg c < sum deg(moduli) and c = residues[i] mod moduli[i]
    (moduli pairwise coprime); raises ZeroDivisionError otherwise"""
    c, g = gf.mod(residues[0], moduli[0]), moduli[0]
    for r, f in zip(residues[1:], moduli[1:]):
        # c' = c + g * ((r - c) * g^-1 mod f)
        t = gf.mulmod(gf.mod(r ^ c, f), gf.invmod(g, f), f)
        c ^= gf.mul(g, t)
        g = gf.mul(g, f)
    assert gf.deg(c) < gf.deg(g)
    return c


def recover(shares, m0, mis):
    ln = len(m0)
    c = crt([int.from_bytes(x, "little") for x in shares], [poly(m) for m in mis])
    return gf.mod(c, poly(m0)).to_bytes(ln, "little")


def minpoly(u, f):
    """minimal polynomial over GF(2) of u in GF(2)[x]/(f), by elimination on 1, u, u^2, ..."""
    l = gf.deg(f)
    u = gf.mod(u, f)
    basis = {}          # leading bit -> (vector, combination mask over powers)
    p = 1
    for i in range(l + 1):
        v, comb = p, 1 << i
        while v:
            d = v.bit_length() - 1
            if d not in basis:
                break
            bv, bc = basis[d]
            v ^= bv
            comb ^= bc
        if v == 0:
            return comb      # sum_{j in comb} u^j = 0, top power i
        basis[v.bit_length() - 1] = (v, comb)
        p = gf.mulmod(p, u, f)
    raise AssertionError("no dependency among l+1 powers")


def genmi(m0, tape, attempts=3):
    """(mi, octets consumed) or (None, consumed)"""
    ln = len(m0)
    f0 = poly(m0)
    for a in range(attempts):
        u = int.from_bytes(tape[a * ln:(a + 1) * ln], "little")
        f = minpoly(u, f0)
        if gf.deg(f) == 8 * ln and f != f0:
            return (f ^ (1 << (8 * ln))).to_bytes(ln, "little"), (a + 1) * ln
    return None, attempts * ln


def genmid(m0, h, attempts=3):
    """h = belt-hash(id) (32 octets)"""
    ln = len(m0)
    f0 = poly(m0)
    u = int.from_bytes(h[:ln], "little")
    for a in range(attempts):
        f = minpoly(u, f0)
        if gf.deg(f) == 8 * ln and f != f0:
            return (f ^ (1 << (8 * ln))).to_bytes(ln, "little")
        u = (u + 1) % (1 << (8 * ln))
    return None


# ---- appendix vectors embedded in /repo/test/crypto/bels_test.c ---------------

GENMID_ALICE = {
    16: "F9D6F31B5DB0BB61F00E17EEF2E6007F",
    24: "09EA79297F94A3E43A3885FC0D1BB8FDD0DF86FD313CEF46",
    32: "D53CC51BE1F976F1032A00D9CD0E190E62C37FFD233E8A9DF14C85F85C51A045",
}

SHARE_5_3 = {
    16: "E27D0CFD31C557BC37C3897DCFF2C7FC"
        "50BB9EECBAEF52DDB811BCDE1495441D"
        "A92473F6796683534AD115812A3F9950"
        "9A8331FD945D58E6D8723E4744FB1DA9"
        "51913D18C8625C5AB0812133FB643D66",
    24: "8D0EBB0C67A315C214B34A5D68E9712A12F7B43287E3138A"
        "2506EB8283D8555318479D278A752B04E9B5E6CC43543403"
        "E5B885E65E69ADD330D08268EC3D0A44B04B8E142CDDDD5C"
        "E85B368A66489AFE0E73D3D0EEB6A210CF0629C275AB1E94"
        "ED6CD8B56C37C03EE4FF04AE2A975AAA748AA0E97AA0DE20",
    32: "27EC2268C7A06E7CC54F66FC3D3572984D4D4EF69916EB8D1EAFDFA420217ADC"
        "20E06235E355CC433E2AF2F4100C636F3BFAB861A4390614E42BC17577BCBE42"
        "1E14B1E795CED216AAC5BB526EFC786C5BCE1F1865D3886ED4DD7D9EFEF77F39"
        "62EFAD2544718293262E2CB74A396B50B6D8843DF5E2F0EEFFFE6CD18722765E"
        "71ADE959FC88CCBB1C521FA9A1168C184619832AB66265E08A65DD48EE406418",
}

# tables B.5 - B.7: recovery from two of the five partial secrets (threshold 3): (users) -> value
RECOVER_PAIRS = {
    16: {(1, 2): "6380669CA508058FA9AADF986C77C175", (2, 3): "E8BA837676967C5C939DBF5172C9AB4F",
         (3, 4): "81C498D55DC506E858DE632A079C2C31", (4, 5): "40F629F9A4487DBCBF53192EA4A49EAA",
         (1, 3): "ABD72A835739A358DD954BEF7A923AEC", (2, 4): "6CB93B8CF600A746F8520860901E36FA",
         (5, 3): "E685CC725DDE29E60927563912CBBEA4", (4, 1): "225E2DF0E4AE6532D5A741981410A83C",
         (2, 5): "E4FCC7E24E448324367F400326954776", (5, 1): "E0C4268AC9C5FE35C15334E4D01417BE"},
    24: {(1, 2): "1E9811BD520C56E12B5B0E517756FA1AEE3CACC13B6313E9",
         (2, 3): "AF8AB8304FEBD5CF89D643A850C771657310CA0E8EDF9C60",
         (3, 4): "21B6A467511CD2CE6AE671E1D0992538BFB4EAE927F70991",
         (4, 5): "1C0E2B99D81134E0EB9AD40279D09786CA3CDA79B2E5D385",
         (1, 3): "A2E3B51AFBD7AFD552048DD6444416E07F2D9FA92D726920",
         (2, 4): "6D542544073C04C1C417ABDC292755A2861B4EB590B65841",
         (5, 3): "F2E193958DB1D3391D54C410244C151DBC267D6F5182DEC4",
         (4, 1): "2B65B8D1BEF2EA079F6C45DF5877EAA18F1188539B0AEF32",
         (2, 5): "EF5CE43C8AE6F4E441CE1C2D16ACC662D6CC1D8BAF937320",
         (5, 1): "7E880E3E89CE5FD4E8452256BD66E42D18D88C0CF85FDC26"},
    32: {(1, 2): "C39C8FA8590A7855914AED9B05940D9E8A119B130D939B8799889C938D1E078D",
         (2, 3): "31C06C2BF7AF38C2A6870A7F1B7BA9CC1A741DD96374A4D17A1F701666C9A777",
         (3, 4): "3ACC00A6DF80BC314A708A19D467F95440B214356D4666B4075E384B87BEB86C",
         (4, 5): "3F5F33C778D77A4FADC0BB51BE9F01532627D1E83D023DA72255CC826B05213B",
         (1, 3): "70EDE256F46BDC35EEE39361921EE8A394E8E67F3F56ABFBA65329D146DA185B",
         (2, 4): "44FC1DE684980BE2660BB7BCE50728A125A81D3B71B8D4ACD74E03190ADA473B",
         (5, 3): "B3C2EDAD484A5A864575721D10B9D0C09AE32C972C74857BA423D04502EE0066",
         (4, 1): "7C2D5033F0F10CC69065B13BB53BE7D19D61CF864CF1578E8325F10564F995A3",
         (2, 5): "264FD3BE9298495758B2446363616A3875D15EB96F95A122332597A87B2CCCBC",
         (5, 1): "00DD41CD32684FE7564F67FC51B0AD87003EEBDF90E803BA37CBA4FF8D9A724F"},
}


def std_keys(lib, ln):
    """[m0, m1, ..., m16] as the library's tables A.1-A.4 give them"""
    out = []
    for num in range(17):
        p = lib.alloc(ln)
        if lib.belsStdM(p, ln, num) != 0:
            raise RuntimeError("belsStdM(%d,%d)" % (ln, num))
        out.append(lib.rd(p, ln))
    lib.release()
    return out


def belt_h(lib):
    import ctypes
    f = lib.dll.beltH
    f.restype = ctypes.c_void_p
    f.argtypes = []
    h = lib.rd(f(), 256)
    if h[:16] != BELT_H_HEAD:
        raise RuntimeError("beltH() does not start with the published table")
    return h


def belt_hash(lib, data):
    p, o = lib.mk(data), lib.alloc(32)
    if lib.beltHash(o, p, len(data)) != 0:
        raise RuntimeError("beltHash")
    h = lib.rd(o, 32)
    lib.free_one(p)
    lib.free_one(o)
    return h


def selftest(lib):
    """returns the list of failures (empty = model reproduces every vector of bels_test.c).
    lib is used for data only: beltH(), the standard key tables, belt-hash("Alice")."""
    bad = []
    H = belt_h(lib)
    # minimal polynomials: tiny field GF(2)[x]/(x^4+x+1)
    f = 0b10011
    if minpoly(0b10, f) != f or minpoly(1, f) != 0b11 or minpoly(0, f) != 0b10 or \
            minpoly(0b110, f) != 0b111:          # x^2+x has order 3: x^2+x+1
        bad.append("minpoly small field")
    for ln in LENS:
        keys = std_keys(lib, ln)
        if len(set(keys)) != 17 or not all(is_valid(m) for m in keys):
            bad.append("std keys %d: not 17 distinct irreducible polynomials" % ln)
        if is_valid(bytes(ln)) or is_valid(b"\x03" + bytes(ln - 1)):
            bad.append("x^l or x^l + x + 1 accepted as irreducible")   # l = 128, 192, 256: x^l+x+1 is reducible
        m0, mis = keys[0], keys[1:6]
        # B.1
        mid = genmid(m0, belt_hash(lib, b"Alice"))
        if mid is None or mid.hex().upper() != GENMID_ALICE[ln]:
            bad.append("B.1 genmid len %d" % ln)
        elif not is_valid(mid):
            bad.append("B.1 genmid len %d not irreducible" % ln)
        # B.2 - B.4
        si = share(H[:ln], m0, mis, 3, H[128:256])
        if b"".join(si).hex().upper() != SHARE_5_3[ln]:
            bad.append("B.2-4 share len %d" % ln)
        # B.5 - B.7 (two of three), both orders
        for (a, b), want in RECOVER_PAIRS[ln].items():
            for x, y in ((a, b), (b, a)):
                got = recover([si[x - 1], si[y - 1]], m0, [mis[x - 1], mis[y - 1]])
                if got.hex().upper() != want:
                    bad.append("B.5-7 recover len %d users %d,%d" % (ln, x, y))
        # >= threshold
        for sub in ((0, 1, 2), (4, 2, 0), (1, 2, 3, 4), (4, 3, 2, 1, 0)):
            if recover([si[i] for i in sub], m0, [mis[i] for i in sub]) != H[:ln]:
                bad.append("recover len %d subset %s" % (ln, sub))
        if recover([si[0]], m0, [mis[0]]) == H[:ln]:
            bad.append("recover from one share gives the secret")
    return bad


def small_factor_witness(f, maxdeg=8):
    """True if f has an irreducible factor of degree <= maxdeg (sound reducibility witness,
    gcd(f, x^(2^k) + x) != 1), assuming deg f > maxdeg"""
    if f & 1 == 0:
        return True
    t = 2
    for k in range(1, maxdeg + 1):
        t = gf.mulmod(t, t, f)
        if gf.gcd(f, t ^ 2) != 1:
            return True
    return False


def is_valid_screened(m):
    """same verdict as is_valid; cheap witness first (used when scanning many candidates)"""
    f = poly(m)
    if small_factor_witness(f):
        return False
    return gf.is_irreducible(f)


def genm0(tape, ln, max_candidates=None):
    """first candidate block of the tape that is irreducible: (m0, index) or (None, n)"""
    n = len(tape) // ln
    if max_candidates is not None:
        n = min(n, max_candidates)
    for i in range(n):
        m = tape[i * ln:(i + 1) * ln]
        if is_valid_screened(m):
            return m, i
    return None, n


def consistent(shares, s, m0, mis, threshold):
    """do the partial secrets lie on some c = (x^l + m0) k + s with deg k < (threshold-1) l ?
    (the k is recovered, not assumed) -> (bool, k)"""
    ln = len(s)
    c = crt([int.from_bytes(x, "little") for x in shares], [poly(m) for m in mis])
    if len(shares) < threshold:
        raise ValueError("need at least threshold shares to decide")
    if gf.deg(c) >= threshold * 8 * ln:
        return False, None
    k, r = gf.divmod_(c, poly(m0))
    return r == int.from_bytes(s, "little"), k
