"""Naive affine arithmetic on binary curves  y^2 + x y = x^3 + a x^2 + b  over
GF(2^m) = GF(2)[x]/(f) with an explicit point at infinity (None).  Field
elements are Python ints (bit i = coefficient of x^i), arithmetic is the
shift-and-xor schoolbook of ref/gf2poly.py.  No formula is shared with bee2's
Lopez-Dahab code: everything here is the textbook affine chord-and-tangent rule.
"""
from . import gf2poly


class Field2:
    """GF(2)[x]/(f), f irreducible of degree m"""

    def __init__(self, f):
        self.f = f
        self.m = gf2poly.deg(f)

    def red(self, a):
        f, m = self.f, self.m
        d = a.bit_length() - 1
        while d >= m:
            a ^= f << (d - m)
            d = a.bit_length() - 1
        return a

    def mul(self, a, b):
        r = 0
        while b:
            if b & 1:
                r ^= a
            a <<= 1
            b >>= 1
        return self.red(r)

    def sqr(self, a):
        return self.mul(a, a)

    def inv(self, a):
        """extended Euclid in GF(2)[x] (same algorithm as gf2poly.exgcd, written with
        bit_length only so that 400-bit fields stay affordable)"""
        if a == 0:
            raise ZeroDivisionError
        u, v = a, self.f
        g1, g2 = 1, 0
        while u != 1:
            j = u.bit_length() - v.bit_length()
            if j < 0:
                u, v = v, u
                g1, g2 = g2, g1
                j = -j
            u ^= v << j
            g1 ^= g2 << j
            if u == 0:
                raise ZeroDivisionError
        return self.red(g1)

    def div(self, a, b):
        return self.mul(a, self.inv(b))

    def pow(self, a, e):
        r = 1
        while e:
            if e & 1:
                r = self.mul(r, a)
            a = self.mul(a, a)
            e >>= 1
        return r

    def sqrt(self, a):
        """a^(2^(m-1))"""
        for _ in range(self.m - 1):
            a = self.mul(a, a)
        return a

    def trace(self, a):
        t, s = a, a
        for _ in range(self.m - 1):
            s = self.mul(s, s)
            t ^= s
        return t  # 0 or 1

    def _quad_basis(self):
        """echelon form of the GF(2)-linear map z -> z^2 + z (images of x^i with the
        combination that produced them)"""
        if getattr(self, "_qb", None) is None:
            rows = {}  # leading bit -> (image, combination)
            for i in range(self.m):
                z = 1 << i
                img, comb = self.mul(z, z) ^ z, z
                while img:
                    h = img.bit_length() - 1
                    if h in rows:
                        img ^= rows[h][0]
                        comb ^= rows[h][1]
                    else:
                        rows[h] = (img, comb)
                        break
            self._qb = rows
        return self._qb

    def solve_quad(self, c):
        """some z with z^2 + z = c, or None if there is none (the other root is z + 1)"""
        rows = self._quad_basis()
        z = 0
        while c:
            h = c.bit_length() - 1
            if h not in rows:
                return None
            c ^= rows[h][0]
            z ^= rows[h][1]
        return z


class Curve2:
    """y^2 + x y = x^3 + a x^2 + b over GF(2^m); O is None; points are (x, y)"""

    def __init__(self, f, a, b):
        self.F = f if isinstance(f, Field2) else Field2(f)
        self.a, self.b = a, b
        if b == 0:
            raise ValueError("singular")

    def is_on(self, P):
        if P is None:
            return True
        F = self.F
        x, y = P
        if x >> F.m or y >> F.m or x < 0 or y < 0:
            return False
        x2 = F.mul(x, x)
        return F.mul(y, y) ^ F.mul(x, y) == F.mul(x2, x) ^ F.mul(self.a, x2) ^ self.b

    def neg(self, P):
        if P is None:
            return None
        return (P[0], P[0] ^ P[1])

    def add(self, P, Q):
        if P is None:
            return Q
        if Q is None:
            return P
        F = self.F
        x1, y1 = P
        x2, y2 = Q
        if x1 == x2:
            if y1 ^ y2 == x1:      # Q = -P (covers x = 0, the point of order two)
                return None
            # P = Q, x != 0
            lam = x1 ^ F.div(y1, x1)
            x3 = F.mul(lam, lam) ^ lam ^ self.a
            y3 = F.mul(x1, x1) ^ F.mul(lam ^ 1, x3)
            return (x3, y3)
        lam = F.div(y1 ^ y2, x1 ^ x2)
        x3 = F.mul(lam, lam) ^ lam ^ x1 ^ x2 ^ self.a
        y3 = F.mul(lam, x1 ^ x3) ^ x3 ^ y1
        return (x3, y3)

    def sub(self, P, Q):
        return self.add(P, self.neg(Q))

    def dbl(self, P):
        return self.add(P, P)

    def mul(self, k, P):
        if k < 0:
            return self.mul(-k, self.neg(P))
        R, Q = None, P
        while k:
            if k & 1:
                R = self.add(R, Q)
            Q = self.add(Q, Q)
            k >>= 1
        return R

    def mul_naive(self, k, P):
        R = None
        for _ in range(k):
            R = self.add(R, P)
        return R

    def lift_x(self, x):
        """a point with this abscissa, or None"""
        F = self.F
        if x == 0:
            return (0, F.sqrt(self.b))
        x2 = F.mul(x, x)
        rhs = F.mul(x2, x) ^ F.mul(self.a, x2) ^ self.b
        # y = x z  with  z^2 + z = rhs / x^2
        z = F.solve_quad(F.div(rhs, x2))
        if z is None:
            return None
        return (x, F.mul(x, z))

    def order_of(self, P, bound):
        R, n = P, 1
        while R is not None:
            R = self.add(R, P)
            n += 1
            if n > bound:
                return None
        return n


def subfield_curve_order(F, a, b, k):
    """number of points of E_{a,b} over GF(2^m) when a, b lie in the subfield GF(2^k), k | m:
    count over GF(2^k) by exhaustion, then Weil's recursion."""
    m = F.m
    if m % k:
        raise ValueError("k must divide m")
    q = 1 << k
    # the subfield = roots of z^(2^k) = z ; enumerate as {0} + powers of a generator
    if F.pow(a, q) != a or F.pow(b, q) != b:
        raise ValueError("coefficients not in the subfield")
    sub = subfield_elements(F, k)
    E = Curve2(F, a, b)
    n1 = 1
    for x in sub:
        for y in sub:
            if E.is_on((x, y)):
                n1 += 1
    t = q + 1 - n1
    v0, v1 = 2, t
    for _ in range(m // k - 1):
        v0, v1 = v1, t * v1 - q * v0
    return (1 << m) + 1 - v1


def subfield_elements(F, k):
    """all 2^k elements z of GF(2^m) with z^(2^k) = z (k | m), sorted"""
    q = 1 << k
    e = ((1 << F.m) - 1) // (q - 1)
    out = {0, 1}
    c = 2
    while len(out) < q:
        g = F.pow(c, e)
        z = 1
        for _ in range(q - 1):
            z = F.mul(z, g)
            out.add(z)
        c += 1
        if c > 1 << 12:
            raise ValueError("subfield not found")
    return sorted(out)


def selftest():
    """anchors: (1) field arithmetic against gf2poly on the GCM/belt polynomial, (2) the group
    law on a tiny curve against exhaustive enumeration (associativity, orders dividing #E,
    Hasse), (3) the DSTU 4145 appendix-B base point of the GF(2^163) curve that the
    repository embeds in src/crypto/dstu.c (on-curve and order n)."""
    import random
    r = random.Random(2024)
    f128 = (1 << 128) | 0x87
    F = Field2(f128)
    for _ in range(20):
        a, b = r.getrandbits(128), r.getrandbits(128)
        if F.mul(a, b) != gf2poly.mulmod(a, b, f128):
            return "mul"
        if a and F.mul(a, F.inv(a)) != 1:
            return "inv"
        if a and F.inv(a) != gf2poly.invmod(a, f128):
            return "inv2"
        z = F.solve_quad(F.mul(a, a) ^ a)
        if z is None or F.mul(z, z) ^ z != F.mul(a, a) ^ a:
            return "quad"
        if F.mul(F.sqrt(a), F.sqrt(a)) != a:
            return "sqrt"
    # tiny field GF(2^5), f = x^5 + x^2 + 1
    F5 = Field2(0b100101)
    for a in (0, 1, 3):
        for b in (1, 7, 19):
            E = Curve2(F5, a, b)
            pts = [None] + [(x, y) for x in range(32) for y in range(32) if E.is_on((x, y))]
            n = len(pts)
            if abs(n - 33) ** 2 > 4 * 32:
                return "hasse"
            S = set(pts)
            for P in pts[:12]:
                for Q in pts[:12]:
                    R = E.add(P, Q)
                    if R not in S or E.add(Q, P) != R:
                        return "closure"
                    if E.add(E.add(P, Q), pts[-1]) != E.add(P, E.add(Q, pts[-1])):
                        return "assoc"
                if E.mul(n, P) is not None or E.mul_naive(n, P) is not None:
                    return "lagrange"
                if E.add(P, E.neg(P)) is not None:
                    return "neg"
                if P is not None and E.lift_x(P[0]) not in (P, E.neg(P)):
                    return "lift"
            if subfield_curve_order(F5, a, b, 5) != n:
                return "count"
    # Koblitz curves: a in {0,1}, b = 1 over GF(2^5): orders 44 and 22 (Lucas sequence)
    if subfield_curve_order(F5, 0, 1, 1) != len([1 for x in range(32) for y in range(32)
                                                   if Curve2(F5, 0, 1).is_on((x, y))]) + 1:
        return "koblitz0"
    if subfield_curve_order(F5, 1, 1, 1) != len([1 for x in range(32) for y in range(32)
                                                   if Curve2(F5, 1, 1).is_on((x, y))]) + 1:
        return "koblitz1"
    # DSTU 4145-2002 appendix B (dstu_163pb in src/crypto/dstu.c)
    f163 = (1 << 163) | (1 << 7) | (1 << 6) | (1 << 3) | 1
    B = int.from_bytes(bytes.fromhex("215D45C1198A635E9203B40A21C82D2A460861FF05"), "little")
    n = int.from_bytes(bytes.fromhex("4DF1BC392D26E22BC1BE0200000000000000000004"), "little")
    x = int.from_bytes(bytes.fromhex("2004548C5C8874FEAF01FFF97DC23AA9937F862D07"), "little")
    y = int.from_bytes(bytes.fromhex("9BFDC3AD2211B84A5F9D59C5972B8547399C4A2200"), "little")
    E = Curve2(f163, 1, B)
    if not E.is_on((x, y)):
        return "dstu-on"
    if E.mul(n, (x, y)) is not None or E.mul(n - 1, (x, y)) != E.neg((x, y)):
        return "dstu-order"
    return None
