"""Chain-validity model for the CV certificates of btok.h (STB 34.101.79 profile).

Plain Python, written from the header text of btokCVCCheck / Check2 / Val / Val2 only:

  Check(c)      names printable and 8..12 characters, both dates valid, from <= until, public key valid
  Check2(c, ca) Check(c), c.authority == ca.holder, ca's dates valid, ca.from <= c.from <= ca.until
  Val(c, ca, d) ca well formed, c parses and its signature verifies under ca's key, Check2(c, ca),
                d is None or (d valid and c.from <= d <= c.until)

Signature and public-key validity are inputs (decided by bignVerify / bignPubkeyVal, which C02 checks).
Dates: 6 octets YYMMDD, one decimal digit per octet, year 2000 + YY (tm.h).
"""

PRINTABLE = set(b"0123456789ABCDEFGHIJKLMNOPQRSTUVWXYZabcdefghijklmnopqrstuvwxyz '()+,-./:=?")


def cstr(field):
    """C string stored in a fixed char array (up to the first NUL)"""
    field = bytes(field)
    i = field.find(b"\0")
    return field if i < 0 else field[:i]


def name_ok(name):
    name = bytes(name)
    return 8 <= len(name) <= 12 and all(ch in PRINTABLE for ch in name)


def leap(y):
    return y % 400 == 0 or (y % 4 == 0 and y % 100 != 0)


def date_ok(d):
    d = bytes(d)
    if len(d) != 6 or any(x > 9 for x in d):
        return False
    y, m, dd = 2000 + 10 * d[0] + d[1], 10 * d[2] + d[3], 10 * d[4] + d[5]
    if not 1 <= m <= 12 or dd < 1:
        return False
    dim = [31, 29 if leap(y) else 28, 31, 30, 31, 30, 31, 31, 30, 31, 30, 31][m - 1]
    return dd <= dim


def date_leq(a, b):
    return tuple(bytes(a)) <= tuple(bytes(b))


def check(c, pubkey_ok=True):
    return (name_ok(c["authority"]) and name_ok(c["holder"]) and date_ok(c["from"]) and date_ok(c["until"])
            and date_leq(c["from"], c["until"]) and bool(pubkey_ok))


def check2(c, ca, pubkey_ok=True):
    return (check(c, pubkey_ok) and bytes(c["authority"]) == bytes(ca["holder"]) and date_ok(ca["from"])
            and date_ok(ca["until"]) and date_leq(ca["from"], c["from"]) and date_leq(c["from"], ca["until"]))


def val(c, ca, date, sig_ok, pubkey_ok=True, issuer_wellformed=True):
    if not issuer_wellformed or not sig_ok or not check2(c, ca, pubkey_ok):
        return False
    if date is None:
        return True
    return date_ok(date) and date_leq(c["from"], date) and date_leq(date, c["until"])


# --- DER splitting (only what is needed to find the signed body) -----------

def _tl(buf, off):
    """tag/length at off -> (tag int, value offset, value length) or None"""
    if off >= len(buf):
        return None
    t = buf[off]
    off += 1
    tag = t
    if t & 0x1F == 0x1F:
        while True:
            if off >= len(buf):
                return None
            b = buf[off]
            off += 1
            tag = (tag << 8) | b
            if not b & 0x80:
                break
    if off >= len(buf):
        return None
    ln = buf[off]
    off += 1
    if ln & 0x80:
        k = ln & 0x7F
        if k == 0 or off + k > len(buf):
            return None
        ln = int.from_bytes(buf[off:off + k], "big")
        off += k
    if off + ln > len(buf):
        return None
    return tag, off, ln


def split(cert):
    """(body TLV octets, signature octets) of a CVCertificate, or None"""
    r = _tl(cert, 0)
    if not r or r[0] != 0x7F21 or r[1] + r[2] != len(cert):
        return None
    o = r[1]
    b = _tl(cert, o)
    if not b or b[0] != 0x7F4E:
        return None
    end = b[1] + b[2]
    s = _tl(cert, end)
    if not s or s[0] != 0x5F37 or s[1] + s[2] != len(cert):
        return None
    return bytes(cert[o:end]), bytes(cert[s[1]:s[1] + s[2]])


def selftest():
    """the expectations of test/crypto/btok_test.c (btokCVCTest) on its own chain"""
    hx = bytes.fromhex
    c0 = {"authority": b"BYCA0000", "holder": b"BYCA0000", "from": hx("020200070007"), "until": hx("090900070007")}
    c1 = {"authority": b"BYCA0000", "holder": b"BYCA1000", "from": hx("020200070102"), "until": hx("020201010300")}
    c2 = {"authority": b"BYCA1000", "holder": b"590082394654", "from": hx("020200070102"), "until": hx("030901020301")}
    ok = (check(c0) and check2(c1, c0) and check2(c2, c1) and val(c1, c0, None, True) and val(c2, c1, None, True)
          and not val(c2, c1, c0["from"], True) and not val(c2, c1, c0["until"], True)
          and not check(dict(c0, authority=b"BYCA000")) and not check(dict(c0, holder=b"BYCA000000000"))
          and date_ok(hx("020400020209")) and not date_ok(hx("020300020209")) and not date_ok(hx("020201030001"))
          and not date_ok(bytes([0, 10, 0, 1, 0, 1])) and not date_ok(hx("020200040301")) and date_ok(hx("000000020209")))
    return ok
