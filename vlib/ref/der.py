"""Strict X.690 DER TLV model for C08 (naive on purpose; bytes and ints only).

Tags are bee2's u32 "ready code" (der.h): the tag octets read as one big-endian
number, 1..4 octets.  Every decoder raises Bad(reason) with a short stable
reason; reasons are used as boundary-class labels and in violation keys.
Typed layer: SIZE/UINT (non-negative minimal INTEGER), BIT, OCT, OID, PSTR and
a generic strict walk of nested constructed encodings.
"""
SIZE_MAX = 2 ** 64 - 1
PRINTABLE = set(b"ABCDEFGHIJKLMNOPQRSTUVWXYZabcdefghijklmnopqrstuvwxyz0123456789 '()+,-./:=?")


class Bad(Exception):
    def __init__(self, reason):
        Exception.__init__(self, reason)
        self.reason = reason


# ---- T ---------------------------------------------------------------------
def tag_dec(b, pos=0):
    """-> (tag as u32 code, number of tag octets)"""
    if pos >= len(b):
        raise Bad("tag-missing")
    if b[pos] & 31 != 31:
        return b[pos], 1
    num, n = 0, 1
    while True:
        if pos + n >= len(b):
            raise Bad("tag-truncated")
        if n == 4:
            raise Bad("tag-exceeds-u32")
        o = b[pos + n]
        if n == 1 and o & 127 == 0:
            raise Bad("tag-leading-zero")
        num, n = num << 7 | o & 127, n + 1
        if o & 128 == 0:
            break
    if num < 31:
        raise Bad("tag-long-form-for-small-number")
    return int.from_bytes(b[pos:pos + n], "big"), n


def tag_enc(tag):
    if not 0 <= tag < 2 ** 32:
        raise Bad("tag-exceeds-u32")
    t = tag.to_bytes(max(1, (tag.bit_length() + 7) // 8), "big")
    try:
        ok = tag_dec(t + b"\0") == (tag, len(t))
    except Bad:
        ok = False
    if not ok:
        raise Bad("tag-invalid")
    return t


def tag_valid(tag):
    try:
        tag_enc(tag)
        return True
    except Bad:
        return False


def tag_constructed(tag):
    return bool(tag_enc(tag)[0] & 0x20)


# ---- L ---------------------------------------------------------------------
def len_dec(b, pos):
    """-> (length, number of length octets); the implementation limit is size_t"""
    if pos >= len(b):
        raise Bad("len-missing")
    o = b[pos]
    if o < 128:
        return o, 1
    if o == 128:
        raise Bad("len-indefinite-0x80")
    if o == 255:
        raise Bad("len-reserved-0xFF")
    r = o - 128
    if pos + 1 + r > len(b):
        raise Bad("len-truncated")
    if b[pos + 1] == 0:
        raise Bad("len-leading-zero")
    L = int.from_bytes(b[pos + 1:pos + 1 + r], "big")
    if L < 128:
        raise Bad("len-long-form-for-short")
    if L >= SIZE_MAX:            # bee2 reserves SIZE_MAX as the error value
        raise Bad("len-exceeds-size_t")
    return L, 1 + r


def len_enc(L):
    if L < 128:
        return bytes([L])
    v = L.to_bytes((L.bit_length() + 7) // 8, "big")
    return bytes([128 + len(v)]) + v


# ---- TL / TLV ----------------------------------------------------------------
def tl_dec(b):
    """-> (tag, L, octets in TL); L may exceed what follows (derTLDec does not look at V)"""
    tag, nt = tag_dec(b, 0)
    L, nl = len_dec(b, nt)
    return tag, L, nt + nl


def dec(b):
    """strict TLV in a prefix of b -> (tag, value, total octets)"""
    tag, L, n = tl_dec(b)
    if L > len(b) - n:
        raise Bad("value-truncated")
    return tag, bytes(b[n:n + L]), n + L


def enc(tag, value):
    return tag_enc(tag) + len_enc(len(value)) + bytes(value)


def is_valid(b):
    try:
        return dec(b)[2] == len(b)
    except Bad:
        return False


# ---- typed values (content octets) -------------------------------------------
def uint_dec(v):
    """content octets of a non-negative INTEGER -> int"""
    if len(v) == 0:
        raise Bad("int-empty")
    if v[0] & 128:
        raise Bad("int-negative")
    if len(v) > 1 and v[0] == 0 and not v[1] & 128:
        raise Bad("int-padded")
    return int.from_bytes(v, "big")


def uint_enc(n):
    return n.to_bytes(n.bit_length() // 8 + 1, "big")


def size_dec(v):
    n = uint_dec(v)
    if n > SIZE_MAX:
        raise Bad("int-exceeds-size_t")
    return n


def bit_dec(v):
    """-> (octets, number of bits)"""
    if len(v) == 0:
        raise Bad("bit-empty")
    if v[0] > 7:
        raise Bad("bit-unused>7")
    if v[0] and len(v) == 1:
        raise Bad("bit-unused-without-octets")
    if v[0] and v[-1] & ((1 << v[0]) - 1):
        raise Bad("bit-nonzero-padding")
    return bytes(v[1:]), (len(v) - 1) * 8 - v[0]


def bit_enc(data, nbits):
    n = (nbits + 7) // 8
    d = bytearray(data[:n])
    if nbits % 8:
        d[-1] &= 0xFF << (8 - nbits % 8) & 0xFF
    return bytes([(8 - nbits % 8) % 8]) + bytes(d)


def oid_dec(v):
    """content octets -> dotted string (oid.h: every d_i and 40*d1+d2 fit u32)"""
    if len(v) == 0:
        raise Bad("oid-empty")
    subs, cur, fresh = [], 0, True
    for o in v:
        if fresh and o == 0x80:
            raise Bad("oid-arc-leading-0x80")
        cur, fresh = cur << 7 | o & 127, False
        if cur >= 2 ** 32:
            raise Bad("oid-arc>=2^32")
        if not o & 128:
            subs.append(cur)
            cur, fresh = 0, True
    if not fresh:
        raise Bad("oid-arc-truncated")
    d1 = min(subs[0] // 40, 2)
    return ".".join(str(x) for x in [d1, subs[0] - 40 * d1] + subs[1:])


def oid_valid(s):
    parts = s.split(".")
    if len(parts) < 2 or any(p == "" or not p.isascii() or not p.isdigit() or (len(p) > 1 and p[0] == "0") for p in parts):
        return False
    d = [int(p) for p in parts]
    return d[0] <= 2 and (d[0] == 2 or d[1] < 40) and 40 * d[0] + d[1] < 2 ** 32 and all(x < 2 ** 32 for x in d)


def oid_enc(s):
    if not oid_valid(s):
        raise Bad("oid-string-invalid")
    d = [int(p) for p in s.split(".")]
    out = b""
    for x in [40 * d[0] + d[1]] + d[2:]:
        grp = [x & 127]
        while x >= 128:
            x >>= 7
            grp.append(x & 127 | 128)
        out += bytes(reversed(grp))
    return out


def pstr_dec(v):
    if any(c not in PRINTABLE for c in v):
        raise Bad("pstr-bad-char")
    return bytes(v).decode("ascii")


UNIVERSAL = {0x02: uint_dec, 0x03: bit_dec, 0x06: oid_dec, 0x13: pstr_dec}


def walk(b, typed=None):
    """strict parse of one complete TLV with everything nested in it; typed maps tag -> content
    checker (default: the universal INTEGER/BIT STRING/OID/PrintableString/NULL rules).
    -> (tag, value | [children])"""
    typed = UNIVERSAL if typed is None else typed
    tag, v, n = dec(b)
    if n != len(b):
        raise Bad("trailing-octets")
    if tag_constructed(tag):
        kids, pos = [], 0
        while pos < len(v):
            n1 = dec(v[pos:])[2]
            kids.append(walk(v[pos:pos + n1], typed))
            pos += n1
        return tag, kids
    if tag == 0x05 and v:
        raise Bad("null-nonempty")
    if tag in typed:
        typed[tag](v)
    return tag, v


def selftest():
    """anchors: der.h examples, /repo/test/core/der_test.c and oid_test.c"""
    H = bytes.fromhex
    assert enc(0x02, uint_enc(0)) == H("020100") and enc(0x02, uint_enc(127)) == H("02017F")
    assert enc(0x02, uint_enc(128)) == H("02020080") and enc(0x02, uint_enc(256)) == H("02020100")
    assert enc(0x5F29, uint_enc(0)) == H("5F290100") and enc(0x05, b"") == H("0500")
    assert enc(0x03, bit_enc(H("0123456789ABCDEF"), 61)) == H("0309030123456789ABCDE8")
    assert bit_dec(H("030123456789ABCDE8")) == (H("0123456789ABCDE8"), 61)
    assert enc(0x06, oid_enc("1.2.840.113549")) == H("06062A864886F70D")
    assert enc(0x06, oid_enc("1.2.112.0.2.0.34.101.31.81")) == H("06092A7000020022651F51")
    assert enc(0x42, b"BYCA0000") == H("42084259434130303030")
    assert enc(0x30, bytes(129))[:3] == H("308181")
    for h, s in (("8100", "2.48"), ("8101", "2.49"), ("8837", "2.999"), ("2A864886F70D", "1.2.840.113549")):
        assert oid_dec(H(h)) == s and oid_enc(s) == H(h)
    for h in ("0180808080807F", "8001", "807F", "81B1D1AF85ECA8804F", "", "2A86"):
        try:
            oid_dec(H(h))
            raise AssertionError(h)
        except Bad:
            pass
    assert not oid_valid("2.5.4.4294967299") and oid_valid("2.65500") and not oid_valid("1.40") and not oid_valid("3.1")
    assert tag_dec(H("7F21")) == (0x7F21, 2) and tag_dec(H("5F29")) == (0x5F29, 2) and tag_valid(0x7F818001)
    assert not tag_valid(0x1F) and not tag_valid(0x1F1E) and not tag_valid(0x1F8001) and not tag_valid(0x7F80)
    for h, r in (("1F", "tag-truncated"), ("1F8001", "tag-leading-zero"), ("1F1E00", "tag-long-form-for-small-number"),
                 ("1F81818100", "tag-exceeds-u32"), ("0480", "len-indefinite-0x80"), ("04FF", "len-reserved-0xFF"),
                 ("048100", "len-leading-zero"), ("04817F", "len-long-form-for-short"), ("048201", "len-truncated"),
                 ("0488FFFFFFFFFFFFFFFF", "len-exceeds-size_t"), ("04890100000000000000FF", "len-exceeds-size_t"),
                 ("040201", "value-truncated"), ("04", "len-missing"), ("", "tag-missing")):
        try:
            dec(H(h))
            raise AssertionError(h)
        except Bad as e:
            assert e.reason == r, (h, e.reason)
    assert walk(H("3006020101040100"))[1] == [(2, b"\x01"), (4, b"\x00")]
    return True
