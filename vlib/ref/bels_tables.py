"""Standard public keys of STB 34.101.60 (tables A.1 - A.3): m_i(x) = x^l + (32-bit low part), i = 0..16.

Transcribed from the pinned bee2 tree (src/crypto/bels.c), which is the only copy of the standard's tables available in
this sandbox; cross-checks made when transcribing: all 51 polynomials are irreducible pentanomials, pairwise distinct per
length; for l = 128 and l = 192 they are exactly the 17 numerically smallest irreducible pentanomials of that degree (for
l = 256 sixteen of the seventeen smallest and 0x0800000B). The test vectors of the standard embedded in the repository
(tables B.x, users 1..5) agree with them through the share values."""

STD_LOW = {
    16: [0x00000087, 0x00000285, 0x00000C41, 0x00001821, 0x00008015, 0x00008301, 0x00020281, 0x00022081, 0x0002A001,
         0x00080141, 0x00080205, 0x00082801, 0x0008A001, 0x00108041, 0x00200025, 0x00200405, 0x00200C01],
    24: [0x00000087, 0x00001209, 0x00001241, 0x00008601, 0x00008821, 0x0000C005, 0x00020049, 0x00020085, 0x00021009,
         0x00060801, 0x00090201, 0x000A0081, 0x00200411, 0x00228001, 0x00400209, 0x00420801, 0x00810401],
    32: [0x00000425, 0x0001000B, 0x0001000D, 0x0001A001, 0x00020061, 0x00040085, 0x00200181, 0x00204005, 0x00280011,
         0x00810201, 0x00820401, 0x0100000B, 0x01002801, 0x01200009, 0x02000029, 0x02002009, 0x0800000B],
}


def std_key(ln, num):
    """[ln] octets, little-endian, as belsStdM returns them"""
    return STD_LOW[ln][num].to_bytes(4, "little") + bytes(ln - 4)
