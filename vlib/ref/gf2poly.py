"""GF(2)[x] with Python ints as bit vectors (bit i = coefficient of x^i). Naive on purpose."""


def deg(a):
    return a.bit_length() - 1  # deg(0) = -1


def mul(a, b):
    r = 0
    while b:
        if b & 1:
            r ^= a
        a <<= 1
        b >>= 1
    return r


def divmod_(a, b):
    if b == 0:
        raise ZeroDivisionError
    q = 0
    db = deg(b)
    while deg(a) >= db:
        s = deg(a) - db
        q |= 1 << s
        a ^= b << s
    return q, a


def mod(a, b):
    return divmod_(a, b)[1]


def div(a, b):
    return divmod_(a, b)[0]


def gcd(a, b):
    while b:
        a, b = b, mod(a, b)
    return a


def exgcd(a, b):
    """returns (d, u, v) with u a + v b = d"""
    u0, v0, u1, v1 = 1, 0, 0, 1
    while b:
        q, r = divmod_(a, b)
        a, b = b, r
        u0, u1 = u1, u0 ^ mul(q, u1)
        v0, v1 = v1, v0 ^ mul(q, v1)
    return a, u0, v0


def mulmod(a, b, m):
    return mod(mul(a, b), m)


def powmod(a, e, m):
    r = 1
    a = mod(a, m)
    while e:
        if e & 1:
            r = mulmod(r, a, m)
        a = mulmod(a, a, m)
        e >>= 1
    return r


def invmod(a, m):
    d, u, _ = exgcd(mod(a, m), m)
    if d != 1:
        raise ZeroDivisionError
    return mod(u, m)


def is_irreducible(f):
    """Rabin's test"""
    n = deg(f)
    if n <= 0:
        return False
    if n == 1:
        return True
    # x^(2^n) = x mod f
    x = 2
    t = x
    for _ in range(n):
        t = mulmod(t, t, f)
    if t != mod(x, f):
        return False
    # prime divisors of n
    ps, m, d = [], n, 2
    while d * d <= m:
        if m % d == 0:
            ps.append(d)
            while m % d == 0:
                m //= d
        d += 1
    if m > 1:
        ps.append(m)
    for q in ps:
        t = x
        for _ in range(n // q):
            t = mulmod(t, t, f)
        if gcd(t ^ mod(x, f), f) != 1:
            return False
    return True


def is_irreducible_bruteforce(f):
    n = deg(f)
    if n <= 0:
        return False
    for g in range(2, 1 << (n // 2 + 1)):
        if deg(g) >= 1 and deg(g) <= n // 2 and mod(f, g) == 0:
            return False
    return True


# --- minimal polynomials (added for C05: ppMinPoly, ppMinPolyMod) ---------------------------------

def seq_generated_by(g, s):
    """does the monic g (degree d) generate the finite bit sequence s (list, s[0] first)?
    i.e. sum_i g_i s[j+i] = 0 for all 0 <= j < len(s) - d"""
    d = deg(g)
    for j in range(len(s) - d):
        t = 0
        for i in range(d + 1):
            if (g >> i) & 1:
                t ^= s[j + i]
        if t:
            return False
    return True


def minpoly_seq(s):
    """Berlekamp-Massey over GF(2): returns (L, g) -- the linear complexity of the finite sequence s
    (list of bits, s[0] first) and the characteristic polynomial g(x) = x^L C(1/x) of the shortest LFSR
    found. g is the unique minimal polynomial iff 2 L <= len(s)."""
    C, Bp, L, m = 1, 1, 0, 1          # connection polynomials as ints: bit i = c_i, c_0 = 1
    for n in range(len(s)):
        d = s[n]
        for i in range(1, L + 1):
            if (C >> i) & 1:
                d ^= s[n - i]
        if d == 0:
            m += 1
        elif 2 * L <= n:
            T = C
            C ^= Bp << m
            L = n + 1 - L
            Bp = T
            m = 1
        else:
            C ^= Bp << m
            m += 1
    g = 0
    for i in range(L + 1):
        if (C >> i) & 1:
            g |= 1 << (L - i)
    return L, g


def minpoly_mod(a, m):
    """minimal polynomial of a as an element of GF(2)[x]/(m), deg m >= 1: the monic g of least degree with
    g(a) = 0 (mod m); plain linear algebra on the powers 1, a, a^2, ..."""
    basis = []                         # (vector, combination) with distinct leading bits, descending
    p, d = mod(1, m), 0
    a = mod(a, m)
    while True:
        v, c = p, 1 << d
        for bv, bc in basis:
            if v ^ bv < v:
                v ^= bv
                c ^= bc
        if v == 0:
            return c
        basis.append((v, c))
        basis.sort(reverse=True)
        p = mulmod(p, a, m)
        d += 1
