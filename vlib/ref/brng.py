"""Reference model of STB 34.101.47 (brng): the CTR generator (6.2) and the HMAC
generator (6.3) over an abstract hash h / keyed hash hmac.

ASSUMPTION: h = belt-hash and hmac = HMAC[belt-hash] are taken from the library
itself (beltHash / beltHMAC through ctypes, see lib_hash / lib_hmac).  Property
C01 ties those two to STB 34.101.31 / 34.101.47 separately; C03 checks the
generator constructions *around* them: the 256-bit counter, the r feedback, the
order of the hashed fields, the treatment of the additional word X, buffering.

CTR (6.2.4):  s <- S, r <- not S;  for each block: Y_i <- h(K || s || X_i || r),
s <- s [+] <1>_256 (addition mod 2^256 of little-endian numbers), r <- r xor Y_i.
X is the prior content of the output buffer cut into 32-octet blocks, the last
one zero-padded (brng.h).  HMAC (6.3.4): r <- hmac(K, S); for each block:
Y_i <- hmac(K, r || S), r <- hmac(K, r).

Buffering is modelled exactly as brng.h words it: the unread tail of the last
block is returned first, and the octets of buf that receive it are not used as X.
"""

M256 = (1 << 256) - 1


def lib_hash(lib):
    """belt-hash of the library as a Python function bytes -> 32 octets (own buffers, freed at once)"""
    def h(data):
        src, out = lib.mk(data), lib.alloc(32)
        try:
            rc = lib.beltHash(out, src, len(data))
            if rc != 0:
                raise RuntimeError("beltHash -> %d" % rc)
            return lib.rd(out, 32)
        finally:
            lib.free_one(src)
            lib.free_one(out)
    return h


def lib_hmac(lib):
    """HMAC[belt-hash] of the library as a Python function (key, data) -> 32 octets"""
    def hmac(key, data):
        src, k, out = lib.mk(data), lib.mk(key), lib.alloc(32)
        try:
            rc = lib.beltHMAC(out, src, len(data), k, len(key))
            if rc != 0:
                raise RuntimeError("beltHMAC -> %d" % rc)
            return lib.rd(out, 32)
        finally:
            lib.free_one(src)
            lib.free_one(k)
            lib.free_one(out)
    return hmac


class CTR:
    def __init__(self, h, key, iv=None):
        if len(key) != 32 or (iv is not None and len(iv) != 32):
            raise ValueError("key / iv are 32 octets")
        self.h, self.key = h, bytes(key)
        self.s = int.from_bytes(iv, "little") if iv is not None else 0
        self.r = self.s ^ M256
        self.tail = b""            # unread part of the last block
        self.wrapped = False       # the counter passed 2^256 - 1 -> 0 at least once

    def block(self, X):
        """one step of 6.2.4 on a 32-octet additional word"""
        Y = self.h(self.key + self.s.to_bytes(32, "little") + X + self.r.to_bytes(32, "little"))
        if self.s == M256:
            self.wrapped = True
        self.s = (self.s + 1) & M256
        self.r ^= int.from_bytes(Y, "little")
        return Y

    def step(self, buf):
        """brngCTRStepR: buf = prior content of the output buffer; returns its new content"""
        buf = bytes(buf)
        out = self.tail[:len(buf)]
        self.tail = self.tail[len(out):]
        rest = buf[len(out):]
        for i in range(0, len(rest), 32):
            X = rest[i:i + 32]
            Y = self.block(X + bytes(32 - len(X)))
            out += Y[:len(X)]
            self.tail = Y[len(X):]
        return out

    def iv(self):
        """brngCTRStepG"""
        return self.s.to_bytes(32, "little")


def ctr_rand(h, key, iv, buf):
    """brngCTRRand: (new buffer content, updated iv)"""
    g = CTR(h, key, iv)
    out = g.step(buf)
    return out, g.iv()


class HMACGen:
    def __init__(self, hmac, key, iv):
        self.hmac, self.key, self.S = hmac, bytes(key), bytes(iv)
        self.r = hmac(self.key, self.S)
        self.tail = b""

    def block(self):
        Y = self.hmac(self.key, self.r + self.S)
        self.r = self.hmac(self.key, self.r)
        return Y

    def step(self, n):
        out = self.tail[:n]
        self.tail = self.tail[len(out):]
        while len(out) < n:
            Y = self.block()
            take = min(32, n - len(out))
            out += Y[:take]
            self.tail = Y[take:]
        return out


def hmac_rand(hmac, key, iv, n):
    return HMACGen(hmac, key, iv).step(n)


def _hx(s):
    return bytes.fromhex("".join(s.split()))


def selftest(lib):
    """Tables B.2 (CTR, 8 blocks with X = belt H, intermediate IV) and B.4 (HMAC, 3 blocks) of
    STB 34.101.47 as embedded in brng_test.c, plus the test's 2-octet short key/IV vector."""
    from ..core import Harness
    H = lib.rd(lib.beltH(), 256)
    h, hmac = lib_hash(lib), lib_hmac(lib)
    exp = _hx("""1F66B5B84B7339674533F0329C74F21834281FED0732429E0C79235FC273E269
                 4C0E74B2CD5811AD21F23DE7E0FA742C3ED6EC483C461CE15C33A77AA308B7D2
                 0F51D91347617C20BD4AB07AEF4F26A1AD1362A8F9A3D42FBE1B8E6F1C88AAD5
                 0A4E8298BE0839E46F19409F637F4415572251DD0D39284F0F0390D93BBCE9EC
                 F81B29D571F6452FF8B2B97F57E18A58BC946FEE45EAB32B06FCAC23A33F422B
                 C431B41BBE8E802288737ACF45A29251FC736A3C6F478F77A7ED271D5EEDAA58
                 E98309303623AFD33017C42BC6D43C15438446EE57D46E412EFC0B61B5FBA39E
                 D37BABE50BFEEB8ED162BB1393D46FB43534A201EB3B1A5C085DC5068ED6F89A""")
    g = CTR(h, H[128:160], H[192:224])
    out = g.step(H[:96])
    iv3 = g.iv()
    out += g.step(H[96:256])
    if out != exp:
        raise Harness("ref.brng selftest B.2 (CTR) failed: " + out.hex())
    if iv3 != _hx("C132971343FC9A48A02A885F194B09A17ECDA4D01544AF8CA58450BF66D2E88A"):
        raise Harness("ref.brng selftest B.2 (CTR iv) failed: " + iv3.hex())
    o2, iv2 = ctr_rand(h, H[128:160], H[192:224], H[:96])
    if o2 != exp[:96] or iv2 != iv3:
        raise Harness("ref.brng selftest B.2 (one-shot) failed")
    exp = _hx("""AF907A0E470A3A1B268ECCCCC0B90F239FE94A2DC6E014179FC789CB3C3887E4
                 695C6B96B84948F8D76924E22260859DB9B5FE757BEDA2E17103EE44655A9FEF
                 648077CCC5002E0561C6EF512C513B8C24B4F3A157221CFBC1597E969778C1E4""")
    g = HMACGen(hmac, H[128:160], H[192:224])
    out = g.step(32) + g.step(11) + g.step(19) + g.step(2) + g.step(32)
    if out != exp or hmac_rand(hmac, H[128:160], H[192:224], 96) != exp:
        raise Harness("ref.brng selftest B.4 (HMAC) failed: " + out.hex())
    if hmac_rand(hmac, H[128:129], H[192:193], 2) != _hx("42B1"):
        raise Harness("ref.brng selftest short key/iv (HMAC) failed")
    return True
