"""Naive reference model of STB 34.101.31 (belt) + HMAC[belt-hash] (STB 34.101.47) + PBKDF2 (STB 34.101.45, E).

Written from the algorithm descriptions of the standard as summarised in
include/bee2/crypto/belt.h; plain `bytes` and `int` only.  On purpose NOT bee2's
implementation strategy:

* the round function applies the published S-box H octet by octet and rotates (no H5/H13/H21/H29 tables);
* belt-wblock is the literal formulation (sum of r_1..r_{n-1}, ShLo^128 / ShHi^128 of the whole string),
  one code path for every length (no Base/Opt split, no two-buffer variant);
* GF(2^128) multiplication (DWP, CHE) is shift-and-add bit by bit followed by bitwise reduction
  modulo x^128 + x^7 + x^2 + x + 1; "multiply by C" (CHE, BDE) is that same multiplication by x;
* 128-bit counters and length blocks are Python ints;
* belt-fmt uses Python int radix conversion and the exact block count
  b = ceil(bitlen(mod^n - 1) / 64)   ( = ceil(n log2(mod) / 64) ).

The only data shared with bee2 are the S-box H (published in the standard; also the source of the standard's
initial values) and the six belt-keyrep constants.

Conventions copied from the C code because belt.h is silent about them (each anchored by an appendix vector):
* belt-fmt tweak layout  <mod>_16 || <count>_16 || S || <mod>_16 || <count>_16  split into six 32-bit words,
  paired with the six 32-bit words H[0..24) (test A.26, three sub-tests incl. mod = 65536 -> <0>_16);
* belt-32block (three-branch 64-bit Feistel-like network on a 192-bit block) (test A.26-2/3);
* beltWBLStepR: round counters continue 2n+1..4n, ... (documented in belt.h).

selftest() replays every vector of Appendix A (and B.1 of STB 34.101.47, E.5 of STB 34.101.45) that
/repo/test/crypto/belt_test.c and bign_test.c embed; inputs there are slices of the H table.
"""

H = bytes.fromhex(
    "B194BAC80A08F53B366D008E584A5DE4" "8504FA9D1BB6C7AC252E72C202FDCE0D"
    "5BE3D61217B96181FE6786AD716B890B" "5CB0C0FF33C356B835C405AED8E07F99"
    "E12BDC1AE28257EC703FCCF095EE8DF1" "C1AB76389FE678CAF7C6F860D5BB9C4F"
    "F33C657B637C306ADD4EA7799EB23D31" "3E98B56E27D3BCCF591E181F4C5AB793"
    "E9DEE72C8F0C0FA62DDB49F46F739647" "06075316ED247A3739CBA38303A98BF6"
    "92BD9B1CE5D141015445FBC95E4D0EF2" "682080AA227D642F2687F93490405511"
    "BE32971343FC9A48A02A885F194B09A1" "7ECDA4D01544AF8CA58450BF66D2E88A"
    "A2D7465242A8DFB36974C551EB232921" "D4EFD9B43A622875911410EA776CDA1D")

M32 = 0xFFFFFFFF
M128 = (1 << 128) - 1


def h_gen():
    """H rebuilt from its generating rule (belt_test.c: H[10] = 0, H[11 + x] = 0x8E * 0x02^(116 x))"""
    t = [0] * 256
    t[10], t[11] = 0, 0x8E
    for x in range(12, 10 + 256):
        v = t[(x - 1) % 256]
        for _ in range(116):
            v = (v >> 1) | ((bin(v & 0x63).count("1") & 1) << 7)
        t[x % 256] = v & 255
    return bytes(t)


# ---------------------------------------------------------------------------
# helpers
# ---------------------------------------------------------------------------

def _w(b):
    return [int.from_bytes(b[i:i + 4], "little") for i in range(0, len(b), 4)]


def _b(ws):
    return b"".join((w & M32).to_bytes(4, "little") for w in ws)


def xor(a, b):
    """xor of two octet strings of the same length"""
    if len(a) != len(b):
        raise ValueError("xor: lengths %d %d" % (len(a), len(b)))
    return bytes(x ^ y for x, y in zip(a, b))


def _blocks(x, size=16):
    """split into blocks of `size` octets, last one 1..size octets (none for the empty string)"""
    return [x[i:i + size] for i in range(0, len(x), size)]


# ---------------------------------------------------------------------------
# belt-keyexpand, belt-block
# ---------------------------------------------------------------------------

def key_expand(key):
    key = bytes(key)
    if len(key) == 32:
        return key
    if len(key) == 16:
        return key + key
    if len(key) == 24:
        t = _w(key)
        return key + _b([t[0] ^ t[1] ^ t[2], t[3] ^ t[4] ^ t[5]])
    raise ValueError("key length %d" % len(key))


def G(r, u):
    """G_r(u) = RotHi^r(H(u_1) || H(u_2) || H(u_3) || H(u_4))"""
    v = H[u & 255] | (H[(u >> 8) & 255] << 8) | (H[(u >> 16) & 255] << 16) | (H[(u >> 24) & 255] << 24)
    return ((v << r) | (v >> (32 - r))) & M32


def block_encr(x, key):
    """belt-block, encryption; key of 16/24/32 octets"""
    if len(x) != 16:
        raise ValueError("block length")
    K = _w(key_expand(key))          # theta_1..theta_8 ; K_t = theta_((t-1) mod 8 + 1)
    a, b, c, d = _w(x)
    for i in range(1, 9):
        k = [K[(7 * i - 6 + j - 1) % 8] for j in range(7)]     # K[7i-6] .. K[7i]
        b ^= G(5, (a + k[0]) & M32)
        c ^= G(21, (d + k[1]) & M32)
        a = (a - G(13, (b + k[2]) & M32)) & M32
        e = G(21, (b + c + k[3]) & M32) ^ i
        b = (b + e) & M32
        c = (c - e) & M32
        d = (d + G(13, (c + k[4]) & M32)) & M32
        b ^= G(21, (a + k[5]) & M32)
        c ^= G(5, (d + k[6]) & M32)
        a, b = b, a
        c, d = d, c
        b, c = c, b
    return _b([b, d, a, c])


def block_decr(x, key):
    """belt-block, decryption"""
    if len(x) != 16:
        raise ValueError("block length")
    K = _w(key_expand(key))
    a, b, c, d = _w(x)
    for i in range(8, 0, -1):
        k = [K[(7 * i - j - 1) % 8] for j in range(7)]         # K[7i], K[7i-1], .., K[7i-6]
        b ^= G(5, (a + k[0]) & M32)
        c ^= G(21, (d + k[1]) & M32)
        a = (a - G(13, (b + k[2]) & M32)) & M32
        e = G(21, (b + c + k[3]) & M32) ^ i
        b = (b + e) & M32
        c = (c - e) & M32
        d = (d + G(13, (c + k[4]) & M32)) & M32
        b ^= G(21, (a + k[5]) & M32)
        c ^= G(5, (d + k[6]) & M32)
        a, b = b, a
        c, d = d, c
        a, d = d, a
    return _b([c, a, d, b])


# ---------------------------------------------------------------------------
# belt-wblock
# ---------------------------------------------------------------------------

def wblock_encr(x, key, first_round=1):
    """belt-wblock encryption of >= 32 octets.  r = r_1 || .. || r_n, n = ceil(|r|/128), r_1..r_{n-1} full blocks,
    r* = the last 128 bits of r.  Rounds i = first_round .. first_round + 2n - 1 (first_round = 1 in the standard;
    beltWBLStepR continues the numbering)."""
    cnt = len(x)
    if cnt < 32:
        raise ValueError("wblock length")
    n = (cnt + 15) // 16
    r = bytes(x)
    for i in range(first_round, first_round + 2 * n):
        s = bytes(16)
        for j in range(n - 1):
            s = xor(s, r[16 * j:16 * j + 16])
        t = xor(xor(r[cnt - 16:], block_encr(s, key)), i.to_bytes(16, "little"))
        r = r[:cnt - 16] + t                 # r* <- r* + belt-block(s) + <i>_128
        r = r[16:] + bytes(16)               # r <- ShLo^128(r)
        r = r[:cnt - 16] + s                 # r* <- s
    return r


def wblock_decr(x, key):
    cnt = len(x)
    if cnt < 32:
        raise ValueError("wblock length")
    n = (cnt + 15) // 16
    r = bytes(x)
    for i in range(2 * n, 0, -1):
        s = r[cnt - 16:]                     # s <- r*
        r = bytes(16) + r[:cnt - 16]         # r <- ShHi^128(r)
        t = xor(xor(r[cnt - 16:], block_encr(s, key)), i.to_bytes(16, "little"))
        r = r[:cnt - 16] + t                 # r* <- r* + belt-block(s) + <i>_128
        for j in range(1, n - 1):            # r_1 <- s + r_2 + .. + r_{n-1}
            s = xor(s, r[16 * j:16 * j + 16])
        r = s + r[16:]
    return r


# ---------------------------------------------------------------------------
# belt-compress, belt-hash
# ---------------------------------------------------------------------------

def compress(x):
    """belt-compress of X = X1||X2||X3||X4 (64 octets): returns (S, Y) with S of 16 and Y of 32 octets"""
    if len(x) != 64:
        raise ValueError("compress length")
    x1, x2, x3, x4 = x[0:16], x[16:32], x[32:48], x[48:64]
    s = xor(block_encr(xor(x3, x4), x1 + x2), xor(x3, x4))
    y1 = xor(block_encr(x1, s + x4), x1)
    y2 = xor(block_encr(x2, bytes(v ^ 0xFF for v in s) + x3), x2)
    return s, y1 + y2


def hash(x):
    """belt-hash"""
    s = bytes(16)
    h = H[0:32]
    for blk in _blocks(x, 32):
        blk = blk + bytes(32 - len(blk))
        t, h = compress(blk + h)
        s = xor(s, t)
    ln = (8 * len(x)) & M128
    return compress(ln.to_bytes(16, "little") + s + h)[1]


# ---------------------------------------------------------------------------
# ECB, CBC (ciphertext stealing), CFB, CTR
# ---------------------------------------------------------------------------

def ecb_encr(x, key):
    if len(x) < 16:
        raise ValueError("ecb length")
    X = _blocks(x)
    n = len(X)
    if len(X[-1]) == 16:
        return b"".join(block_encr(b, key) for b in X)
    Y = [block_encr(b, key) for b in X[:n - 2]]
    t = block_encr(X[n - 2], key)
    m = len(X[n - 1])
    yn, r = t[:m], t[m:]
    Y.append(block_encr(X[n - 1] + r, key))
    Y.append(yn)
    return b"".join(Y)


def ecb_decr(y, key):
    if len(y) < 16:
        raise ValueError("ecb length")
    Y = _blocks(y)
    n = len(Y)
    if len(Y[-1]) == 16:
        return b"".join(block_decr(b, key) for b in Y)
    X = [block_decr(b, key) for b in Y[:n - 2]]
    t = block_decr(Y[n - 2], key)
    m = len(Y[n - 1])
    xn, r = t[:m], t[m:]
    X.append(block_decr(Y[n - 1] + r, key))
    X.append(xn)
    return b"".join(X)


def cbc_encr(x, key, iv):
    if len(x) < 16 or len(iv) != 16:
        raise ValueError("cbc length")
    X = _blocks(x)
    n = len(X)
    prev = bytes(iv)
    Y = []
    full = n if len(X[-1]) == 16 else n - 2
    for b in X[:full]:
        prev = block_encr(xor(b, prev), key)
        Y.append(prev)
    if full == n:
        return b"".join(Y)
    t = block_encr(xor(X[n - 2], prev), key)
    m = len(X[n - 1])
    yn, r = t[:m], t[m:]
    Y.append(block_encr(xor(X[n - 1], yn) + r, key))
    Y.append(yn)
    return b"".join(Y)


def cbc_decr(y, key, iv):
    if len(y) < 16 or len(iv) != 16:
        raise ValueError("cbc length")
    Y = _blocks(y)
    n = len(Y)
    prev = bytes(iv)
    X = []
    full = n if len(Y[-1]) == 16 else n - 2
    for b in Y[:full]:
        X.append(xor(block_decr(b, key), prev))
        prev = b
    if full == n:
        return b"".join(X)
    m = len(Y[n - 1])
    t = block_decr(Y[n - 2], key)                 # = (X_n + Y_n) || r
    xn, r = xor(t[:m], Y[n - 1]), t[m:]
    X.append(xor(block_decr(Y[n - 1] + r, key), prev))
    X.append(xn)
    return b"".join(X)


def cfb_encr(x, key, iv):
    prev = bytes(iv)
    out = []
    for b in _blocks(x):
        prev = xor(b, block_encr(prev, key)[:len(b)])
        out.append(prev)
    return b"".join(out)


def cfb_decr(y, key, iv):
    prev = bytes(iv)
    out = []
    for b in _blocks(y):
        out.append(xor(b, block_encr(prev, key)[:len(b)]))
        prev = b
    return b"".join(out)


def ctr(x, key, iv):
    s = int.from_bytes(block_encr(iv, key), "little")
    out = []
    for b in _blocks(x):
        s = (s + 1) & M128
        out.append(xor(b, block_encr(s.to_bytes(16, "little"), key)[:len(b)]))
    return b"".join(out)


# ---------------------------------------------------------------------------
# belt-mac
# ---------------------------------------------------------------------------

def mac(x, key):
    s = bytes(16)
    r = block_encr(bytes(16), key)
    r1, r2, r3, r4 = r[0:4], r[4:8], r[8:12], r[12:16]
    X = _blocks(x)
    for b in X[:-1]:
        s = block_encr(xor(s, b), key)
    last = X[-1] if X else b""
    if len(last) == 16:
        s = xor(xor(s, last), r2 + r3 + r4 + xor(r1, r2))                    # phi_1
    else:
        psi = last + b"\x80" + bytes(15 - len(last))
        s = xor(xor(s, psi), xor(r1, r4) + r1 + r2 + r3)                     # phi_2
    return block_encr(s, key)[:8]


# ---------------------------------------------------------------------------
# GF(2^128), DWP, CHE
# ---------------------------------------------------------------------------

def gf_mul(a, b):
    """a(x) b(x) mod x^128 + x^7 + x^2 + x + 1; bit i of the little-endian number = coefficient of x^i"""
    p = 0
    for i in range(128):
        if (b >> i) & 1:
            p ^= a << i
    for i in range(255, 127, -1):
        if (p >> i) & 1:
            p ^= (1 << i) | (0x87 << (i - 128))
    return p


def _gf_mul_bytes(a, b):
    return gf_mul(int.from_bytes(a, "little"), int.from_bytes(b, "little")).to_bytes(16, "little")


def _pad16(b):
    return b + bytes(16 - len(b))


def _lenblock(i, x):
    return ((8 * len(i)) & (2 ** 64 - 1)).to_bytes(8, "little") + ((8 * len(x)) & (2 ** 64 - 1)).to_bytes(8, "little")


def dwp_mac(y, i, key, iv):
    """tag over (public data i, ciphertext y)"""
    s = block_encr(iv, key)
    r = block_encr(s, key)
    t = H[0:16]
    for b in _blocks(i):
        t = _gf_mul_bytes(xor(t, _pad16(b)), r)
    for b in _blocks(y):
        t = _gf_mul_bytes(xor(t, _pad16(b)), r)
    t = _gf_mul_bytes(xor(t, _lenblock(i, y)), r)
    return block_encr(t, key)[:8]


def dwp_wrap(x, i, key, iv):
    y = ctr(x, key, iv)
    return y, dwp_mac(y, i, key, iv)


def dwp_unwrap(y, i, tag, key, iv):
    """plaintext, or None if the tag does not verify"""
    if dwp_mac(y, i, key, iv) != bytes(tag):
        return None
    return ctr(y, key, iv)


def che_crypt(x, key, iv):
    s = int.from_bytes(block_encr(iv, key), "little")
    out = []
    for b in _blocks(x):
        s = gf_mul(s, 2) ^ 1                                               # s <- (s * C) + <1>_128, C = x
        out.append(xor(b, block_encr(s.to_bytes(16, "little"), key)[:len(b)]))
    return b"".join(out)


def che_mac(y, i, key, iv):
    r = block_encr(iv, key)
    t = H[0:16]
    for b in _blocks(i):
        t = _gf_mul_bytes(xor(t, _pad16(b)), r)
    for b in _blocks(y):
        t = _gf_mul_bytes(xor(t, _pad16(b)), r)
    t = _gf_mul_bytes(xor(t, _lenblock(i, y)), r)
    return block_encr(t, key)[:8]


def che_wrap(x, i, key, iv):
    y = che_crypt(x, key, iv)
    return y, che_mac(y, i, key, iv)


def che_unwrap(y, i, tag, key, iv):
    if che_mac(y, i, key, iv) != bytes(tag):
        return None
    return che_crypt(y, key, iv)


# ---------------------------------------------------------------------------
# KWP
# ---------------------------------------------------------------------------

def kwp_wrap(x, header, key):
    if len(x) < 16:
        raise ValueError("kwp length")
    header = bytes(16) if header is None else bytes(header)
    return wblock_encr(bytes(x) + header, key)


def kwp_unwrap(y, header, key):
    """key, or None if the header does not match"""
    if len(y) < 32:
        raise ValueError("kwp length")
    header = bytes(16) if header is None else bytes(header)
    t = wblock_decr(y, key)
    if t[len(y) - 16:] != header:
        return None
    return t[:len(y) - 16]


# ---------------------------------------------------------------------------
# disk encryption: BDE, SDE
# ---------------------------------------------------------------------------

def bde_encr(x, key, iv):
    if len(x) % 16 or len(x) < 16:
        raise ValueError("bde length")
    s = int.from_bytes(block_encr(iv, key), "little")
    out = []
    for b in _blocks(x):
        s = gf_mul(s, 2)
        sb = s.to_bytes(16, "little")
        out.append(xor(block_encr(xor(b, sb), key), sb))
    return b"".join(out)


def bde_decr(y, key, iv):
    if len(y) % 16 or len(y) < 16:
        raise ValueError("bde length")
    s = int.from_bytes(block_encr(iv, key), "little")
    out = []
    for b in _blocks(y):
        s = gf_mul(s, 2)
        sb = s.to_bytes(16, "little")
        out.append(xor(block_decr(xor(b, sb), key), sb))
    return b"".join(out)


def sde_encr(x, key, iv):
    if len(x) % 16 or len(x) < 32:
        raise ValueError("sde length")
    s = block_encr(iv, key)
    t = wblock_encr(xor(x[:16], s) + x[16:], key)
    return xor(t[:16], s) + t[16:]


def sde_decr(y, key, iv):
    if len(y) % 16 or len(y) < 32:
        raise ValueError("sde length")
    s = block_encr(iv, key)
    t = wblock_decr(xor(y[:16], s) + y[16:], key)
    return xor(t[:16], s) + t[16:]


# ---------------------------------------------------------------------------
# FMT
# ---------------------------------------------------------------------------

def fmt_b(mod, n):
    """minimal number of 64-bit blocks holding any word of ZZ_mod^n: ceil(bitlen(mod^n - 1) / 64)"""
    return ((mod ** n - 1).bit_length() + 63) // 64


def block32_encr(x, key):
    """belt-32block on 24 octets a || b || c (8 octets each)"""
    if len(x) != 24:
        raise ValueError("32block length")
    a, b, c = x[0:8], x[8:16], x[16:24]

    def one(i):
        return i.to_bytes(8, "little")
    t = block_encr(b + c, key)
    b, c = xor(t[:8], one(1)), t[8:]
    a = xor(a, b)
    t = block_encr(c + a, key)
    c, a = xor(t[:8], one(2)), t[8:]
    b = xor(b, c)
    t = block_encr(a + b, key)
    a, b = xor(t[:8], one(3)), t[8:]
    c = xor(c, a)
    return a + b + c


def _fmt_F(mod, src, b, const4, tweak4, key):
    """the round function: word of ZZ_mod^k (src, least significant digit first) -> integer"""
    v = 0
    for dgt in reversed(src):
        v = v * mod + dgt
    buf = v.to_bytes(8 * b, "little") + const4 + tweak4
    if b == 1:
        buf = block_encr(buf, key)
    elif b == 2:
        buf = block32_encr(buf, key)
    else:
        buf = wblock_encr(buf, key)
    return int.from_bytes(buf, "little")


def _fmt_add(mod, dst, v, sign):
    out = []
    for dgt in dst:
        out.append((dgt + sign * (v % mod)) % mod)
        v //= mod
    return out


def _fmt_setup(mod, x, iv, b12):
    n = len(x)
    if not (2 <= mod <= 65536) or n < 2:
        raise ValueError("fmt domain")
    if any(not (0 <= d < mod) for d in x):
        raise ValueError("fmt digit")
    n1, n2 = (n + 1) // 2, n // 2
    b1, b2 = b12 if b12 else (fmt_b(mod, n1), fmt_b(mod, n2))
    iv = bytes(16) if iv is None else bytes(iv)
    fmt = (mod & 0xFFFF).to_bytes(2, "little") + (n & 0xFFFF).to_bytes(2, "little")
    tw = fmt + iv + fmt
    return n1, n2, b1, b2, tw


def fmt_encr(mod, x, key, iv=None, b12=None):
    """belt-fmt encryption of the word x (list of ints in [0, mod)).  b12 = (b1, b2) overrides the block counts
    (used only to diagnose a wrong block count in the implementation)."""
    n1, n2, b1, b2, tw = _fmt_setup(mod, x, iv, b12)
    x1, x2 = list(x[:n1]), list(x[n1:])
    for i in range(3):
        x1 = _fmt_add(mod, x1, _fmt_F(mod, x2, b2, H[8 * i:8 * i + 4], tw[8 * i:8 * i + 4], key), +1)
        x2 = _fmt_add(mod, x2, _fmt_F(mod, x1, b1, H[8 * i + 4:8 * i + 8], tw[8 * i + 4:8 * i + 8], key), +1)
    return x1 + x2


def fmt_decr(mod, y, key, iv=None, b12=None):
    n1, n2, b1, b2, tw = _fmt_setup(mod, y, iv, b12)
    x1, x2 = list(y[:n1]), list(y[n1:])
    for i in (2, 1, 0):
        x2 = _fmt_add(mod, x2, _fmt_F(mod, x1, b1, H[8 * i + 4:8 * i + 8], tw[8 * i + 4:8 * i + 8], key), -1)
        x1 = _fmt_add(mod, x1, _fmt_F(mod, x2, b2, H[8 * i:8 * i + 4], tw[8 * i:8 * i + 4], key), -1)
    return x1 + x2


# ---------------------------------------------------------------------------
# belt-keyrep, HMAC, PBKDF2
# ---------------------------------------------------------------------------

KRP_R = {  # (n, m) in octets -> r (constants of belt-keyrep)
    (16, 16): "B194BAC8",
    (24, 16): "5BE3D612", (24, 24): "5CB0C0FF",
    (32, 16): "E12BDC1A", (32, 24): "C1AB7638", (32, 32): "F33C657B",
}


def krp(key, level, header, m):
    n = len(key)
    if (n, m) not in KRP_R or len(level) != 12 or len(header) != 16:
        raise ValueError("krp domain")
    r = bytes.fromhex(KRP_R[(n, m)])
    return compress(r + bytes(level) + bytes(header) + key_expand(key))[1][:m]


def hmac(key, x):
    key = bytes(key)
    if len(key) > 32:
        key = hash(key)
    key = key + bytes(32 - len(key))
    inner = hash(bytes(v ^ 0x36 for v in key) + bytes(x))
    return hash(bytes(v ^ 0x5C for v in key) + inner)


def pbkdf2(pwd, iters, salt):
    if iters < 1:
        raise ValueError("iter")
    u = hmac(pwd, bytes(salt) + b"\x00\x00\x00\x01")
    key = u
    for _ in range(iters - 1):
        u = hmac(pwd, u)
        key = xor(key, u)
    return key


# ---------------------------------------------------------------------------
# self-test: Appendix A of STB 34.101.31 as embedded in /repo/test/crypto/belt_test.c
# ---------------------------------------------------------------------------

class SelfTestError(Exception):
    pass


def _eq(name, got, exp):
    if isinstance(exp, str):
        exp = bytes.fromhex(exp)
    if got != exp:
        raise SelfTestError("belt model self-test %s: got %r expected %r" % (
            name, got.hex() if isinstance(got, (bytes, bytearray)) else got,
            exp.hex() if isinstance(exp, (bytes, bytearray)) else exp))


def selftest(deep=False):
    """Raises SelfTestError on the first mismatch.  deep=True adds the 10000- and 2048-iteration PBKDF2 vectors
    (about half a minute of pure Python)."""
    h = H
    if len(h) != 256 or sorted(h) != list(range(256)):
        raise SelfTestError("H is not a permutation of 256 octets")
    _eq("H-gen", h_gen(), h)
    K1, K2 = h[128:160], h[160:192]
    S1, S2 = h[192:208], h[208:224]
    # A.1, A.4 belt-block
    _eq("A.1", block_encr(h[0:16], K1), "69CCA1C93557C9E3D66BC3E0FA88FA6E")
    _eq("A.1-inv", block_decr(bytes.fromhex("69CCA1C93557C9E3D66BC3E0FA88FA6E"), K1), h[0:16])
    _eq("A.4", block_decr(h[64:80], K2), "0DC5300600CAB840B38448E5E993F421")
    _eq("A.4-inv", block_encr(bytes.fromhex("0DC5300600CAB840B38448E5E993F421"), K2), h[64:80])
    # A.6, A.7 belt-wblock
    a61 = ("49A38EE108D6C742E52B774F00A6EF98" "B106CBD13EA4FB0680323051BC04DF76" "E487B055C69BCF541176169F1DC9F6C8")
    _eq("A.6-1", wblock_encr(h[0:48], K1), a61)
    _eq("A.6-2", wblock_encr(h[0:47], K1),
        "F08EF22DCAA06C81FB12721974221CA7" "AB82C62856FCF2F9FCA006E019A28F16" "E5821A51F573594625DBAB8F6A5C94")
    a71 = ("92632EE0C21AD9E09A39343E5C07DAA4" "889B03F2E6847EB152EC99F7A4D9F154" "B5EF68D8E4A39E567153DE13D72254EE")
    _eq("A.7-1", wblock_decr(h[64:112], K2), a71)
    _eq("A.7-2", wblock_decr(h[64:100], K2),
        "DF3F882230BAAFFC92F0566032117231" "0E3CB2182681EF43102E67175E177BD7" "5E93E4E8")
    for cnt in range(32, 129):                                 # "special": D(E(x)) = x for every length 32..128
        _eq("wbl-inv-%d" % cnt, wblock_decr(wblock_encr(h[0:cnt], K1), K1), h[0:cnt])
    # A.8 belt-compress
    s, y = compress(h[0:64])
    _eq("A.8-S", s, "46FE7425C9B181EB41DFEE3E72163D5A")
    _eq("A.8-Y", y, "ED2F5481D593F40D87FCE37D6BC1A2E1" "B7D1A2CC975C82D3C0497488C90D99D8")
    # A.9, A.10 ECB
    _eq("A.9-1", ecb_encr(h[0:48], K1),
        "69CCA1C93557C9E3D66BC3E0FA88FA6E" "5F23102EF109710775017F73806DA9DC" "46FB2ED2CE771F26DCB5E5D1569F9AB0")
    _eq("A.9-2", ecb_encr(h[0:47], K1),
        "69CCA1C93557C9E3D66BC3E0FA88FA6E" "36F00CFED6D1CA1498C12798F4BEB207" "5F23102EF109710775017F73806DA9")
    _eq("A.10-1", ecb_decr(h[64:112], K2),
        "0DC5300600CAB840B38448E5E993F421" "E55A239F2AB5C5D5FDB6E81B40938E2A" "54120CA3E6E19C7AD750FC3531DAEAB7")
    _eq("A.10-2", ecb_decr(h[64:100], K2),
        "0DC5300600CAB840B38448E5E993F421" "5780A6E2B69EAFBB258726D7B6718523" "E55A239F")
    # A.11, A.12 CBC
    _eq("A.11-1", cbc_encr(h[0:48], K1, S1),
        "10116EFAE6AD58EE14852E11DA1B8A74" "5CF2480E8D03F1C19492E53ED3A70F60" "657C1EE8C0E0AE5B58388BF8A68E3309")
    _eq("A.11-2", cbc_encr(h[0:36], K1, S1),
        "10116EFAE6AD58EE14852E11DA1B8A74" "6A9BBADCAF73F968F875DEDC0A44F6B1" "5CF2480E")
    _eq("A.12-1", cbc_decr(h[64:112], K2, S2),
        "730894D6158E17CC1600185A8F411CAB" "0471FF85C83792398D8924EBD57D03DB" "95B97A9B7907E4B020960455E46176F8")
    _eq("A.12-2", cbc_decr(h[64:100], K2, S2),
        "730894D6158E17CC1600185A8F411CAB" "B6AB7AF8541CF85755B8EA27239F08D2" "166646E4")
    # A.13, A.14 CFB
    _eq("A.13", cfb_encr(h[0:48], K1, S1),
        "C31E490A90EFA374626CC99E4B7B8540" "A6E48685464A5A06849C9CA769A1B0AE" "55C2CC5939303EC832DD2FE16C8E5A1B")
    _eq("A.14", cfb_decr(h[64:112], K2, S2),
        "FA9D107A86F375EE65CD1DB881224BD0" "16AFF814938ED39B3361ABB0BF0851B6" "52244EB06842DD4C94AA4500774E40BB")
    # A.15, A.16 CTR
    _eq("A.15", ctr(h[0:48], K1, S1),
        "52C9AF96FF50F64435FC43DEF56BD797" "D5B5B1FF79FB41257AB9CDF6E63E81F8" "F00341473EAE409833622DE05213773A")
    _eq("A.16", ctr(h[64:108], K2, S2),
        "DF181ED008A20F43DCBBB93650DAD34B" "389CDEE5826D40E2D4BD80F49A93F5D2" "12F6333166456F169043CC5F")
    # A.17 MAC
    _eq("A.17-1", mac(h[0:13], K1), "7260DA60138F96C9")
    _eq("A.17-2", mac(h[0:48], K1), "2DAB59771B4B16D0")
    # A.19, A.20 DWP / CHE
    y, t = dwp_wrap(h[0:16], h[16:48], K1, S1)
    _eq("A.19-1-Y", y, "52C9AF96FF50F64435FC43DEF56BD797")
    _eq("A.19-1-T", t, "3B2E0AEB2B91854B")
    y, t = che_wrap(h[0:15], h[16:48], K1, S1)
    _eq("A.19-2-Y", y, "BF3DAEAF5D18D2BCC30EA62D2E70A4")
    _eq("A.19-2-T", t, "548622B844123FF7")
    _eq("A.20-1-T", dwp_mac(h[64:80], h[80:112], K2, S2), "6A2C2C94C4150DC0")
    _eq("A.20-1-X", dwp_unwrap(h[64:80], h[80:112], bytes.fromhex("6A2C2C94C4150DC0"), K2, S2),
        "DF181ED008A20F43DCBBB93650DAD34B")
    _eq("A.20-2-T", che_mac(h[64:84], h[80:112], K2, S2), "7D9D4F59D40D197D")
    _eq("A.20-2-X", che_unwrap(h[64:84], h[80:112], bytes.fromhex("7D9D4F59D40D197D"), K2, S2),
        "2BABF43EB37B5398A9068F31A3C758B762F44AA9")
    if dwp_unwrap(h[64:80], h[80:112], bytes.fromhex("6A2C2C94C4150DC1"), K2, S2) is not None:
        raise SelfTestError("dwp_unwrap accepts a wrong tag")
    # A.21, A.22 KWP
    _eq("A.21", kwp_wrap(h[0:32], h[32:48], K1), a61)
    _eq("A.22", kwp_unwrap(h[64:112], bytes.fromhex("B5EF68D8E4A39E567153DE13D72254EE"), K2),
        "92632EE0C21AD9E09A39343E5C07DAA4" "889B03F2E6847EB152EC99F7A4D9F154")
    if kwp_unwrap(h[64:112], bytes(16), K2) is not None:
        raise SelfTestError("kwp_unwrap accepts a wrong header")
    # A.23 hash
    _eq("A.23-1", hash(h[0:13]), "ABEF9725D4C5A83597A367D14494CC25" "42F20F659DDFECC961A3EC550CBA8C75")
    _eq("A.23-2", hash(h[0:32]), "749E4C3653AECE5E48DB4761227742EB" "6DBE13F4A80F7BEFF1A9CF8D10EE7786")
    _eq("A.23-3", hash(h[0:48]), "9D02EE446FB6A29FE5C982D4B13AF9D3" "E90861BC4CEF27CF306BFB0B174A154A")
    # A.24, A.25 BDE / SDE
    a241 = "E9CAB32D879CC50C10378EB07C10F263" "07257E2DBE2B854CBC9F38282D59D6A7" "7F952001C5D1244F53210A27C216D4BB"
    _eq("A.24-1", bde_encr(h[0:48], K1, S1), a241)
    _eq("A.24-1-inv", bde_decr(bytes.fromhex(a241), K1, S1), h[0:48])
    a251 = "7041BC226352C706D00EA8EF23CFE46A" "FAE118577D037FACDC36E4ECC1F65746" "09F236943FB809E1BEE4A1C686C13ACC"
    _eq("A.25-1", bde_decr(h[64:112], K2, S2), a251)
    _eq("A.25-1-inv", bde_encr(bytes.fromhex(a251), K2, S2), h[64:112])
    a242 = "1FCBB01852003D60B66024C508608BAA" "2C21AF1E884CF31154D3077D4643CF22" "49EB2F5A68E4BA019D90211A81D690D9"
    _eq("A.24-2", sde_encr(h[0:48], K1, S1), a242)
    _eq("A.24-2-inv", sde_decr(bytes.fromhex(a242), K1, S1), h[0:48])
    a252 = "E9FDF3F788657332E6C46FCF5251B8A6" "D43543A93E3233837DB1571183A6EF4D" "7FEB5CDF999E1A3F51A5A3381BEB7FA5"
    _eq("A.25-2", sde_decr(h[64:112], K2, S2), a252)
    _eq("A.25-2-inv", sde_encr(bytes.fromhex(a252), K2, S2), h[64:112])
    # A.26 FMT
    st = list(range(21))
    v1 = [6, 9, 3, 4, 7, 7, 0, 3, 5, 2]
    v2 = [7, 4, 6, 21, 49, 55, 24, 23, 22, 50, 27, 39, 24, 24, 17, 32, 57, 43, 26, 5, 29]
    v3 = [14290, 31359, 58054, 51842, 44653, 34762, 28652, 48929, 6541, 13788, 7784, 46182, 61098, 43056, 3564,
          21568, 63878]
    for name, mod, cnt, exp in (("A.26-1", 10, 10, v1), ("A.26-2", 58, 21, v2), ("A.26-3", 65536, 17, v3)):
        if fmt_encr(mod, st[:cnt], K1, S1) != exp:
            raise SelfTestError("belt model self-test %s" % name)
        if fmt_decr(mod, exp, K1, S1) != st[:cnt]:
            raise SelfTestError("belt model self-test %s-inv" % name)
    for mod, cnt, iv in ((9, 9, S1), (11, 11, None), (256, 16, S1), (257, 17, S1), (49667, 9, S1)):
        if fmt_decr(mod, fmt_encr(mod, st[:cnt], K1, iv), K1, iv) != st[:cnt]:
            raise SelfTestError("belt model self-test fmt-inv-%d" % mod)
    if (fmt_b(10, 5), fmt_b(58, 11), fmt_b(58, 10), fmt_b(65536, 9), fmt_b(65536, 8), fmt_b(2, 64), fmt_b(2, 65)) != \
            (1, 2, 1, 3, 2, 1, 2):
        raise SelfTestError("fmt_b")
    # A.27 keyexpand
    _eq("A.27-1", key_expand(h[128:144]), "E9DEE72C8F0C0FA62DDB49F46F739647" "E9DEE72C8F0C0FA62DDB49F46F739647")
    _eq("A.27-2", key_expand(h[128:152]), "E9DEE72C8F0C0FA62DDB49F46F739647" "06075316ED247A374B09A17E8450BF66")
    # A.28 keyrep
    lvl = b"\x01" + bytes(11)
    _eq("A.28-1", krp(K1, lvl, h[32:48], 16), "6BBBC2336670D31AB83DAA90D52C0541")
    _eq("A.28-2", krp(K1, lvl, h[32:48], 24), "9A2532A18CBAF145398D5A95FEEA6C82" "5B9C197156A00275")
    _eq("A.28-3", krp(K1, lvl, h[32:48], 32), "76E166E6AB21256B6739397B672B8796" "14B81CF05955FC3AB09343A745C48F77")
    # keyrep constants are the documented slices of H
    for (n, m), r in KRP_R.items():
        off = 4 * (n - 16) + 2 * (m - 16)
        _eq("krp-const-%d-%d" % (n, m), bytes.fromhex(r), h[off:off + 4])
    # STB 34.101.47 B.1 HMAC
    _eq("B.1-1", hmac(h[128:157], h[192:224]), "D4828E6312B08BB83C9FA6535A463554" "9E411FD11C0D8289359A1130E930676B")
    _eq("B.1-2", hmac(h[128:160], h[192:224]), "41FFE8645AEC0612E952D2CDF8DD508F" "3E4A1D9B53F6A1DB293B19FE76B1879F")
    _eq("B.1-3", hmac(h[128:170], h[192:224]), "7D01B84D2315C332277B3653D7EC6470" "7EBA7CDFF7FF70077B1DECBD68F2A144")
    # GF(2^128): x^127 * x = x^7 + x^2 + x + 1
    if gf_mul(1 << 127, 2) != 0x87 or gf_mul(3, 3) != 5 or gf_mul(M128, 1) != M128:
        raise SelfTestError("gf_mul")
    # PBKDF2 with few iterations against its definition through hmac (structure), deep vectors below
    u1 = hmac(b"pwd", b"salt" + b"\0\0\0\1")
    _eq("pbkdf2-2", pbkdf2(b"pwd", 2, b"salt"), xor(u1, hmac(b"pwd", u1)))
    if deep:
        # STB 34.101.45 E.5 (bign_test.c): password "B194BAC80A08F53B", 10000 iterations, salt H[192..200)
        k = pbkdf2(b"B194BAC80A08F53B", 10000, h[192:200])
        _eq("E.5-key", k, "3D331BBBB1FBBB40E4BF22F6CB9A689E" "F13A77DC09ECF93291BFE42439A72E7D")
        priv = bytes.fromhex("1F66B5B84B7339674533F0329C74F218" "34281FED0732429E0C79235FC273E269")
        _eq("E.5-token", kwp_wrap(priv, None, k),
            "4EA289D5F718087DD8EDB305BA1CE898" "0E5EC3E0B56C8BF9D5C3E909CF4C14F0" "7B8204E67841A165E924945CD07F37E7")
        # bign_test.c "vs OpenSSL"
        _eq("pbkdf2-openssl-2048", pbkdf2(b"zed", 2048, bytes.fromhex("49FEFF8076CD9480")),
            "7249B4785FE68B1586D189A23E3842E4" "8705C080A3248D8F0E8C3D63A93B2670")
    return True


if __name__ == "__main__":
    import sys, time
    t0 = time.time()
    selftest(deep="--deep" in sys.argv)
    print("belt model self-test ok (%.1fs)" % (time.time() - t0))
