"""Naive affine short-Weierstrass arithmetic over GF(p) with an explicit point
at infinity (None), and helpers.  Python ints only; no tables shared with bee2."""


def inv(a, p):
    return pow(a, -1, p)


def legendre(a, p):
    a %= p
    if a == 0:
        return 0
    return 1 if pow(a, (p - 1) // 2, p) == 1 else -1


def sqrt_mod(a, p):
    """square root for p = 3 mod 4, else Tonelli-Shanks; returns None if none"""
    a %= p
    if a == 0:
        return 0
    if legendre(a, p) != 1:
        return None
    if p % 4 == 3:
        return pow(a, (p + 1) // 4, p)
    q, s = p - 1, 0
    while q % 2 == 0:
        q //= 2
        s += 1
    z = 2
    while legendre(z, p) != -1:
        z += 1
    m, c, t, r = s, pow(z, q, p), pow(a, q, p), pow(a, (q + 1) // 2, p)
    while t != 1:
        i, t2 = 0, t
        while t2 != 1:
            t2 = t2 * t2 % p
            i += 1
        b = pow(c, 1 << (m - i - 1), p)
        m, c = i, b * b % p
        t, r = t * c % p, r * b % p
    return r


class Curve:
    """y^2 = x^3 + a x + b over GF(p); O is None; points are (x, y)"""

    def __init__(self, p, a, b):
        self.p, self.a, self.b = p, a % p, b % p

    def is_on(self, P):
        if P is None:
            return True
        x, y = P
        p = self.p
        if not (0 <= x < p and 0 <= y < p):
            return False
        return (y * y - (x * x * x + self.a * x + self.b)) % p == 0

    def neg(self, P):
        if P is None:
            return None
        return (P[0], (-P[1]) % self.p)

    def add(self, P, Q):
        if P is None:
            return Q
        if Q is None:
            return P
        p = self.p
        x1, y1 = P
        x2, y2 = Q
        if x1 == x2:
            if (y1 + y2) % p == 0:
                return None
            lam = (3 * x1 * x1 + self.a) * inv(2 * y1, p) % p
        else:
            lam = (y2 - y1) * inv(x2 - x1, p) % p
        x3 = (lam * lam - x1 - x2) % p
        y3 = (lam * (x1 - x3) - y1) % p
        return (x3, y3)

    def sub(self, P, Q):
        return self.add(P, self.neg(Q))

    def dbl(self, P):
        return self.add(P, P)

    def mul(self, k, P):
        if k < 0:
            return self.mul(-k, self.neg(P))
        R = None
        Q = P
        while k:
            if k & 1:
                R = self.add(R, Q)
            Q = self.add(Q, Q)
            k >>= 1
        return R

    def mul_naive(self, k, P):
        R = None
        for _ in range(k):
            R = self.add(R, P)
        return R

    def points(self):
        """all affine points (small p only)"""
        p = self.p
        sq = {}
        for y in range(p):
            sq.setdefault(y * y % p, []).append(y)
        out = []
        for x in range(p):
            r = (x * x * x + self.a * x + self.b) % p
            for y in sq.get(r, []):
                out.append((x, y))
        return out

    def order_of(self, P, bound):
        R, n = P, 1
        while R is not None:
            R = self.add(R, P)
            n += 1
            if n > bound:
                return None
        return n

    def discriminant_nonzero(self):
        return (4 * self.a ** 3 + 27 * self.b ** 2) % self.p != 0


def is_probable_prime(n, rounds=40, _small=(2, 3, 5, 7, 11, 13, 17, 19, 23, 29, 31, 37, 41)):
    """deterministic Miller-Rabin for n < 3.3e24 (first 13 prime bases), + random bases above"""
    if n < 2:
        return False
    for q in _small:
        if n % q == 0:
            return n == q
    d, s = n - 1, 0
    while d % 2 == 0:
        d //= 2
        s += 1

    def witness(a):
        x = pow(a, d, n)
        if x == 1 or x == n - 1:
            return False
        for _ in range(s - 1):
            x = x * x % n
            if x == n - 1:
                return False
        return True

    for a in _small:
        if witness(a):
            return False
    if n >= 3317044064679887385961981:
        import random
        r = random.Random(n)
        for _ in range(rounds):
            if witness(r.randrange(2, n - 1)):
                return False
    return True
