"""DSTU 4145-2002 over GF(2^m), polynomial basis (dstu.h) — naive model on ref/ec2m.py.

Curve y^2 + xy = x^3 + A x^2 + B, base point P of odd prime order n, private key d in {1..n-1},
public key Q = -dP.  All numbers and field elements are little-endian octet strings:
field element O_OF_B(m) octets, private key O_OF_B(bitlen n) octets, signature ld/8 octets with
r in the first ld/16 and s in the second ld/16 octets (zero padded).

  hash -> field element h (5.9): the first O_OF_B(m) octets of the hash (zero padded if shorter),
         kept to m bits; h = 0 -> 1
  sign:  e in {1..n-1}; F = eP; x_F = 0 -> new e; y = h x_F; r = y truncated to bitlen(n)-1 bits;
         r = 0 -> new e; s = (e + d r) mod n; s = 0 -> new e
  verify: 0 < r, s < n; R = sP + rQ; accept iff trunc(h x_R) = r
  compress (6.9): x = 0 -> 0; else x with its lowest bit replaced by Tr(y/x)
  recover (6.10): 0 -> (0, sqrt B); else restore the lowest bit of x from Tr(x) = A (true for every
         point of the subgroup of order n), solve z^2 + z = x + A + B/x^2, pick the root with the stored trace

Conventions copied from the implementation: which octets of the hash are used (the first ones,
little-endian); a candidate for d / e is O_OF_B(bitlen n) generator octets, little-endian, kept to
bitlen(n)-1 bits (DSTU 6.3), accepted when non-zero.
"""
import ctypes
from . import ec2m

NAMES = tuple("1.2.804.2.1.1.1.1.3.1.1.1.2.%d" % i for i in range(10))
DSTU_SIZE = 64


class ParamsStruct(ctypes.Structure):
    _fields_ = [("p", ctypes.c_uint16 * 4), ("A", ctypes.c_ubyte), ("B", ctypes.c_ubyte * DSTU_SIZE),
                ("n", ctypes.c_ubyte * DSTU_SIZE), ("c", ctypes.c_uint32), ("P", ctypes.c_ubyte * (2 * DSTU_SIZE))]


PARAMS_SIZE = ctypes.sizeof(ParamsStruct)       # 272
P_OFFSET = ParamsStruct.P.offset                # 144


class Params:
    def __init__(self, raw):
        s = ParamsStruct.from_buffer_copy(raw)
        self.raw = bytes(raw)
        p = list(s.p)
        self.m = p[0]
        self.no = (self.m + 7) // 8
        f = 1 | (1 << p[0])
        for e in p[1:]:
            if e:
                f ^= 1 << e
        self.f = f
        self.A = s.A
        self.B = int.from_bytes(bytes(s.B)[:self.no], "little")
        self.n = int.from_bytes(bytes(s.n)[:self.no], "little")
        self.c = s.c
        self.nb = self.n.bit_length()
        self.order_no = (self.nb + 7) // 8
        self.F = ec2m.Field2(f)
        self.E = ec2m.Curve2(self.F, self.A, self.B)
        Pb = bytes(s.P)
        self.P = (int.from_bytes(Pb[:self.no], "little"), int.from_bytes(Pb[self.no:2 * self.no], "little"))

    def with_point(self, pt_bytes):
        raw = bytearray(self.raw)
        raw[P_OFFSET:P_OFFSET + 2 * self.no] = pt_bytes[:2 * self.no]
        return Params(bytes(raw))


def load_params(lib, name):
    pp, nm = lib.alloc(PARAMS_SIZE), lib.cstr(name)
    r = lib.dstuParamsStd(pp, nm)
    raw = lib.rd(pp, PARAMS_SIZE)
    lib.free_one(pp)
    lib.free_one(nm)
    if r != 0:
        raise ValueError("dstuParamsStd(%s) = %d" % (name, r))
    return Params(raw)


def enc_pt(P, pt):
    return pt[0].to_bytes(P.no, "little") + pt[1].to_bytes(P.no, "little")


def dec_pt(P, b):
    return (int.from_bytes(b[:P.no], "little"), int.from_bytes(b[P.no:2 * P.no], "little"))


def hash_to_field(P, h):
    v = int.from_bytes(h[:P.no], "little") & ((1 << P.m) - 1)
    return v if v else 1


def trunc(P, y):
    return y & ((1 << (P.nb - 1)) - 1)


def rand_scalar(P, tape, pos=0):
    """(value, new position): first non-zero candidate"""
    while True:
        if len(tape) < pos + P.order_no:
            raise ValueError("tape too short")
        c = int.from_bytes(tape[pos:pos + P.order_no], "little") & ((1 << (P.nb - 1)) - 1)
        pos += P.order_no
        if c:
            return c, pos


def pubkey(P, d):
    return P.E.neg(P.E.mul(d, P.P))


def sign(P, d, h, tape, ld):
    """-> (sig octets, octets consumed, candidates rejected after the scalar was accepted)"""
    hf = hash_to_field(P, h)
    pos, redo = 0, 0
    while True:
        e, pos = rand_scalar(P, tape, pos)
        Fp = P.E.mul(e, P.P)
        if Fp is None or Fp[0] == 0:
            redo += 1
            continue
        r = trunc(P, P.F.mul(hf, Fp[0]))
        if r == 0:
            redo += 1
            continue
        s = (e + d * r) % P.n
        if s == 0:
            redo += 1
            continue
        half = ld // 16
        return r.to_bytes(half, "little") + s.to_bytes(half, "little"), pos, redo


def ld_ok(P, ld):
    return ld % 16 == 0 and ld >= 16 * P.order_no


def verify(P, ld, h, sig, Qb):
    """True / False; None when Q is not on the curve"""
    half = ld // 16
    r = int.from_bytes(sig[:half], "little")
    s = int.from_bytes(sig[half:2 * half], "little")
    if not (0 < r < P.n and 0 < s < P.n):
        return False
    Q = dec_pt(P, Qb)
    if Q[0] >> P.m or Q[1] >> P.m:
        return False
    if not P.E.is_on(Q):
        return None
    R = P.E.add(P.E.mul(s, P.P), P.E.mul(r, Q))
    if R is None:
        return False
    return trunc(P, P.F.mul(hash_to_field(P, h), R[0])) == r


def compress(P, pt):
    x, y = pt
    if x == 0:
        return bytes(P.no)
    t = P.F.trace(P.F.div(y, x))
    return ((x & ~1) | t).to_bytes(P.no, "little")


def recover(P, xb):
    v = int.from_bytes(xb, "little")
    if v == 0:
        return (0, P.F.sqrt(P.B))
    F = P.F
    k = v & 1
    x = v & ~1
    if F.trace(x) != P.A:
        x |= 1
    w = x ^ P.A ^ F.div(P.B, F.mul(x, x))
    z = F.solve_quad(w)
    if z is None:
        return None
    if F.trace(z) != k:
        z ^= 1
    return (x, F.mul(x, z))


# ---- appendix B.1 as embedded in /repo/test/crypto/dstu_test.c -------------------------------

B1 = dict(d="0183F60FDF7951FF47D67193F8D073790C1C9B5A3E",
          Qx="057DE7FDE023FF929CB6AC785CE4B79CF64ABDC2DA", Qy="03E85444324BCF06AD85ABF6AD7B5F34770532B9AA",
          h="003A2EB95B7180166DDF73532EEB76EDAEF52247FF", e="01025E40BD97DB012B7A1D79DE8E12932D247F61C6",
          sig="000000000000000000000002100D86957331832B8E8C230F5BD6A332B3615ACA"
              "00000000000000000000000274EA2C0CAA014A0D80A424F59ADE7A93068D08A7")


def selftest(lib):
    bad = []
    st = ec2m.selftest()
    if st:
        bad.append("ec2m self-test: %s" % st)
    P = load_params(lib, NAMES[0])
    from . import gf2poly
    if not gf2poly.is_irreducible(P.f) or not P.E.is_on(P.P) or P.E.mul(P.n, P.P) is not None:
        bad.append("163-bit parameters")
    d = int(B1["d"], 16)
    dd, used = rand_scalar(P, d.to_bytes(P.order_no, "little"))
    if dd != d:
        bad.append("B.1 key candidate")
    Q = pubkey(P, d)
    if Q != (int(B1["Qx"], 16), int(B1["Qy"], 16)):
        bad.append("B.1 public key")
    h = bytes.fromhex(B1["h"])[::-1]
    e = int(B1["e"], 16)
    sig, used, redo = sign(P, d, h, e.to_bytes(P.order_no, "little"), 512)
    want = bytes.fromhex(B1["sig"])[::-1]
    if sig != want or redo:
        bad.append("B.1 signature")
    Qb = enc_pt(P, Q)
    if verify(P, 512, h, want, Qb) is not True:
        bad.append("B.1 verify")
    t = bytearray(want)
    t[0] ^= 1
    if verify(P, 512, h, bytes(t), Qb) is not False:
        bad.append("B.1 verify accepts a flipped bit")
    # hash reduction: octets beyond O_OF_B(m) and bits beyond m are not part of the message for the scheme
    h2 = bytearray(h + b"\xAA" * 11)
    if verify(P, 512, bytes(h2), want, Qb) is not True:
        bad.append("hash truncation (octets)")
    h2[P.no - 1] ^= 0x80
    if verify(P, 512, bytes(h2), want, Qb) is not True:
        bad.append("hash truncation (bits)")
    # compression on points of order n
    for pt in (P.P, P.E.neg(P.P), Q, P.E.neg(Q)):
        if recover(P, compress(P, pt)) != pt:
            bad.append("compress/recover round trip")
    if recover(P, compress(P, (0, P.F.sqrt(P.B)))) != (0, P.F.sqrt(P.B)) or not P.E.is_on((0, P.F.sqrt(P.B))):
        bad.append("compress/recover x = 0")
    return bad
