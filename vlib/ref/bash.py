"""Reference model of STB 34.101.77 (bash): bash-s, bash-f, the hash family
bash-hash[l] (l = 16..256 step 16) and the programmable automaton (bash-prg).

Deliberately naive: the state is a list of 24 Python ints (64-bit words,
little-endian octets), a round is the literal "eight bash-s columns, word
permutation, round constant" of the standard, the constants come from the
standard's LFSR and not from a table, the automaton works on whole strings
(Split(X, r) of the standard) and keeps no Start/Step buffering.

Octet conventions of the standard: the first bit of a bit string is the most
significant bit of the first octet.  Hence the padding "X || 01 || 0..0" of
bash-hash puts 0x40 after the data, the 8-bit command tag "t || 01" is the octet
4*t + 1 and the control bit S[r] is the mask 0x80 of octet r/8.

Anchors: appendix A of STB 34.101.77 as embedded in /repo/test/crypto/bash_test.c
(A.2 bash-f, A.3.1-11 hashing, A.4 alpha/beta/gamma, A.5.1-7, A.6) -- selftest().
Not anchored by any vector (taken from the text of the standard only): restart
with a key (commit(KEY) is done with the old buffer length, then r changes).
"""

M64 = (1 << 64) - 1


def rot_hi(w, n):
    """RotHi^n: cyclic shift of a 64-bit word towards the high bits"""
    n %= 64
    return ((w << n) | (w >> (64 - n))) & M64 if n else w


def bash_s(w0, w1, w2, m1, n1, m2, n2):
    """STB 34.101.77 6.1 (algorithm bash-s)"""
    t0 = rot_hi(w0, m1)
    w0 = w0 ^ w1 ^ w2
    t1 = w1 ^ rot_hi(w0, n1)
    w1 = t0 ^ t1
    w2 = w2 ^ rot_hi(w2, m2) ^ rot_hi(t1, n2)
    t0 = w2 ^ M64                 # not w2
    t1 = w0 | w2
    t2 = w0 & w1
    t0 = t0 | w1
    w1 = w1 ^ t1
    w2 = w2 ^ t2
    w0 = w0 ^ t0
    return w0, w1, w2


# word permutation of a round: new S = S15 S10 S9 S12 S11 S14 S13 S8 | S17 S16 S19 S18 S21 S20 S23 S22 | S6 S3 S0 S5 S2 S7 S4 S1
PERM = (15, 10, 9, 12, 11, 14, 13, 8, 17, 16, 19, 18, 21, 20, 23, 22, 6, 3, 0, 5, 2, 7, 4, 1)

C1 = int.from_bytes(bytes.fromhex("B194BAC80A08F53B"), "little")
CA = int.from_bytes(bytes.fromhex("AED8E07F99E12BDC"), "little")


def bash_f_words(S):
    """STB 34.101.77 6.2 (algorithm bash-f) on a list of 24 words"""
    S = list(S)
    C = C1
    for _ in range(24):
        m1, n1, m2, n2 = 8, 53, 14, 1
        for j in range(8):
            S[j], S[8 + j], S[16 + j] = bash_s(S[j], S[8 + j], S[16 + j], m1, n1, m2, n2)
            m1, n1, m2, n2 = 7 * m1 % 64, 7 * n1 % 64, 7 * m2 % 64, 7 * n2 % 64
        S = [S[p] for p in PERM]
        S[23] ^= C
        C = (C >> 1) ^ CA if C & 1 else C >> 1
    return S


def bash_f(block):
    """192 octets -> 192 octets"""
    if len(block) != 192:
        raise ValueError("bash-f state is 192 octets")
    S = [int.from_bytes(block[8 * i:8 * i + 8], "little") for i in range(24)]
    S = bash_f_words(S)
    return b"".join(w.to_bytes(8, "little") for w in S)


# --- hashing -------------------------------------------------------------------

def hash_rate(l):
    """buffer length in octets: r = 1536 - 4l bits"""
    return 192 - l // 2


def bash_hash(l, X):
    """STB 34.101.77 7: bash-hash of level l; returns 2l bits = l/4 octets"""
    if not (0 < l <= 256 and l % 16 == 0):
        raise ValueError("level")
    r = hash_rate(l)
    S = bytearray(192)
    S[184:192] = (l // 4).to_bytes(8, "little")
    X = bytes(X) + b"\x40"
    X += bytes(-len(X) % r)
    for i in range(0, len(X), r):
        S[:r] = X[i:i + r]
        S = bytearray(bash_f(bytes(S)))
    return bytes(S[:l // 4])


# --- programmable automaton ------------------------------------------------------

NULL, KEY, DATA, TEXT, OUT = 0, 1, 2, 3, 4


def prg_rate(l, d, keyed):
    """buffer length r in octets: keyed 1536 - l - d*l/2 bits, keyless 1536 - 2*d*l bits"""
    return (1536 - l - d * l // 2) // 8 if keyed else (1536 - 2 * d * l) // 8


class Prg:
    """bash-prg automaton, STB 34.101.77 8.  All lengths in octets."""

    def __init__(self, l, d, ann=b"", key=b""):
        """command start"""
        if l not in (128, 192, 256) or d not in (1, 2):
            raise ValueError("l, d")
        self._chk(ann, key, l)
        self.l, self.d = l, d
        S = bytearray(192)
        S[0] = len(ann) * 8 // 2 + len(key) * 8 // 32
        S[1:1 + len(ann)] = ann
        S[1 + len(ann):1 + len(ann) + len(key)] = key
        S[184:192] = (l // 4 + d).to_bytes(8, "little")
        self.S = S
        self.pos = 1 + len(ann) + len(key)
        self.keyed = len(key) != 0
        self.r = self._r()

    @staticmethod
    def _chk(ann, key, l):
        if len(ann) % 4 or len(ann) > 60 or len(key) % 4 or len(key) > 60:
            raise ValueError("announcement / key length")
        if len(key) and len(key) < l // 8:
            raise ValueError("short key")

    def _r(self):
        return prg_rate(self.l, self.d, self.keyed)

    def _f(self):
        self.S = bytearray(bash_f(bytes(self.S)))

    def _commit(self, t):
        self.S[self.pos] ^= 4 * t + 1      # t || 01
        self.S[self.r] ^= 0x80             # control bit S[r]
        self._f()
        self.pos = 0

    def restart(self, ann=b"", key=b""):
        self._chk(ann, key, self.l)
        if len(key):
            self._commit(KEY)
            self.keyed = True
            self.r = self._r()
        else:
            self._commit(NULL)
        hdr = bytes([len(ann) * 8 // 2 + len(key) * 8 // 32]) + bytes(ann) + bytes(key)
        self.pos = len(hdr)
        for i, b in enumerate(hdr):
            self.S[i] ^= b

    def _split(self, X):
        X = bytes(X)
        return [X[i:i + self.r] for i in range(0, len(X), self.r)] or [b""]

    def absorb(self, X):
        self._commit(DATA)
        for Xi in self._split(X):
            self.pos = len(Xi)
            for i, b in enumerate(Xi):
                self.S[i] ^= b
            if self.pos == self.r:
                self._f()
                self.pos = 0

    def squeeze(self, n):
        self._commit(OUT)
        Y = b""
        while len(Y) + self.r <= n:
            Y += bytes(self.S[:self.r])
            self._f()
        self.pos = n - len(Y)
        return Y + bytes(self.S[:self.pos])

    def encrypt(self, X):
        if not self.keyed:
            raise ValueError("encrypt needs the keyed mode")
        self._commit(TEXT)
        Y = b""
        for Xi in self._split(X):
            self.pos = len(Xi)
            for i, b in enumerate(Xi):
                self.S[i] ^= b
            Y += bytes(self.S[:self.pos])
            if self.pos == self.r:
                self._f()
                self.pos = 0
        return Y

    def decrypt(self, Y):
        if not self.keyed:
            raise ValueError("decrypt needs the keyed mode")
        self._commit(TEXT)
        X = b""
        for Yi in self._split(Y):
            self.pos = len(Yi)
            X += bytes(a ^ b for a, b in zip(Yi, self.S))
            self.S[:self.pos] = Yi
            if self.pos == self.r:
                self._f()
                self.pos = 0
        return X

    def ratchet(self):
        T = bytes(self.S)
        self._commit(NULL)
        self.S = bytearray(a ^ b for a, b in zip(self.S, T))


# --- self-test -------------------------------------------------------------------

def _hx(s):
    return bytes.fromhex("".join(s.split()))


def selftest(lib):
    """Appendix A of STB 34.101.77 as embedded in bash_test.c.  H = belt H table from the library
    (public constant of STB 34.101.31; only used as test *input*)."""
    from ..core import Harness
    H = lib.rd(lib.beltH(), 256)

    def need(name, got, exp):
        if bytes(got) != _hx(exp):
            raise Harness("ref.bash selftest %s failed: got %s" % (name, bytes(got).hex()))

    # A.2
    need("A.2", bash_f(H[:192]),
         "8FE727775EA7F140B95BB6A200CBB28C7F0809C0C0BC68B7DC5AEDC841BD94E4"
         "03630C301FC255DF5B67DB53EF65E376E8A4D797A6172F2271BA48093173D329"
         "C3502AC946767326A2891971392D3F7089959F5D61621238655975E00E2132A0"
         "D5018CEEDB17731CCD88FC50151D37C0D4A3359506AEDC2E6109511E7703AFBB"
         "014642348D8568AA1A5D9868C4C7E6DFA756B1690C7C2608A2DC136F5997AB8F"
         "BB3F4D9F033C87CA6070E117F099C4094972ACD9D976214B7CED8E3F8B6E058E")
    # A.3
    for name, l, n, exp in (
        ("A.3.1", 128, 0, "114C3DFAE373D9BCBC3602D6386F2D6A2059BA1BF9048DBAA5146A6CB775709D"),
        ("A.3.2", 128, 127, "3D7F4EFA00E9BA33FEED259986567DCF5C6D12D51057A968F14F06CC0F905961"),
        ("A.3.3", 128, 128, "D7F428311254B8B2D00F7F9EEFBD8F3025FA87C4BABD1BDDBE87E35B7AC80DD6"),
        ("A.3.4", 128, 135, "1393FA1B65172F2D18946AEAE576FA1CF54FDD354A0CB2974A997DC4865D3100"),
        ("A.3.5", 192, 95, "64334AF830D33F63E9ACDFA184E32522103FFF5C6860110A2CD369EDBC04387C"
                           "501D8F92F749AE4DE15A8305C353D64D"),
        ("A.3.6", 192, 96, "D06EFBC16FD6C0880CBFC6A4E3D65AB101FA82826934190FAABEBFBFFEDE93B2"
                           "2B85EA72A7FB3147A133A5A8FEBD8320"),
        ("A.3.7", 192, 108, "FF763296571E2377E71A1538070CC0DE88888606F32EEE6B082788D246686B00"
                            "FC05A17405C5517699DA44B7EF5F55AB"),
        ("A.3.8", 256, 63, "2A66C87C189C12E255239406123BDEDBF19955EAF0808B2AD705E249220845E2"
                           "0F4786FB6765D0B5C48984B1B16556EF19EA8192B985E4233D9C09508D6339E7"),
        ("A.3.9", 256, 64, "07ABBF8580E7E5A321E9B940F667AE209E2952CEF557978AE743DB086BAB4885"
                           "B708233C3F5541DF8AAFC3611482FDE498E58B3379A6622DAC2664C9C118A162"),
        ("A.3.10", 256, 127, "526073918F97928E9D15508385F42F03ADE3211A23900A30131F8A1E3E1EE21C"
                             "C09D13CFF6981101235D895746A4643F0AA62B0A7BC98A269E4507A257F0D4EE"),
        ("A.3.11", 256, 192, "8724C7FF8A2A83F22E38CB9763777B96A70ABA3444F214C763D93CD6D19FCFDE"
                             "6C3D3931857C4FF6CCCD49BD99852FE9EAA7495ECCDD96B571E0EDCF47F89768"),
    ):
        need(name, bash_hash(l, H[:n]), exp)
    # A.4.alpha (absorb, ratchet, squeeze; keyed start)
    a = Prg(256, 2, b"", H[:32])
    a.absorb(H[32:32 + 95])
    a.ratchet()
    k = a.squeeze(16)
    need("A.4.alpha", k, "71CC358A0D5082173DE04803F7E905CB")
    # A.4.beta
    a = Prg(128, 1, H[128:144], k)
    ct = a.encrypt(H[160:183])
    need("A.4.beta", ct, "51ED3B28D345FFD1AD22815B86ECC17C278C8FE8920214")
    b = Prg(128, 1, H[128:144], k)
    if b.decrypt(ct) != H[160:183]:
        raise Harness("ref.bash selftest A.4.beta decrypt failed")
    # A.4.gamma (restart without key on the freshly started automaton)
    a = Prg(128, 1, H[128:144], k)
    a.restart(H[144:148], b"")
    b = Prg(128, 1, H[128:144], k)
    b.restart(H[144:148], b"")
    ct = a.encrypt(H[160:183])
    need("A.4.gamma", ct, "28FE0998BFC010F13B260685A27AFB36CCF580F753521B")
    if b.decrypt(ct) != H[160:183]:
        raise Harness("ref.bash selftest A.4.gamma decrypt failed")
    # A.5
    for name, l, d, n, m, exp in (
        ("A.5.1", 128, 2, 0, 32, "36FA075EC15721F250B9A641A8CB99A333A9EE7BA8586D0646CBAC3686C03DF3"),
        ("A.5.2", 128, 2, 127, 32, "C930FF427307420DA6E4182969AA1FFC3310179B8A0EDB3E20BEC285B568BA17"),
        ("A.5.3", 128, 2, 128, 32, "92AD1402C2007191F2F7CFAD6A2F8807BB0C50F73DFF95EF1B8AF08504D54007"),
        ("A.5.4", 128, 2, 150, 32, "48DB61832CA1009003BC0D8BDE67893A9DC683C48A5BC23AC884EB4613B480A6"),
        ("A.5.5", 192, 1, 143, 48, "6166032D6713D401A6BC687CCFFF2E603287143A84C78D2C62C71551E0E2FB2A"
                                   "F6B799EE33B5DECD7F62F190B1FBB052"),
        ("A.5.6", 192, 1, 144, 48, "8D84C82ECD0AB6468CC451CFC5EEB3B298DFD381D200DA69FBED5AE67D26BAD5"
                                   "C727E2652A225BF465993043039E338B"),
        ("A.5.7", 192, 1, 150, 48, "47529F9D499AB6AB8AD72B1754C90C39E7DA237BEB16CDFC00FE87934F5AFC11"
                                   "01862DFA50560F062A4DAC859CC13DBC"),
    ):
        a = Prg(l, d)
        a.absorb(H[:n])
        need(name, a.squeeze(m), exp)
    # A.6
    a = Prg(256, 1, H[:16], H[32:64])
    a.absorb(H[64:64 + 49])
    ct = a.encrypt(bytes(192))
    need("A.6.encr", ct,
         "690673766C3E848CAC7C05169FFB7B7751E52A011040E5602573FAF991044A00"
         "4329EEF7BED8E6875830A91854D1BD2EDC6FC2FF37851DBAC249DF400A0549EA"
         "2E0C811D499E1FF1E5E32FAE7F0532FA4051D0F9E300D9B1DBF119AC8CFFC48D"
         "D3CBF1CA0DBA5DD97481C88DF0BE412785E40988B31585537948B80F5A9C49E0"
         "8DD684A7DCA871C380DFDC4C4DFBE61F50D2D0FBD24D8B9D32974A347247D001"
         "BAD5B168440025693967E77394DC088B0ECCFA8D291BA13D44F60B06E2EDB351")
    tag = a.squeeze(32)
    need("A.6.tag", tag, "CDE5AF6EF9A14B7D0C191B869A6343ED6A4E9AAB4EE00A579E9E682D0EC051E3")
    b = Prg(256, 1, H[:16], H[32:64])
    b.absorb(H[64:64 + 49])
    if b.decrypt(ct) != bytes(192) or b.squeeze(32) != tag:
        raise Harness("ref.bash selftest A.6.decr failed")
    return True
