"""APDU command / response coding exactly as apdu.h states it (rules 1-6, STB 34.101.79 12.1).

A command is (cla, ins, p1, p2, cdf, rdf_len).  cmd_parses(b) enumerates *every* way the octet
string can be read under the rules (generate-and-match, no clever disambiguation), so that the
uniqueness of the reading is observed rather than assumed.  `minimal` marks the reading that the
shortest-form encoder cmd_enc would itself produce; the rules allow the extended forms for small
values as well, so a non-minimal reading is legal but not canonical.
"""


def _le(v, width):
    """Le field of `width` octets -> rdf_len (all-zero means the maximum)"""
    n = int.from_bytes(v, "big")
    return n if n else 256 ** width


def cmd_parses(b):
    b = bytes(b)
    if len(b) < 4:                                   # rule 1
        return []
    body, out = b[4:], []

    def add(form, cdf, rdf_len):
        ext = form.endswith("E")
        out.append({"cla": b[0], "ins": b[1], "p1": b[2], "p2": b[3], "cdf": cdf, "rdf_len": rdf_len, "form": form,
                    "minimal": not ext or len(cdf) >= 256 or rdf_len > 256})

    if body == b"":
        add("1", b"", 0)
    if len(body) == 1:                               # Le short, 1..256
        add("2S", b"", _le(body, 1))
    if len(body) == 3 and body[0] == 0:              # no Lc: Le extended is 00 xx xx
        add("2E", b"", _le(body[1:], 2))
    if len(body) >= 2 and body[0] != 0:              # Lc short: one non-zero octet, 1..255
        n = body[0]
        rest = body[1 + n:]
        if len(body) >= 1 + n:
            if rest == b"":
                add("3S", body[1:1 + n], 0)
            elif len(rest) == 1:                     # rule 4: Le form = Lc form
                add("4S", body[1:1 + n], _le(rest, 1))
    if len(body) >= 4 and body[0] == 0:              # Lc extended: 00 then two octets != 0000
        n = int.from_bytes(body[1:3], "big")
        rest = body[3 + n:]
        if n != 0 and len(body) >= 3 + n:
            if rest == b"":
                add("3E", body[3:3 + n], 0)
            elif len(rest) == 2:                     # with Lc present, Le extended is two octets
                add("4E", body[3:3 + n], _le(rest, 2))
    return out


def cmd_valid(cdf_len, rdf_len):
    return 0 <= cdf_len <= 65535 and 0 <= rdf_len <= 65536


def cmd_enc(cla, ins, p1, p2, cdf, rdf_len):
    """shortest legal coding"""
    assert cmd_valid(len(cdf), rdf_len)
    short = len(cdf) < 256 and rdf_len <= 256
    out = bytes([cla, ins, p1, p2])
    if cdf:
        out += (bytes([len(cdf)]) if short else b"\0" + len(cdf).to_bytes(2, "big")) + bytes(cdf)
    if rdf_len:
        if short:
            out += bytes([rdf_len % 256])
        else:
            out += (b"" if cdf else b"\0") + (rdf_len % 65536).to_bytes(2, "big")
    return out


def resp_parse(b):
    b = bytes(b)
    if len(b) < 2:
        return None
    return {"rdf": b[:-2], "sw1": b[-2], "sw2": b[-1]}


def resp_enc(rdf, sw1, sw2):
    return bytes(rdf) + bytes([sw1, sw2])


def selftest():
    """anchor: /repo/test/core/apdu_test.c"""
    H = bytes.fromhex
    assert cmd_enc(0x00, 0xA4, 0x04, 0x04, b"Test", 256) == H("00A40404045465737400")
    p = cmd_parses(H("00A40404045465737400"))
    assert len(p) == 1 and p[0]["cdf"] == b"Test" and p[0]["rdf_len"] == 256 and p[0]["form"] == "4S"
    assert resp_enc(H("E012C004"), 0x90, 0) == H("E012C0049000") and resp_parse(H("E012C0049000"))["rdf"] == H("E012C004")
    for cdf_len in (0, 1, 255, 256, 257, 65535):
        for rdf_len in (0, 1, 255, 256, 257, 65535, 65536):
            e = cmd_enc(1, 2, 3, 4, bytes(cdf_len), rdf_len)
            p = cmd_parses(e)
            assert len(p) == 1 and p[0]["minimal"] and len(p[0]["cdf"]) == cdf_len and p[0]["rdf_len"] == rdf_len, (cdf_len, rdf_len)
    assert cmd_parses(H("00000000" "000000" "1234")) == []          # extended Lc = 0000 is excluded by rule 5
    assert cmd_parses(H("00000000" "01AA" "0005")) == []            # short Lc with two-octet Le: forms differ
    assert cmd_parses(H("00000000" "000001AA" "05")) == []          # extended Lc with short Le
    assert [x["form"] for x in cmd_parses(H("00000000" "000001AA" "0005"))] == ["4E"]
    assert not cmd_parses(H("00000000" "000001AA" "0005"))[0]["minimal"]
    return True
