"""C12 oracle: the condition lists of the validators as executable predicates.

Every verdict function returns (verdict, reason):
    True   the object satisfies every documented condition   -> validator must accept
    False  a documented condition is violated (reason names it) -> validator must reject
    None   the documentation does not settle the case (reason says why) -> case is skipped

Sources of the conditions (nothing is invented):
  bign     STB 34.101.45 alg. 6.1.4 as listed in bign.h (unused octets zero) and in the comment block
           "Проверка параметров" of src/crypto/bign/bign_params.c
  bign96   comment block "Проверка параметров" of src/crypto/bign96.c
  g12s     g12s.h (layout, unused octets arbitrary) + comment block of src/crypto/g12s.c
  stb99    stb99.h (stb99SeedVal / stb99SeedAdj / stb99ParamsVal descriptions)
  pfok     pfok.h (pfokSeedVal / pfokSeedAdj / pfokParamsVal descriptions)
  dstu     dstu.h + comment block "Проверка параметров" of src/crypto/dstu.c
  bels     bels.h: x^l + m(x) irreducible
  tm       tm.h: six decimal digits (values 0..9) YYMMDD of a Gregorian date of 20yy
  pri      pri.h; pp: pp.h

Plain Python ints; structs are (de)serialised with the `struct` module from the layouts in the headers
(sizes asserted against the values computed from the headers: 336, 412, 272, 760, 232, 976, 296).
"""
import struct

from . import ec, gf2poly


def le(b):
    return int.from_bytes(bytes(b), "little")


def to_le(x, n):
    return int(x).to_bytes(n, "little")


def fits(x, n):
    return 0 <= x < (1 << (8 * n))


# =============================================================================
# struct layouts
# =============================================================================

class Layout:
    """name, struct format, field names; byte-string fields are kept as raw bytes (so that unused octets
    are part of the object), integer fields as ints, arrays as lists"""

    def __init__(self, name, fmt, fields, size):
        self.name, self.fmt, self.fields = name, fmt, fields
        self.size = struct.calcsize(fmt)
        assert self.size == size, (name, self.size, size)

    def unpack(self, raw):
        vals = list(struct.unpack(self.fmt, bytes(raw)))
        out = {}
        for f in self.fields:
            if isinstance(f, tuple):
                nm, cnt = f
                out[nm] = [vals.pop(0) for _ in range(cnt)]
            else:
                out[f] = vals.pop(0)
        return out

    def pack(self, d):
        vals = []
        for f in self.fields:
            if isinstance(f, tuple):
                nm, cnt = f
                assert len(d[nm]) == cnt
                vals.extend(d[nm])
            else:
                vals.append(d[f])
        return struct.pack(self.fmt, *vals)


BIGN = Layout("bign_params", "<Q64s64s64s64s64s8s", ["l", "p", "a", "b", "q", "yG", "seed"], 336)
G12S = Layout("g12s_params", "<I68s68s68s64sI68s68s", ["l", "p", "a", "b", "q", "n", "xP", "yP"], 412)
DSTU = Layout("dstu_params", "<4HB64s64s3xI128s", [("p", 4), "A", "B", "n", "c", "P"], 272)
PFOK = Layout("pfok_params", "<QQQ368s368s", ["l", "r", "n", "p", "g"], 760)
PFOK_SEED = Layout("pfok_seed", "<Q31H2x20Q", ["l", ("zi", 31), ("li", 20)], 232)
STB99 = Layout("stb99_params", "<QQ308s33s308s308s3x", ["l", "r", "p", "q", "a", "d"], 976)
STB99_SEED = Layout("stb99_seed", "<Q31H2x18Q10Q", ["l", ("zi", 31), ("di", 18), ("ri", 10)], 296)


# =============================================================================
# dates (tm.h)
# =============================================================================

def is_leap(y):
    return y % 400 == 0 or (y % 4 == 0 and y % 100 != 0)


def days_in_month(y, m):
    if m == 2:
        return 29 if is_leap(y) else 28
    return 30 if m in (4, 6, 9, 11) else 31


def date_valid(y, m, d):
    """tm.h: Gregorian date, years before 1583 are incorrect, months 1..12, days 1..28/29/30/31"""
    return y >= 1583 and 1 <= m <= 12 and 1 <= d <= days_in_month(y, m)


def date2_valid(o):
    """tm.h: 6 octets YYMMDD, each octet represents ONE DECIMAL DIGIT (value 0..9), year of the 21st century"""
    o = list(o)
    if len(o) != 6 or any(x > 9 for x in o):
        return False
    return date_valid(2000 + 10 * o[0] + o[1], 10 * o[2] + o[3], 10 * o[4] + o[5])


def century_dates():
    """all valid YYMMDD sextuples of 2000..2099"""
    out = []
    for y in range(2000, 2100):
        for m in range(1, 13):
            for d in range(1, days_in_month(y, m) + 1):
                yy = y - 2000
                out.append((yy // 10, yy % 10, m // 10, m % 10, d // 10, d % 10))
    return out


# =============================================================================
# primes (pri.h)
# =============================================================================

def sieve(n):
    """bytearray f with f[i] = 1 iff i is prime, 0 <= i < n"""
    f = bytearray([1]) * n
    for i in range(min(2, n)):
        f[i] = 0
    i = 2
    while i * i < n:
        if f[i]:
            f[i * i::i] = bytearray(len(range(i * i, n, i)))
        i += 1
    return f


def sieve_window(lo, hi):
    """bytearray f with f[i - lo] = 1 iff i is prime, lo <= i < hi (segmented sieve, trial primes to sqrt(hi))"""
    if lo < 2:
        f = sieve(hi)
        return f[lo:]
    r = int(hi ** 0.5) + 2
    while r * r > hi + 2 * r:
        r -= 1
    small = sieve(r + 2)
    f = bytearray([1]) * (hi - lo)
    for p in range(2, r + 2):
        if small[p]:
            start = max(p * p, (lo + p - 1) // p * p)
            if start < hi:
                f[start - lo::p] = bytearray(len(range(start, hi, p)))
    return f


def is_prime(n):
    """deterministic below 3.3e24 (13 prime bases); above: the 13 bases + 40 random bases
    (+ 12 for numbers of more than 1100 bits, where a modular power costs tens of ms)"""
    if n.bit_length() <= 100:
        return ec.is_probable_prime(n, 40)
    r = _PRIME_MEMO.get(n)
    if r is None:
        if len(_PRIME_MEMO) > 4096:
            _PRIME_MEMO.clear()
        r = _PRIME_MEMO[n] = ec.is_probable_prime(n, 40 if n.bit_length() <= 1100 else 12)
    return r


_PRIME_MEMO = {}


_BASE = None


def base_primes():
    """pri.h factor base: the first 1024 odd primes"""
    global _BASE
    if _BASE is None:
        f = sieve(9000)
        _BASE = [i for i in range(3, 9000) if f[i]][:1024]
        assert len(_BASE) == 1024
    return _BASE


def is_sieved(a, base_count):
    """pri.h priIsSieved: a is odd and not divisible by the first base_count primes of the base
    (hence not sieved if it equals one of them; a = 1 is sieved)"""
    if a % 2 == 0:
        return False
    return all(a % p for p in base_primes()[:base_count])


def is_smooth(a, base_count):
    """pri.h priIsSmooth: a is divisible only by 2 and by the first base_count primes of the base (a >= 1)"""
    assert a >= 1
    while a % 2 == 0:
        a //= 2
    for p in base_primes()[:base_count]:
        while a % p == 0:
            a //= p
    return a == 1


def next_prime(a, trials=None):
    """pri.h priNextPrime(W): least odd prime in [a, 2^l), l = bit length of a, among the first `trials`
    candidates a|1, a|1 + 2, ... (all candidates if trials is None); None if there is none"""
    l = a.bit_length()
    if l <= 1:
        return None
    p = a | 1
    t = 0
    while p.bit_length() == l:
        if trials is not None and t >= trials:
            return None
        if is_prime(p):
            return p
        p += 2
        t += 1
    return None


def chernick(k):
    """(6k+1)(12k+1)(18k+1) if the three factors are prime (then a Carmichael number), else None"""
    f = (6 * k + 1, 12 * k + 1, 18 * k + 1)
    if all(is_prime(x) for x in f):
        return f[0] * f[1] * f[2]
    return None


def is_strong_pseudoprime(n, bases):
    if n < 3 or n % 2 == 0:
        return False
    d, s = n - 1, 0
    while d % 2 == 0:
        d //= 2
        s += 1
    for a in bases:
        x = pow(a, d, n)
        if x == 1 or x == n - 1:
            continue
        for _ in range(s - 1):
            x = x * x % n
            if x == n - 1:
                break
        else:
            return False
    return True


# =============================================================================
# bign / bign96 (alg. 6.1.4)
# =============================================================================

def bign_B(p_oct, a_oct, seed8, hash_fn):
    """B = belt-hash(p || a || seed) || belt-hash(p || a || seed + 1) as a little-endian number
    (seed + 1: seed as a little-endian 64-bit number, modulo 2^64)"""
    s1 = to_le((le(seed8) + 1) % (1 << 64), 8)
    h = hash_fn(bytes(p_oct) + bytes(a_oct) + bytes(seed8)) + hash_fn(bytes(p_oct) + bytes(a_oct) + s1)
    assert len(h) == 64
    return le(h)


def bign_verdict(P, hash_fn, variant="bign"):
    """P: dict as BIGN.unpack gives; variant 'bign' (l in 128,192,256) or 'bign96' (l = 96)"""
    l = P["l"]
    if variant == "bign":
        if l not in (128, 192, 256):
            return False, "l"
    else:
        if l != 96:
            return False, "l"
    no = 2 * l // 8
    unused = any(any(P[f][no:]) for f in ("p", "a", "b", "q", "yG"))
    if unused:
        if variant == "bign":
            return False, "unused-octets-zero"          # bign.h: unused octets must be zero
        return None, "bign96: list in bign96.c is silent on unused octets"
    p, a, b, q, yG = (le(P[f][:no]) for f in ("p", "a", "b", "q", "yG"))
    lo, hi = 1 << (2 * l - 1), 1 << (2 * l)
    if not (lo < p < hi):
        return False, "p-range"
    if not (lo < q < hi):
        return False, "q-range"
    if p % 4 != 3:
        return False, "p=3mod4"
    if not a < p:
        return False, "a<p"
    if not b < p:
        return False, "b<p"
    if b == 0:
        return False, "b!=0"
    if a == 0:
        if variant == "bign":
            return False, "a!=0"
        return None, "bign96: list in bign96.c has no 0 < a"
    if not is_prime(p):
        return False, "p-prime"
    if not is_prime(q):
        return False, "q-prime"
    if q == p:
        return False, "q!=p"
    t = 1
    for m in range(1, 51):
        t = t * p % q
        if t == 1:
            return False, "mov"
    if bign_B(P["p"][:no], P["a"][:no], P["seed"], hash_fn) % p != b:
        return False, "b=B(seed)"
    if (4 * a ** 3 + 27 * b * b) % p == 0:
        return False, "discriminant"
    if ec.legendre(b, p) != 1:
        return False, "(b/p)=1"
    if not yG < p:
        return False, "yG<p"
    if yG != pow(b, (p + 1) // 4, p):
        return False, "yG=b^((p+1)/4)"
    E = ec.Curve(p, a, b)
    if E.mul(q, (0, yG)) is not None:
        return False, "qG=O"
    return True, "ok"


def ecp_pubkey_valid(p, a, b, x, y):
    """in-range point of the curve"""
    return 0 <= x < p and 0 <= y < p and (y * y - (x * x * x + a * x + b)) % p == 0


# =============================================================================
# g12s (GOST R 34.10-2012)
# =============================================================================

def g12s_no(P):
    """g12s.h: no = memNonZeroSize(p, G12S_FIELD_SIZE * l / 512)"""
    lim = 68 * P["l"] // 512
    raw = P["p"][:lim]
    n = len(raw)
    while n and raw[n - 1] == 0:
        n -= 1
    return n


def g12s_verdict(P):
    l = P["l"]
    if l not in (256, 512):
        return False, "l"
    no = g12s_no(P)
    if no == 0:
        return False, "p-prime"           # p = 0
    p = le(P["p"][:no])
    a, b, x, y = (le(P[f][:no]) for f in ("a", "b", "xP", "yP"))
    q = le(P["q"][:l // 8])
    cof = P["n"]
    if l == 256 and not ((1 << 254) < q < (1 << 256)):
        return False, "q-range"
    if l == 512 and not ((1 << 508) < q < (1 << 512)):
        return False, "q-range"
    if not (a < p and b < p):
        return False, "a,b<p"
    if a == 0 or b == 0:
        return False, "a,b!=0"
    if not (x < p and y < p):
        return False, "P-in-E"
    if not is_prime(p):
        return False, "p-prime"
    if not is_prime(q):
        return False, "q-prime"
    if q == p:
        return False, "q!=p"
    t = 1
    for m in range(1, (31 if l == 256 else 131) + 1):
        t = t * p % q
        if t == 1:
            return False, "mov"
    if (4 * a ** 3 + 27 * b * b) % p == 0:
        return False, "discriminant"
    if (y * y - (x * x * x + a * x + b)) % p != 0:
        return False, "P-in-E"
    if (cof * q - (p + 1)) ** 2 > 4 * p:
        return False, "hasse"
    if ec.Curve(p, a, b).mul(q, (x, y)) is not None:
        return False, "qP=O"
    # the list in g12s.c is silent on the size of p although g12sEcCreate tests it
    if (l == 256 and p.bit_length() <= 253) or (l == 512 and p.bit_length() <= 507):
        return None, "size of p not in the documented list"
    return True, "ok"


# =============================================================================
# stb99 (STB 1176.2-99) and pfok: Montgomery group B_p
# =============================================================================

STB99_L = (638, 766, 1022, 1118, 1310, 1534, 1790, 2046, 2334, 2462)       # table 7.1 (stb99.c _ls/_rs)
STB99_R = (143, 154, 175, 182, 195, 208, 222, 235, 249, 257)
PFOK_L = (638, 702, 766, 862, 958, 1022, 1118, 1214, 1310, 1438, 1534, 1662, 1790, 1918,
          2046, 2174, 2334, 2462, 2622, 2782, 2942)                        # table 5.1 (pfok.c _ls/_rs)
PFOK_R = (130, 136, 141, 149, 154, 161, 168, 175, 181, 188, 194, 201, 208, 214,
          221, 225, 234, 240, 246, 253, 259)


def mont_unity(p, l):
    return (1 << (l + 2)) % p


def mont_power(u, k, p, l):
    """u^(k) in B_p: Montgomery product of k copies of u, u o v = u v R^-1 mod p, R = 2^(l+2); k >= 1"""
    assert k >= 1
    Rinv = pow(1 << (l + 2), -1, p)
    return pow(u, k, p) * pow(Rinv, k - 1, p) % p


def stb99_verdict(P):
    l, r = P["l"], P["r"]
    if l not in STB99_L or STB99_R[STB99_L.index(l)] != r:
        return False, "l,r"
    no, mo = (l + 7) // 8, (r + 7) // 8
    if any(P["p"][no:]) or any(P["q"][mo:]) or any(P["a"][no:]) or any(P["d"][no:]):
        return False, "unused-octets-zero"
    p, q, a, d = le(P["p"][:no]), le(P["q"][:mo]), le(P["a"][:no]), le(P["d"][:no])
    if p.bit_length() != l:
        return False, "p-bitlen"
    if q.bit_length() != r:
        return False, "q-bitlen"
    if not (0 < a < p and 0 < d < p):
        return False, "0<a,d<p"
    if (p - 1) % q:
        return False, "q|p-1"
    if not is_prime(q):
        return False, "q-prime"
    if not is_prime(p):
        return False, "p-prime"
    t = mont_power(d, (p - 1) // q, p, l)
    if t != a:
        return False, "a=d^((p-1)/q)"
    if a == mont_unity(p, l):
        return False, "a!=e"
    return True, "ok"


def _chain_ok(ch, first_ok, plus4):
    """chain starts with ch[0], ends with ch[t] in 17..32 followed by zeros;
    5*ch[i+1]/4 (+4) < ch[i] <= 2*ch[i+1] for 0 <= i < t   (exact rational comparison)"""
    if not first_ok:
        return False
    t = None
    for i, v in enumerate(ch):
        if v == 0:
            break
        t = i
    if t is None:
        return False
    if any(ch[t + 1:]):
        return False
    if not 17 <= ch[t] <= 32:
        return False
    for i in range(t):
        hi, lo = ch[i], ch[i + 1]
        if not (5 * lo + (16 if plus4 else 0) < 4 * hi and hi <= 2 * lo):
            return False
    return True


def _zi_ok(zi):
    return all(1 <= z <= 65256 for z in zi)


def stb99_seed_parts(S):
    """(l ok, zi ok, di ok, ri ok) per the list of stb99SeedVal in stb99.h"""
    l = S["l"]
    if l not in STB99_L:
        return False, None, None, None
    r = STB99_R[STB99_L.index(l)]
    di, ri = S["di"], S["ri"]
    # l / 2 <= di[0] <= 7 * l / 8 - r   (rational)
    d0_ok = 2 * di[0] >= l and 8 * di[0] <= 7 * l - 8 * r
    return True, _zi_ok(S["zi"]), _chain_ok(di, d0_ok, True), _chain_ok(ri, ri[0] == r, False)


def stb99_seed_verdict(S):
    lk, z, d, r = stb99_seed_parts(S)
    if not lk:
        return False, "l"
    if not z:
        return False, "zi"
    if not d:
        l, rr = S["l"], STB99_R[STB99_L.index(S["l"])]
        d0 = S["di"][0]
        if not (2 * d0 >= l and 8 * d0 <= 7 * l - 8 * rr):
            return False, "di[0]-range"
        return False, "di-chain"
    if not r:
        return False, "ri"
    return True, "ok"


def default_chain(first):
    ch = [first]
    while ch[-1] > 32:
        ch.append(ch[-1] // 2 + 1)
    return ch


def stb99_seed_adj(S):
    """stb99SeedAdj per stb99.h: all-zero zi / di / ri get the default values; result (ok, adjusted seed).
    Returns None where the header is not explicit (an array that is partly zero)."""
    S = {k: (list(v) if isinstance(v, list) else v) for k, v in S.items()}
    l = S["l"]
    if l not in STB99_L:
        return False, S
    r = STB99_R[STB99_L.index(l)]
    for nm in ("zi", "di", "ri"):
        arr = S[nm]
        if nm == "zi" and any(v == 0 for v in arr) and any(arr):
            return None
    if not any(S["zi"]):
        S["zi"] = list(range(1, 32))
    if not any(S["di"]):
        ch = default_chain(l // 2 + 1)
        S["di"] = ch + [0] * (18 - len(ch))
    if not any(S["ri"]):
        ch = default_chain(r)
        S["ri"] = ch + [0] * (10 - len(ch))
    return stb99_seed_verdict(S)[0], S


def pfok_seed_verdict(S):
    l = S["l"]
    if l not in PFOK_L:
        return False, "l"
    if not _zi_ok(S["zi"]):
        return False, "zi"
    if not _chain_ok(S["li"], S["li"][0] == l - 1, True):
        return False, "li"
    return True, "ok"


def pfok_seed_adj(S):
    S = {k: (list(v) if isinstance(v, list) else v) for k, v in S.items()}
    l = S["l"]
    if l not in PFOK_L:
        return False, S
    if any(v == 0 for v in S["zi"]) and any(S["zi"]):
        return None
    if not any(S["zi"]):
        S["zi"] = list(range(1, 32))
    if not any(S["li"]):
        ch = default_chain(l - 1)
        S["li"] = ch + [0] * (20 - len(ch))
    return pfok_seed_verdict(S)[0], S


def pfok_verdict(P):
    """list of pfokParamsVal in pfok.h (g of order p - 1 in the Montgomery group; the section text of pfok.h
    says 'order q' - the function's own list is taken as its contract)"""
    l, r, n = P["l"], P["r"], P["n"]
    if l not in PFOK_L or PFOK_R[PFOK_L.index(l)] != r:
        return False, "l,r"
    if not n < l:
        return False, "n<l"
    no = (l + 7) // 8
    if any(P["p"][no:]) or any(P["g"][no:]):
        return False, "unused-octets-zero"
    p, g = le(P["p"][:no]), le(P["g"][:no])
    if p.bit_length() != l:
        return False, "p-bitlen"
    if not g < p:
        return False, "g<p"
    if g == 0:
        return False, "g-order"
    if p % 2 == 0:
        return False, "p-prime"
    if not is_prime(p):
        return False, "p-prime"
    q = (p - 1) // 2
    if not is_prime(q):
        return False, "q-prime"
    # order of g in B_p is p - 1 = 2q  <=>  g^(q) != e and g^(2) != e
    e = mont_unity(p, l)
    if mont_power(g, q, p, l) == e or mont_power(g, 2, p, l) == e:
        return False, "g-order"
    return True, "ok"


# =============================================================================
# dstu (DSTU 4145-2002): curves y^2 + xy = x^3 + A x^2 + B over GF(2^m)
# =============================================================================

class Curve2:
    """affine arithmetic, O is None, field elements are ints (bit i = coefficient of x^i), naive on purpose"""

    def __init__(self, f, A, B):
        self.f, self.m, self.A, self.B = f, gf2poly.deg(f), A, B
        self.mask = (1 << self.m) - 1
        self.low = [i for i in range(self.m) if (f >> i) & 1]          # exponents of f - x^m

    def fred(self, r):
        """r mod f by folding: x^m = sum of x^e, e in low (a few rounds; falls back to the generic routine
        when f is not sparse)"""
        if len(self.low) > 8 or (self.low and self.low[-1] > self.m // 2):
            return gf2poly.mod(r, self.f)
        while r >> self.m:
            h = r >> self.m
            r &= self.mask
            for e in self.low:
                r ^= h << e
        return r

    def fmul(self, u, v):
        """schoolbook with a 4-bit window over v (table of the 16 multiples of u)"""
        t = [0, u]
        for i in range(2, 16):
            t.append((t[i >> 1] << 1) if i % 2 == 0 else (t[i - 1] ^ u))
        r, sh = 0, 0
        while v:
            r ^= t[v & 15] << sh
            v >>= 4
            sh += 4
        return self.fred(r)

    def finv(self, u):
        """binary extended Euclid in GF(2)[x] (u != 0)"""
        if u == 0:
            raise ZeroDivisionError
        v, g1, g2 = self.f, 1, 0
        while u != 1:
            j = u.bit_length() - v.bit_length()
            if j < 0:
                u, v, g1, g2, j = v, u, g2, g1, -j
            u ^= v << j
            g1 ^= g2 << j
        return self.fred(g1)

    def is_on(self, P):
        if P is None:
            return True
        x, y = P
        if x >> self.m or y >> self.m:
            return False
        lhs = self.fmul(y, y) ^ self.fmul(x, y)
        x2 = self.fmul(x, x)
        rhs = self.fmul(x2, x) ^ self.fmul(self.A, x2) ^ self.B
        return lhs == rhs

    def neg(self, P):
        return None if P is None else (P[0], P[0] ^ P[1])

    def add(self, P, Q):
        if P is None:
            return Q
        if Q is None:
            return P
        x1, y1 = P
        x2, y2 = Q
        if x1 == x2:
            if y1 != y2 or x1 == 0:             # Q = -P, or 2P with P of order 2
                return None
            lam = x1 ^ self.fmul(y1, self.finv(x1))
            x3 = self.fmul(lam, lam) ^ lam ^ self.A
            y3 = self.fmul(x1, x1) ^ self.fmul(lam ^ 1, x3)
            return (x3, y3)
        lam = self.fmul(y1 ^ y2, self.finv(x1 ^ x2))
        x3 = self.fmul(lam, lam) ^ lam ^ x1 ^ x2 ^ self.A
        y3 = self.fmul(lam, x1 ^ x3) ^ x3 ^ y1
        return (x3, y3)

    def mul(self, k, P):
        R, Q = None, P
        while k:
            if k & 1:
                R = self.add(R, Q)
            Q = self.add(Q, Q)
            k >>= 1
        return R

    def points(self):
        out = []
        for x in range(1 << self.m):
            for y in range(1 << self.m):
                if self.is_on((x, y)):
                    out.append((x, y))
        return out


def dstu_poly(p4):
    """(f, kind) for the field description p[4] of dstu.h; f is None if the description breaks the
    documented conventions; kind in 'tri', 'penta', 'normal'"""
    p0, p1, p2, p3 = p4
    if p1 == 0 and p2 == 0 and p3 == 0:
        return None, "normal"
    if not (p0 >= p1 >= p2 >= p3):
        return None, "order"
    if p2 == 0:
        if p3 != 0 or not (p0 > p1 > 0):
            return None, "order"
        return (1 << p0) | (1 << p1) | 1, "tri"
    if not (p0 > p1 > p2 > p3 > 0):
        return None, "order"
    return (1 << p0) | (1 << p1) | (1 << p2) | (1 << p3) | 1, "penta"


def dstu_impl_restricted(p4, kind, B_PER_W):
    """polynomial shapes that gf2Create refuses for implementation reasons (conditions of ppRedTrinomial /
    ppRedPentanomial), not stated in dstu.h"""
    p0, p1 = p4[0], p4[1]
    if kind == "tri":
        return p0 % 8 == 0 or p0 - p1 < B_PER_W
    return p0 - p1 < B_PER_W or p1 >= B_PER_W


def dstu_verdict(P, B_PER_W=64, check_point=True):
    """conditions 1)-5) of the comment in dstu.c + field polynomial irreducible (dstu.h) + base point on the
    curve with order n.  Octets beyond O_OF_B(m) are unused and arbitrary (dstu.h)."""
    p4 = P["p"]
    m = p4[0]
    f, kind = dstu_poly(p4)
    if kind == "normal":
        return None, "normal basis is not supported"
    if f is None:
        return False, "field-description"
    if P["A"] > 1:
        return False, "A"
    if m > 509:
        return False, "m<=509"
    if m < 160:
        return False, "n>=2^160"          # n <= (2^m + 1 + 2*2^(m/2))/c < 2^160
    no = (m + 7) // 8
    B, n = le(P["B"][:no]), le(P["n"][:no])
    x, y = le(P["P"][:no]), le(P["P"][no:2 * no])
    c = P["c"]
    if B == 0:
        return False, "B!=0"
    if B >> m:
        return False, "B-in-field"
    if n < (1 << 160):
        return False, "n>=2^160"
    if x >> m or y >> m:
        return False, "P-in-field"
    if (c * n - (1 << m) - 1) ** 2 > 4 << m:
        return False, "hasse"
    if not is_prime(n):
        return False, "n-prime"
    t, two_m = 1, (1 << m) % n
    for i in range(32):
        t = t * two_m % n
        if t == 1:
            return False, "mov"
    if not gf2poly.is_irreducible(f):
        return False, "field-irreducible"
    E = Curve2(f, P["A"], B)
    if not E.is_on((x, y)):
        return False, "P-on-curve"
    if check_point and E.mul(n, (x, y)) is not None:
        return False, "nP=O"
    if dstu_impl_restricted(p4, kind, B_PER_W):
        return None, "polynomial shape refused by the implementation (not a documented condition)"
    return True, "ok"


def dstu_curve(P):
    m = P["p"][0]
    no = (m + 7) // 8
    f, _ = dstu_poly(P["p"])
    return Curve2(f, P["A"], le(P["B"][:no])), no


# =============================================================================
# bels
# =============================================================================

def bels_valid(m_oct):
    """bels.h: f0(x) = x^l + m0(x) irreducible of degree l = 8 len"""
    return gf2poly.is_irreducible((1 << (8 * len(m_oct))) | le(m_oct))


# =============================================================================
# self-test (anchors independent of the library)
# =============================================================================

def selftest():
    from ..core import Harness

    def need(c, msg):
        if not c:
            raise Harness("ref.params selftest: " + msg)

    # dates
    need(len(century_dates()) == 36525, "36525 dates in a century")
    need(date2_valid((2, 2, 0, 7, 2, 9)), "tm.h example 22-07-29")
    need(date2_valid((0, 0, 0, 2, 2, 9)) and not date2_valid((0, 1, 0, 2, 2, 9)), "leap 2000 / 2001")
    need(not date_valid(1900, 2, 29) and date_valid(1600, 2, 29) and not date_valid(1582, 12, 31), "gregorian")
    need(not date2_valid((0, 10, 0, 1, 0, 1)), "non-digit")
    # primes: sieve vs Miller-Rabin vs trial division
    f = sieve(20000)
    for i in range(20000):
        td = i >= 2 and all(i % d for d in range(2, int(i ** 0.5) + 1))
        need(bool(f[i]) == td == is_prime(i), "sieve/MR/trial division disagree at %d" % i)
    w = sieve_window((1 << 32) - 300, (1 << 32) + 300)
    for i in range(600):
        need(bool(w[i]) == is_prime((1 << 32) - 300 + i), "segmented sieve at %d" % i)
    need(base_primes()[0] == 3 and base_primes()[-1] == 8167, "base")
    need(next_prime(8) == 11 and next_prime(14) is None and next_prime(2) == 3 and next_prime(1) is None
         and next_prime(24, 2) is None and next_prime(24, 3) == 29, "next_prime")
    need(chernick(1) == 1729 and chernick(2) is None and chernick(6) == 294409, "chernick")
    for n in (2047, 1373653, 25326001, 3215031751):
        need(not is_prime(n), "strong pseudoprime %d" % n)
    need(is_strong_pseudoprime(2047, [2]) and is_strong_pseudoprime(1373653, [2, 3])
         and is_strong_pseudoprime(25326001, [2, 3, 5]) and is_strong_pseudoprime(3215031751, [2, 3, 5, 7]), "spsp")
    need(is_smooth(2 * 3 * 3 * 5, 2) and not is_smooth(7, 2) and is_smooth(1, 0) and is_smooth(64, 0), "smooth")
    need(is_sieved(1, 10) and not is_sieved(3, 1) and is_sieved(5, 1) and not is_sieved(4, 0) and is_sieved(49, 2), "sieved")
    # Montgomery group: e is the unity, u^(k) o u = u^(k+1)
    p, l = 1000003, 20
    R = 1 << (l + 2)
    e = mont_unity(p, l)
    u = 123457
    need(u * e * pow(R, -1, p) % p == u, "mont unity")
    need(mont_power(u, 5, p, l) * u * pow(R, -1, p) % p == mont_power(u, 6, p, l), "mont power")
    need(mont_power(e, 77, p, l) == e, "e^(k)")
    # chains (stb99.h text: maximal chains quoted in the header satisfy the rules)
    di = [1897, 1514, 1207, 962, 766, 609, 483, 383, 303, 239, 187, 146, 113, 87, 66, 49, 35, 24]
    ri = [257, 205, 163, 130, 103, 82, 65, 51, 40, 31]
    li = [2941, 2349, 1875, 1496, 1193, 951, 757, 602, 478, 379, 299, 235, 184, 143, 111, 85, 64, 47, 34, 23]
    need(_chain_ok(di, True, True) and _chain_ok(ri, True, False) and _chain_ok(li, True, True), "header chains")
    need(not _chain_ok([40, 33] + [0] * 8, True, False), "last element > 32")
    need(not _chain_ok([257, 206, 163, 130, 103, 82, 65, 51, 40, 31], True, False), "5/4 rule")
    # binary curve group law on a small field: GF(2^5), f = x^5 + x^2 + 1
    E = Curve2(0b100101, 1, 0b10011)
    pts = E.points()
    N = len(pts) + 1
    need(abs(N - 33) ** 2 <= 4 * 32, "hasse on toy curve")
    for Pt in pts:
        need(E.mul(N, Pt) is None, "N*P = O on toy curve")
        need(E.is_on(E.add(Pt, Pt) or pts[0]), "2P on curve")
    import random
    rr = random.Random(12)
    for fpoly in ((1 << 163) | (1 << 7) | (1 << 6) | (1 << 3) | 1, (1 << 167) | (1 << 6) | 1, 0b100101,
                  (1 << 64) | rr.getrandbits(64) | 1):
        Ef = Curve2(fpoly, 1, 1)
        for _ in range(20):
            u, v = rr.getrandbits(Ef.m), rr.getrandbits(Ef.m) | 1
            need(Ef.fmul(u, v) == gf2poly.mulmod(u, v, fpoly), "fast fmul")
            if gf2poly.gcd(v, fpoly) == 1:
                need(gf2poly.mulmod(Ef.finv(v), v, fpoly) == 1, "fast finv")
    a, b, c = pts[1], pts[4], pts[7]
    need(E.add(E.add(a, b), c) == E.add(a, E.add(b, c)), "associativity")
    need(E.add(a, E.neg(a)) is None, "P + (-P)")
    need(E.mul(5, a) == E.add(E.add(E.add(E.add(a, a), a), a), a), "5P")
    # irreducibility model: Rabin against brute force
    for fpoly in range(2, 1 << 9):
        need(gf2poly.is_irreducible(fpoly) == gf2poly.is_irreducible_bruteforce(fpoly), "irred %d" % fpoly)
    need(gf2poly.is_irreducible((1 << 128) | 0x87), "belt/GCM polynomial")
    return True
