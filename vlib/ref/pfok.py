"""pfok (pfok.h): Diffie-Hellman and MTI key agreement in the Montgomery group B_p.

pfok.h: B_p = non-negative residues mod p with  u o v = u v R^-1 mod p,  R = 2^(l+2);
u^(v) = Montgomery product of v copies of u (so u^(0) is the identity R mod p).
  pubkey   = g^(privkey)
  pfokDH   = low n bits of pubkey^(privkey)
  pfokMTI  = low n bits of pubkey1^(privkey) xor pubkey^(privkey1)
Numbers are little-endian octet strings: privkey O_OF_B(r), pubkey O_OF_B(l), key O_OF_B(n) octets.
A private key is an r-bit number; a public key y is admissible iff 0 < y < p (pfokPubkeyVal).

Convention copied from the implementation: pfokKeypairGen reads O_OF_B(r) generator octets once
and keeps the low r bits.
"""
import ctypes

NAMES = ("test", "1.2.112.0.2.0.1176.2.3.3.2", "1.2.112.0.2.0.1176.2.3.6.2", "1.2.112.0.2.0.1176.2.3.10.2")


class ParamsStruct(ctypes.Structure):
    _fields_ = [("l", ctypes.c_size_t), ("r", ctypes.c_size_t), ("n", ctypes.c_size_t),
                ("p", ctypes.c_ubyte * 368), ("g", ctypes.c_ubyte * 368)]


PARAMS_SIZE = ctypes.sizeof(ParamsStruct)       # 760


class Params:
    def __init__(self, raw):
        s = ParamsStruct.from_buffer_copy(raw)
        self.raw = bytes(raw)
        self.l, self.r, self.n = s.l, s.r, s.n
        self.no, self.mo, self.ko = (self.l + 7) // 8, (self.r + 7) // 8, (self.n + 7) // 8
        self.p = int.from_bytes(bytes(s.p), "little")
        self.g = int.from_bytes(bytes(s.g), "little")
        self.R = 1 << (self.l + 2)
        self.Rinv = pow(self.R, -1, self.p)

    def sane(self):
        from . import ec
        p, q = self.p, (self.p - 1) // 2
        return (p.bit_length() == self.l and ec.is_probable_prime(p) and ec.is_probable_prime(q)
                and 0 < self.g < p and self.n < self.l)


def load_params(lib, name):
    pp, nm = lib.alloc(PARAMS_SIZE), lib.cstr(name)
    r = lib.pfokParamsStd(pp, 0, nm)
    raw = lib.rd(pp, PARAMS_SIZE)
    lib.free_one(pp)
    lib.free_one(nm)
    if r != 0:
        raise ValueError("pfokParamsStd(%s) = %d" % (name, r))
    return Params(raw)


def mmul(P, u, v):
    return u * v * P.Rinv % P.p


def mpow_literal(P, u, x):
    """x-fold Montgomery product, literally (small x only)"""
    acc = P.R % P.p
    for _ in range(x):
        acc = mmul(P, acc, u)
    return acc


def mpow(P, u, x):
    """u^(x) = u^x R^(1-x) mod p"""
    return pow(u, x, P.p) * P.R % P.p * pow(P.Rinv, x, P.p) % P.p


def priv_valid(P, x):
    return 0 <= x < (1 << P.r)


def pub_valid(P, y):
    return 0 < y < P.p


def keypair(P, tape):
    x = int.from_bytes(tape[:P.mo], "little") & ((1 << P.r) - 1)
    return x, mpow(P, P.g, x)


def lowbits(P, v):
    return (v & ((1 << P.n) - 1)).to_bytes(P.ko, "little")


def dh(P, x, y):
    return lowbits(P, mpow(P, y, x))


def mti(P, x, u, y, v):
    """x, u: own long-term and one-time private keys; y, v: the other side's public keys"""
    return lowbits(P, mpow(P, v, x) ^ mpow(P, y, u))


# ---- vectors embedded in /repo/test/crypto/pfok_test.c (parameters "test") -------------------

ANON = [("011D4665B357DB361D106E32E353CD534B",
         "0739539C2AE25B53A05C8D16A14351D8EA86A1DD1893E08EE4A266F970E0243F8DF27F738F64E99E262E337792E5DD84"
         "7CF2A83362C6EC3C024E47313AA49A1E0A2E637AD35E31EB5F034D889B666701",
         "777BB35E950D3080C1E896BE4172DBD061423D3BFEF78F15E3F7A7F2FF7A242B"),
        ("000530110167E1443819A8662A0FAB7AC0",
         "1590312CBACB7B21FC0B173DC100AC5D8692E04813CA2F87A5763E3F4940B10CDF3F2B3ECDF28BE4BEA9363B07A8A8A3"
         "BFDDE074DCF36D669A56931D083FC3BE46D02CC8EF719EF66AE47F57BEAE8E02",
         "46FA834B28D5E5D4183E28646AFFE806803E4C865CB99B1C423B0F1C78DE758D")]
AUTH = [("0078E7101B4A8F421D2AF5740D6ED27680",
         "193E5E1E0839091BC7ABBDD09E8D22988812D37EDEB39E077130A244888BE1A753337AB5743C898D1CFC947430813448"
         "16AF5189A4E84D5B6EA310F72534D2E5E531B579CEA862EAB0251A3C20F0EC1D",
         "0127E33C0D7595566570936FEF0AA53A24",
         "0947264BEFA107E99616F347B6A05C62D7F5F26804D848FC4A7D81915F4546DD22949C07131D84F8B5A73A60ED61BC6E"
         "158E9B83F38C1EE6AD97F2BF771AA4FFB10A38298498D943995697FD0F65284C",
         "EA92D5BCEC18BB44514E096748DB3E21D6E7B9C97D604699BEA7D3B96C87E18B"),
        ("0005773C812D6F2A002D4E3EAC643C2CF3",
         "221CBFEB62F4AA3204D349B3D57E45E4C9BA601483CF9DDE4DD1AE1CC2694149F08765C5CCAEBD44B7B7D0F1783F9FDD"
         "2929523E1CEF2A46FBD419C5E5E2E7124099B405E0B90A5FB15A56F439DA47D1",
         "013BB0377B3C0E55577A0D4A43627C6EC2",
         "2740ECD0631257DD8124DC38CFAC3DEF7162503B7F7C8DEC6478408B225D4C0556E566AF50661CE2F46662FC66DC429A"
         "CCF65D95E4F90BDCD08A11957C898EE2C2B77231929ACE9649B2C184CC9D8104",
         "5A4C323604206C8898BF6C234F75A537DF75E9A249D87F1E55CBD7B40C4FDAFA")]


def selftest(lib):
    bad = []
    for name in NAMES:
        try:
            P = load_params(lib, name)
        except ValueError as e:
            bad.append(str(e))
            continue
        if not P.sane():
            bad.append("parameters %s fail the model's sanity checks" % name)
        for u in (1, 2, P.g, P.p - 1):
            for x in (0, 1, 2, 3, 9):
                if mpow(P, u, x) != mpow_literal(P, u, x):
                    bad.append("closed form of u^(x) differs from the literal product (%s)" % name)
        # g has order q (or 2q) in B_p: g^(q) in {e, ...}; both parties agree
        xa, xb = 0x1234567, 0x7654321
        ya, yb = mpow(P, P.g, xa), mpow(P, P.g, xb)
        if dh(P, xa, yb) != dh(P, xb, ya):
            bad.append("model DH disagreement")
        ua, ub = 0x1111, 0x2222
        va, vb = mpow(P, P.g, ua), mpow(P, P.g, ub)
        if mti(P, xa, ua, yb, vb) != mti(P, xb, ub, ya, va):
            bad.append("model MTI disagreement")
    P = load_params(lib, "test")
    for ua, vb, key in ANON:
        if dh(P, int(ua, 16), int(vb, 16)).hex().upper() != bytes.fromhex(key)[::-1].hex().upper():
            bad.append("PFOK.ANON vector")
    for xa, yb, ua, vb, key in AUTH:
        if mti(P, int(xa, 16), int(ua, 16), int(yb, 16), int(vb, 16)).hex().upper() != bytes.fromhex(key)[::-1].hex().upper():
            bad.append("PFOK.AUTH vector")
    return bad
