"""GOST R 34.10-2012 signature (g12s.h) — naive model on top of ref/ec.py.

Encodings as g12s.h states them: private key and public key coordinates
little-endian, hash and the two halves of the signature big-endian, sig = r || s.

  sign   (6.1): e = H mod q, e = 0 -> 1; k in {1..q-1}; C = kP; r = x_C mod q, r = 0 -> new k;
                s = (r d + k e) mod q, s = 0 -> new k
  verify (6.2): 0 < r, s < q; e as above; v = e^-1; z1 = s v, z2 = -r v; C = z1 P + z2 Q;
                accept iff x_C mod q = r

Convention copied from the implementation (zzRandNZMod): a candidate for d / k is
O_OF_B(bitlen q) generator octets, little-endian, trimmed to bitlen(q) bits, accepted when
0 < candidate < q; at most 65 candidates.
"""
import ctypes
from . import ec

NAMES = ("1.2.643.2.2.35.0", "1.2.643.2.2.35.1", "1.2.643.2.2.35.2", "1.2.643.2.2.35.3",
         "1.2.643.2.9.1.8.1", "1.2.643.7.1.2.1.2.0", "1.2.643.7.1.2.1.2.1", "1.2.643.7.1.2.1.2.2")

FIELD_SIZE, ORDER_SIZE = 64 + 4, 64


class ParamsStruct(ctypes.Structure):
    _fields_ = [("l", ctypes.c_uint32), ("p", ctypes.c_ubyte * FIELD_SIZE), ("a", ctypes.c_ubyte * FIELD_SIZE),
                ("b", ctypes.c_ubyte * FIELD_SIZE), ("q", ctypes.c_ubyte * ORDER_SIZE), ("n", ctypes.c_uint32),
                ("xP", ctypes.c_ubyte * FIELD_SIZE), ("yP", ctypes.c_ubyte * FIELD_SIZE)]


PARAMS_SIZE = ctypes.sizeof(ParamsStruct)       # 412


def _le(arr, n=None):
    b = bytes(arr)
    return int.from_bytes(b if n is None else b[:n], "little")


class Params:
    def __init__(self, raw):
        s = ParamsStruct.from_buffer_copy(raw)
        self.raw = bytes(raw)
        self.l = s.l
        if self.l not in (256, 512):
            raise ValueError("l")
        self.mo = self.l // 8                      # octets of hash, private key, r, s
        pb = bytes(s.p)[:FIELD_SIZE * self.l // 512]
        self.no = len(pb.rstrip(b"\0"))            # octets of p = octets of a public key coordinate
        self.p = _le(pb)
        self.a, self.b = _le(s.a, self.no), _le(s.b, self.no)
        self.q = _le(s.q, self.mo)
        self.cofactor = s.n
        self.P = (_le(s.xP, self.no), _le(s.yP, self.no))
        self.curve = ec.Curve(self.p, self.a, self.b)

    def sane(self):
        C = self.curve
        return (ec.is_probable_prime(self.p) and ec.is_probable_prime(self.q) and C.discriminant_nonzero()
                and C.is_on(self.P) and C.mul(self.q, self.P) is None and self.P is not None
                and abs(self.cofactor * self.q - (self.p + 1)) ** 2 <= 4 * self.p)


def load_params(lib, name):
    pp, nm = lib.alloc(PARAMS_SIZE), lib.cstr(name)
    r = lib.g12sParamsStd(pp, nm)
    raw = lib.rd(pp, PARAMS_SIZE)
    lib.free_one(pp)
    lib.free_one(nm)
    if r != 0:
        raise ValueError("g12sParamsStd(%s) = %d" % (name, r))
    return Params(raw)


def reduce_hash(P, h):
    """the number the scheme actually uses"""
    e = int.from_bytes(h, "big") % P.q
    return e if e else 1


def rand_nz(q, tape, pos=0, tries=65):
    """(value, new position) or (None, position): see module docstring"""
    nb = q.bit_length()
    no = (nb + 7) // 8
    for _ in range(tries):
        if len(tape) < pos + no:
            raise ValueError("tape too short")
        c = int.from_bytes(tape[pos:pos + no], "little") & ((1 << nb) - 1)
        pos += no
        if 0 < c < q:
            return c, pos
    return None, pos


def pubkey(P, d):
    return P.curve.mul(d, P.P)


def enc_pub(P, Q):
    return Q[0].to_bytes(P.no, "little") + Q[1].to_bytes(P.no, "little")


def dec_pub(P, b):
    return (int.from_bytes(b[:P.no], "little"), int.from_bytes(b[P.no:2 * P.no], "little"))


def enc_sig(P, r, s):
    return r.to_bytes(P.mo, "big") + s.to_bytes(P.mo, "big")


def dec_sig(P, sig):
    return int.from_bytes(sig[:P.mo], "big"), int.from_bytes(sig[P.mo:2 * P.mo], "big")


def sign_k(P, d, h, k):
    """one pass of steps 4-5 with a given k: (r, s), either possibly 0 (the standard then draws a new k)"""
    e = reduce_hash(P, h)
    C = P.curve.mul(k, P.P)
    r = C[0] % P.q
    s = (r * d + k * e) % P.q
    return r, s


def sign(P, d, h, tape):
    """-> (sig octets, octets of tape consumed, number of k rejected because r = 0 or s = 0)"""
    pos, redo = 0, 0
    while True:
        k, pos = rand_nz(P.q, tape, pos)
        if k is None:
            return None, pos, redo
        r, s = sign_k(P, d, h, k)
        if r == 0 or s == 0:
            redo += 1
            continue
        return enc_sig(P, r, s), pos, redo


def verify(P, h, sig, Qb):
    """True / False; None when the public key is not a point of the curve (the equation is undefined)"""
    r, s = dec_sig(P, sig)
    if not (0 < r < P.q and 0 < s < P.q):
        return False
    Q = dec_pub(P, Qb)
    if Q[0] >= P.p or Q[1] >= P.p:
        return False
    if not P.curve.is_on(Q):
        return None
    e = reduce_hash(P, h)
    v = pow(e, -1, P.q)
    z1, z2 = s * v % P.q, (-r * v) % P.q
    C = P.curve.add(P.curve.mul(z1, P.P), P.curve.mul(z2, Q))
    if C is None:
        return False
    return C[0] % P.q == r


# ---- appendix A of GOST R 34.10-2012 as embedded in /repo/test/crypto/g12s_test.c ------------

A1 = dict(name="1.2.643.2.2.35.0",
          d="7A929ADE789BB9BE10ED359DD39A72C11B60961F49397EEE1D19CE9891EC3B28",
          Qx="7F2B49E270DB6D90D8595BEC458B50C58585BA1D4E9B788F6689DBD8E56FD80B",
          Qy="26F1B489D6701DD185C8413A977B3CBBAF64D1C593D26627DFFB101A87FF77DA",
          h="2DFBC1B372D89A1188C09C52E0EEC61FCE52032AB1022E8E67ECE6672B043EE5",
          k="77105C9B20BCD3122823C8CF6FCC7B956DE33814E95B7FE64FED924594DCEAB3",
          sig="41AA28D2F1AB148280CD9ED56FEDA41974053554A42767B83AD043FD39DC0493"
              "01456C64BA4642A1653C235A98A60249BCD6D3F746B631DF928014F6C5BF9C40")
A2 = dict(name="1.2.643.7.1.2.1.2.0",
          d="0BA6048AADAE241BA40936D47756D7C93091A0E8514669700EE7508E508B1020"
            "72E8123B2200A0563322DAD2827E2714A2636B7BFD18AADFC62967821FA18DD4",
          Qx="115DC5BC96760C7B48598D8AB9E740D4C4A85A65BE33C1815B5C320C854621DD"
             "5A515856D13314AF69BC5B924C8B4DDFF75C45415C1D9DD9DD33612CD530EFE1",
          Qy="37C7C90CD40B0F5621DC3AC1B751CFA0E2634FA0503B3D52639F5D7FB72AFD61"
             "EA199441D943FFE7F0C70A2759A3CDB84C114E1F9339FDF27F35ECA93677BEEC",
          h="3754F3CFACC9E0615C4F4A7C4D8DAB531B09B6F9C170C533A71D147035B0C591"
            "7184EE536593F4414339976C647C5D5A407ADEDB1D560C4FC6777D2972075B8C",
          k="0359E7F4B1410FEACC570456C6801496946312120B39D019D455986E364F3658"
            "86748ED7A44B3E794434006011842286212273A6D14CF70EA3AF71BB1AE679F1",
          sig="2F86FA60A081091A23DD795E1E3C689EE512A3C82EE0DCC2643C78EEA8FCACD3"
              "5492558486B20F1C9EC197C90699850260C93BCBCD9C5C3317E19344E173AE36"
              "1081B394696FFE8E6585E7A9362D26B6325F56778AADBC081C0BFBE933D52FF5"
              "823CE288E8C4F362526080DF7F70CE406A6EEB1F56919CB92A9853BDE73E5B4A")


def selftest(lib):
    """list of failures; lib supplies the parameter tables only"""
    bad = []
    for name in NAMES:
        try:
            P = load_params(lib, name)
        except ValueError as e:
            bad.append(str(e))
            continue
        if not P.sane():
            bad.append("parameters %s fail the model's sanity checks" % name)
    for V in (A1, A2):
        P = load_params(lib, V["name"])
        d = int(V["d"], 16)
        tape = d.to_bytes(P.mo, "little")
        dd, used = rand_nz(P.q, tape)
        if dd != d or used != P.mo:
            bad.append(V["name"] + " key candidate")
        Q = pubkey(P, d)
        if Q != (int(V["Qx"], 16), int(V["Qy"], 16)):
            bad.append(V["name"] + " public key")
        h = bytes.fromhex(V["h"])
        k = int(V["k"], 16)
        sig, used, redo = sign(P, d, h, k.to_bytes(P.mo, "little"))
        if sig is None or sig.hex().upper() != V["sig"] or redo:
            bad.append(V["name"] + " signature")
            continue
        Qb = enc_pub(P, Q)
        if verify(P, h, sig, Qb) is not True:
            bad.append(V["name"] + " verify")
        for i in (0, 8 * P.mo - 1, 8 * P.mo, 16 * P.mo - 1):
            t = bytearray(sig)
            t[i // 8] ^= 1 << (i % 8)
            if verify(P, h, bytes(t), Qb) is not False:
                bad.append(V["name"] + " verify accepts flipped bit %d" % i)
        # the reduction rules: H + q and (for e = 0) H in {0, q, 1} are the same message for the scheme
        e = int.from_bytes(h, "big") % P.q
        if e + P.q < 1 << (8 * P.mo):
            if verify(P, (e + P.q).to_bytes(P.mo, "big"), sig, Qb) is not True and int.from_bytes(h, "big") == e:
                bad.append(V["name"] + " H + q")
        z, _, _ = sign(P, d, bytes(P.mo), k.to_bytes(P.mo, "little"))
        if not (verify(P, (1).to_bytes(P.mo, "big"), z, Qb) and verify(P, P.q.to_bytes(P.mo, "big"), z, Qb)
                and verify(P, bytes(P.mo), z, Qb)) or verify(P, (2).to_bytes(P.mo, "big"), z, Qb):
            bad.append(V["name"] + " e = 0 -> 1 rule")
        # off-curve key: undefined
        t = bytearray(Qb)
        t[0] ^= 1
        if verify(P, h, sig, bytes(t)) is not None:
            bad.append(V["name"] + " off-curve key not recognised")
    return bad
