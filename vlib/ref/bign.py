"""Naive model of STB 34.101.45 (bign) over ref/ec.py and Python ints.

Written from the algorithm descriptions in include/bee2/crypto/bign.h and the
structure of the standard (6.2 keys, 6.3.3 deterministic nonce, 7.1 signature,
7.2 key transport, appendix B identity-based signature).  Everything is an
affine point / a Python int / an octet string; no window tables, no Jacobian
coordinates, no Montgomery form, nothing shared with bee2's ec/zz layer.

Assumptions (stated in the evidence by the check):
* belt-hash, belt-wblock and belt-kwp are NOT re-modelled here: the model
  calls the library's own belt functions (property C01 ties them to
  STB 34.101.31).
* the curve tables come from bignParamsStd (selftest checks p, q prime,
  p = 2^{2l} - c with the published c, a = p - 3, G on the curve, qG = O,
  Hasse interval).
* conventions copied from the implementation because the standard leaves them
  open: one rejection-sampling round of the generator consumes l/4 octets,
  read little-endian; a candidate is rejected when it is 0 or >= q; after the
  first candidate at most B_PER_IMPOSSIBLE = 64 further candidates are tried,
  then ERR_BAD_RNG (zzRandNZMod in src/math/zz/zz_mod.c).

All public methods take and return octet strings exactly as the C API does and
return (error name, outputs...) so that the check can compare accept/reject
decisions and values.
"""
import ctypes
from . import ec

STD_NAMES = {128: "1.2.112.0.2.0.34.101.45.3.1",
             192: "1.2.112.0.2.0.34.101.45.3.2",
             256: "1.2.112.0.2.0.34.101.45.3.3"}
# p = 2^{2l} - c (tables B.1-B.3 of the standard)
STD_C = {128: 189, 192: 317, 256: 569}
RETRIES = 64          # B_PER_IMPOSSIBLE (defs.h): candidates tried after the first one; the check re-reads it from defs.h
OID_BELT_HASH = "1.2.112.0.2.0.34.101.31.81"

OK = "ERR_OK"


class BignParamsStruct(ctypes.Structure):
    """struct bign_params of bign.h"""
    _fields_ = [("l", ctypes.c_size_t),
                ("p", ctypes.c_ubyte * 64), ("a", ctypes.c_ubyte * 64), ("b", ctypes.c_ubyte * 64),
                ("q", ctypes.c_ubyte * 64), ("yG", ctypes.c_ubyte * 64), ("seed", ctypes.c_ubyte * 8)]


PARAMS_SIZE = ctypes.sizeof(BignParamsStruct)


def le(x, n):
    return x.to_bytes(n, "little")


def num(b):
    return int.from_bytes(bytes(b), "little")


# ----------------------------------------------------------------------------
# object identifiers (bign.h, section bign-oid)
# ----------------------------------------------------------------------------

def _b128(v):
    out = [v & 0x7F]
    v >>= 7
    while v:
        out.append(0x80 | (v & 0x7F))
        v >>= 7
    return bytes(reversed(out))


def oid_to_der(s):
    """DER of the dotted string (X.690 8.19), definite minimal length"""
    arcs = [int(x) for x in s.split(".")]
    body = _b128(40 * arcs[0] + arcs[1]) + b"".join(_b128(a) for a in arcs[2:])
    n = len(body)
    if n < 128:
        ln = bytes([n])
    else:
        lb = n.to_bytes((n.bit_length() + 7) // 8, "big")
        ln = bytes([0x80 | len(lb)]) + lb
    return b"\x06" + ln + body


def oid_der_valid(der):
    """strict: tag 06, minimal definite length covering exactly the rest, non-empty content,
    every arc minimally encoded (no leading 0x80), complete, and <= 2^32 - 1 (bee2's restriction;
    the combined first arc 40 d1 + d2 likewise)"""
    der = bytes(der)
    if len(der) < 3 or der[0] != 0x06:
        return False
    if der[1] < 0x80:
        n, off = der[1], 2
    else:
        k = der[1] & 0x7F
        if k == 0 or k > 8 or len(der) < 2 + k:
            return False
        n = int.from_bytes(der[2:2 + k], "big")
        off = 2 + k
        if der[2] == 0 or n < 128:
            return False
    body = der[off:]
    if n != len(body) or n == 0:
        return False
    v, start = 0, True
    for o in body:
        if start and o == 0x80:
            return False
        v = (v << 7) | (o & 0x7F)
        if v > 0xFFFFFFFF:
            return False
        start = False
        if not o & 0x80:
            v, start = 0, True
    return start


# ----------------------------------------------------------------------------
# parameters
# ----------------------------------------------------------------------------

class Params:
    def __init__(self, l, p, a, b, q, yG, raw):
        self.l = l
        self.no = l // 4            # octets of a field element / scalar / hash value
        self.p, self.a, self.b, self.q, self.yG = p, a, b, q, yG
        self.raw = raw              # the struct octets as the library produced them
        self.curve = ec.Curve(p, a, b)
        self.G = (0, yG)


def load_params(lib, l):
    pp = lib.alloc(PARAMS_SIZE)
    nm = lib.cstr(STD_NAMES[l])
    r = lib.bignParamsStd(pp, nm)
    raw = lib.rd(pp, PARAMS_SIZE)
    lib.free_one(pp)
    lib.free_one(nm)
    if r != 0:
        raise ValueError("bignParamsStd(%s) = %d" % (STD_NAMES[l], r))
    s = BignParamsStruct.from_buffer_copy(raw)
    if s.l != l:
        raise ValueError("bignParamsStd level")
    return Params(l, num(s.p), num(s.a), num(s.b), num(s.q), num(s.yG), raw)


# ----------------------------------------------------------------------------
# belt through the library (assumption: C01)
# ----------------------------------------------------------------------------

class Belt:
    def __init__(self, lib):
        self.lib = lib

    def hash(self, data):
        lib = self.lib
        src = lib.mk(data)
        out = lib.alloc(32)
        r = lib.beltHash(out, src, len(data))
        h = lib.rd(out, 32)
        lib.free_one(src)
        lib.free_one(out)
        if r != 0:
            raise ValueError("beltHash")
        return h

    def wblock_enc(self, block, theta):
        """belt-wblock encryption of a whole wide block (>= 32 octets) under a 32-octet key; a fresh
        state per call, as the standard's 'k <- belt-wblock(k, theta)' reads"""
        lib = self.lib
        st = lib.alloc(lib.beltWBL_keep())
        key = lib.mk(theta)
        buf = lib.mk(block)
        lib.beltWBLStart(st, key, 32)
        lib.beltWBLStepE(buf, len(block), st)
        out = lib.rd(buf, len(block))
        for x in (st, key, buf):
            lib.free_one(x)
        return out

    def kwp_wrap(self, key, header, theta):
        lib = self.lib
        src = lib.mk(key)
        hd = lib.mk(header)
        th = lib.mk(theta)
        out = lib.alloc(len(key) + 16)
        r = lib.beltKWPWrap(out, src, len(key), hd, th, 32)
        tok = lib.rd(out, len(key) + 16)
        for x in (src, hd, th, out):
            lib.free_one(x)
        if r != 0:
            raise ValueError("beltKWPWrap")
        return tok

    def kwp_unwrap(self, token, header, theta):
        """key, or None when the recovered header differs"""
        lib = self.lib
        src = lib.mk(token)
        hd = lib.mk(header)
        th = lib.mk(theta)
        out = lib.alloc(len(token) - 16)
        r = lib.beltKWPUnwrap(out, src, len(token), hd, th, 32)
        key = lib.rd(out, len(token) - 16)
        for x in (src, hd, th, out):
            lib.free_one(x)
        return key if r == 0 else None


# ----------------------------------------------------------------------------
# generator tapes
# ----------------------------------------------------------------------------

class Tape:
    """a finite generator tape; reading past the end yields zeros and sets .overrun"""

    def __init__(self, data):
        self.data, self.pos, self.overrun = bytes(data), 0, False

    def read(self, n):
        out = self.data[self.pos:self.pos + n]
        self.pos += n
        if len(out) < n:
            self.overrun = True
            out = out + bytes(n - len(out))
        return out


# ----------------------------------------------------------------------------
# the algorithms
# ----------------------------------------------------------------------------

class Bign:
    def __init__(self, lib, l, params=None):
        self.lib = lib
        self.P = params or load_params(lib, l)
        self.belt = Belt(lib)
        P = self.P
        self.l, self.no, self.q, self.p = P.l, P.no, P.q, P.p
        self.C, self.G = P.curve, P.G
        self.two_l = 1 << P.l

    # -- helpers ---------------------------------------------------------------
    def point_bytes(self, Pt):
        return le(Pt[0], self.no) + le(Pt[1], self.no)

    def load_point(self, Qb):
        """(x, y) if both coordinates are < p and the point is on the curve, else None (alg. 6.2.3)"""
        no = self.no
        x, y = num(Qb[:no]), num(Qb[no:2 * no])
        if x >= self.p or y >= self.p:
            return None
        if not self.C.is_on((x, y)):
            return None
        return (x, y)

    def load_priv(self, db):
        d = num(db)
        return d if 0 < d < self.q else None

    def rand_nz(self, gen):
        """d <-R {1..q-1}: implementation convention, see module docstring; None after 65 bad candidates"""
        for _ in range(RETRIES + 1):
            c = num(gen.read(self.no))      # 2l bits exactly: nothing to trim
            if 0 < c < self.q:
                return c
        return None

    def s0_of(self, *parts):
        return self.belt.hash(b"".join(parts))[:self.no // 2]

    # -- 6.2 keys ----------------------------------------------------------------
    def keypair_gen(self, gen):
        d = self.rand_nz(gen)
        if d is None:
            return ("ERR_BAD_RNG",)
        return (OK, le(d, self.no), self.point_bytes(self.C.mul(d, self.G)))

    def pubkey_calc(self, db):
        d = self.load_priv(db)
        if d is None:
            return ("ERR_BAD_PRIVKEY",)
        return (OK, self.point_bytes(self.C.mul(d, self.G)))

    def pubkey_val(self, Qb):
        return (OK,) if self.load_point(Qb) is not None else ("ERR_BAD_PUBKEY",)

    def keypair_val(self, db, Qb):
        d = self.load_priv(db)
        if d is None:
            return ("ERR_BAD_PRIVKEY",)
        if self.point_bytes(self.C.mul(d, self.G)) != bytes(Qb):
            return ("ERR_BAD_PUBKEY",)
        return (OK,)

    def dh(self, db, Qb, key_len):
        if key_len > 2 * self.no:
            return ("ERR_BAD_SHAREDKEY",)
        d = self.load_priv(db)
        if d is None:
            return ("ERR_BAD_PRIVKEY",)
        Q = self.load_point(Qb)
        if Q is None:
            return ("ERR_BAD_PUBKEY",)
        R = self.C.mul(d, Q)            # d in [1, q-1], Q of prime order q: never O
        return (OK, self.point_bytes(R)[:key_len])

    # -- 7.1 signature -----------------------------------------------------------
    def sign_k(self, oid_der, H, d, k):
        """steps of 7.1.3 for a given one-time key k; ints d, k; returns the signature octets"""
        R = self.C.mul(k, self.G)
        s0b = self.s0_of(oid_der, le(R[0], self.no), H)
        s1 = (k - num(H) - (num(s0b) + self.two_l) * d) % self.q
        return s0b + le(s1, self.no)

    def sign(self, oid_der, H, db, gen):
        if not oid_der_valid(oid_der):
            return ("ERR_BAD_OID",)
        d = self.load_priv(db)
        if d is None:
            return ("ERR_BAD_PRIVKEY",)
        k = self.rand_nz(gen)
        if k is None:
            return ("ERR_BAD_RNG",)
        return (OK, self.sign_k(oid_der, H, d, k))

    def nonce_det(self, oid_der, db, H, t):
        """alg. 6.3.3: theta = belt-hash(oid || d || t); k <- H; repeat k <- belt-wblock(k, theta)
        until k in {1..q-1}"""
        theta = self.belt.hash(bytes(oid_der) + bytes(db) + (bytes(t) if t is not None else b""))
        r = bytes(H)
        while True:
            r = self.belt.wblock_enc(r, theta)
            k = num(r)
            if 0 < k < self.q:
                return k

    def sign2(self, oid_der, H, db, t):
        if not oid_der_valid(oid_der):
            return ("ERR_BAD_OID",)
        d = self.load_priv(db)
        if d is None:
            return ("ERR_BAD_PRIVKEY",)
        k = self.nonce_det(oid_der, db, H, t)
        return (OK, self.sign_k(oid_der, H, d, k))

    def verify(self, oid_der, H, sig, Qb):
        """7.1.4 on exactly the given octets"""
        no = self.no
        if not oid_der_valid(oid_der):
            return ("ERR_BAD_OID",)
        Q = self.load_point(Qb)
        if Q is None:
            return ("ERR_BAD_PUBKEY",)
        s0, s1 = num(sig[:no // 2]), num(sig[no // 2:no // 2 + no])
        if s1 >= self.q:
            return ("ERR_BAD_SIG",)
        R = self.C.add(self.C.mul((s1 + num(H)) % self.q, self.G), self.C.mul(s0 + self.two_l, Q))
        if R is None:
            return ("ERR_BAD_SIG",)
        if self.s0_of(oid_der, le(R[0], no), H) != bytes(sig[:no // 2]):
            return ("ERR_BAD_SIG",)
        return (OK,)

    # -- 7.2 key transport ----------------------------------------------------------
    def key_wrap(self, key, header, Qb, gen):
        if len(key) < 16:
            return ("ERR_BAD_INPUT",)
        k = self.rand_nz(gen)
        if k is None:
            return ("ERR_BAD_RNG",)
        Q = self.load_point(Qb)
        if Q is None:
            return ("ERR_BAD_PUBKEY",)
        header = bytes(16) if header is None else bytes(header)
        theta = le(self.C.mul(k, Q)[0], self.no)[:32]
        R = self.C.mul(k, self.G)
        return (OK, le(R[0], self.no) + self.belt.kwp_wrap(key, header, theta))

    def key_unwrap(self, token, header, db):
        no = self.no
        if len(token) < 32 + no:
            return ("ERR_BAD_KEYTOKEN",)
        d = self.load_priv(db)
        if d is None:
            return ("ERR_BAD_PRIVKEY",)
        x = num(token[:no])
        if x >= self.p:
            return ("ERR_BAD_KEYTOKEN",)
        y = ec.sqrt_mod((x * x * x + self.P.a * x + self.P.b) % self.p, self.p)
        if y is None:
            return ("ERR_BAD_KEYTOKEN",)
        R = self.C.mul(d, (x, y))       # the x-coordinate does not depend on the sign of y
        theta = le(R[0], no)[:32]
        header = bytes(16) if header is None else bytes(header)
        key = self.belt.kwp_unwrap(bytes(token[no:]), header, theta)
        if key is None:
            return ("ERR_BAD_KEYTOKEN",)
        return (OK, key)

    # -- appendix B: identity-based signature ---------------------------------------
    def id_extract(self, oid_der, H0, sig, Qb):
        no = self.no
        if not oid_der_valid(oid_der):
            return ("ERR_BAD_OID",)
        Q = self.load_point(Qb)
        if Q is None:
            return ("ERR_BAD_PUBKEY",)
        s0, s1 = num(sig[:no // 2]), num(sig[no // 2:no // 2 + no])
        if s1 >= self.q:
            return ("ERR_BAD_SIG",)
        e = (s1 + num(H0)) % self.q
        R = self.C.add(self.C.mul(e, self.G), self.C.mul(s0 + self.two_l, Q))
        if R is None:
            return ("ERR_BAD_SIG",)
        if self.s0_of(oid_der, le(R[0], no), H0) != bytes(sig[:no // 2]):
            return ("ERR_BAD_SIG",)
        return (OK, le(e, no), self.point_bytes(R))

    def id_sign_k(self, oid_der, H0, H, e, k):
        V = self.C.mul(k, self.G)
        s0b = self.s0_of(oid_der, le(V[0], self.no), H0, H)
        s1 = (k - (num(s0b) + self.two_l) * e - num(H)) % self.q
        return s0b + le(s1, self.no)

    def id_sign(self, oid_der, H0, H, eb, gen):
        if not oid_der_valid(oid_der):
            return ("ERR_BAD_OID",)
        e = num(eb)
        if e >= self.q:
            return ("ERR_BAD_PRIVKEY",)
        k = self.rand_nz(gen)
        if k is None:
            return ("ERR_BAD_RNG",)
        return (OK, self.id_sign_k(oid_der, H0, H, e, k))

    def id_sign2(self, oid_der, H0, H, eb, t):
        if not oid_der_valid(oid_der):
            return ("ERR_BAD_OID",)
        e = num(eb)
        if e >= self.q:
            return ("ERR_BAD_PRIVKEY",)
        k = self.nonce_det(oid_der, eb, H, t)
        return (OK, self.id_sign_k(oid_der, H0, H, e, k))

    def id_verify(self, oid_der, H0, H, sig, Rb, Qb):
        no = self.no
        if not oid_der_valid(oid_der):
            return ("ERR_BAD_OID",)
        R = self.load_point(Rb)
        Q = self.load_point(Qb)
        if R is None or Q is None:
            return ("ERR_BAD_PUBKEY",)
        s0, s1 = num(sig[:no // 2]), num(sig[no // 2:no // 2 + no])
        if s1 >= self.q:
            return ("ERR_BAD_SIG",)
        t = num(self.s0_of(oid_der, bytes(Rb[:no]), H0))
        C = self.C
        V = C.add(C.add(C.mul((s1 + num(H)) % self.q, self.G), C.mul(s0 + self.two_l, R)),
                  C.mul((-(t + self.two_l) * (s0 + self.two_l)) % self.q, Q))
        if V is None:
            return ("ERR_BAD_SIG",)
        if self.s0_of(oid_der, le(V[0], no), H0, H) != bytes(sig[:no // 2]):
            return ("ERR_BAD_SIG",)
        return (OK,)


# ----------------------------------------------------------------------------
# selftest: appendix vectors embedded in /repo/test/crypto/bign_test.c
# ----------------------------------------------------------------------------

class _CtrX:
    """the generator of bign_test.c (brngCTRX): the buffer is pre-filled cyclically with X and then
    passed through the library's brngCTRStepR (C03 ties brng-ctr to STB 34.101.47)"""

    def __init__(self, lib, key, iv, X):
        self.lib, self.X, self.off = lib, X, 0
        self.st = lib.alloc(lib.brngCTR_keep())
        k, i = lib.mk(key), lib.mk(iv)
        lib.brngCTRStart(self.st, k, i)
        lib.free_one(k)
        lib.free_one(i)

    def read(self, n):
        lib = self.lib
        buf = bytes(self.X[(self.off + j) % len(self.X)] for j in range(n))
        self.off = (self.off + n) % len(self.X)
        p = lib.mk(buf)
        lib.brngCTRStepR(p, n, self.st)
        out = lib.rd(p, n)
        lib.free_one(p)
        return out

    def close(self):
        self.lib.free_one(self.st)


def _hx(s):
    return bytes.fromhex(s)


def selftest(lib, levels=(128, 192, 256)):
    """raises ValueError with the name of the failing anchor; returns the list of anchors passed.
    The appendix vectors (l = 128) are always checked; curve tables and the internal-consistency
    checks only for the listed levels."""
    passed = []

    def need(cond, what):
        if not cond:
            raise ValueError("bign model selftest failed: " + what)
        passed.append(what)

    # OID coding
    need(oid_to_der(OID_BELT_HASH) == _hx("06092A7000020022651F51"), "oid DER of belt-hash (11 octets)")
    need(oid_der_valid(oid_to_der(OID_BELT_HASH)) and not oid_der_valid(_hx("06092A7000020022651FD1"))
         and not oid_der_valid(_hx("06022A80")) and not oid_der_valid(_hx("0600"))
         and oid_der_valid(oid_to_der("2.4294967215")) and not oid_der_valid(oid_to_der("2.4294967216"))
         and oid_der_valid(oid_to_der("1.2.4294967295")) and not oid_der_valid(oid_to_der("1.2.4294967296"))
         and not oid_der_valid(_hx("0603802A01")) and not oid_der_valid(_hx("0681012A")), "oid validator")
    # curve tables
    for l in levels:
        P = load_params(lib, l)
        C = P.curve
        need(P.p == (1 << 2 * l) - STD_C[l] and P.a == P.p - 3 and P.p % 4 == 3, "table l=%d: p, a" % l)
        need(ec.is_probable_prime(P.p) and ec.is_probable_prime(P.q), "table l=%d: p, q prime" % l)
        need(C.discriminant_nonzero() and C.is_on(P.G), "table l=%d: G on a non-singular curve" % l)
        need(C.mul(P.q, P.G) is None and C.mul(P.q - 1, P.G) == C.neg(P.G), "table l=%d: qG = O" % l)
        need((P.q - P.p - 1) ** 2 <= 4 * P.p and P.q != P.p and (1 << (2 * l - 1)) < P.q < P.p,
             "table l=%d: Hasse, q != p, 2^(2l-1) < q < p" % l)
    # appendix vectors (l = 128)
    M = Bign(lib, 128)
    Hb = lib.rd(lib.beltH(), 256)
    der = oid_to_der(OID_BELT_HASH)
    gen = _CtrX(lib, Hb[128:160], Hb[192:224], Hb)
    try:
        # G.1
        r = M.keypair_gen(gen)
        d = _hx("1F66B5B84B7339674533F0329C74F21834281FED0732429E0C79235FC273E269")
        Q = _hx("BD1A5650179D79E03FCEE49D4C2BD5DDF54CE46D0CF11E4FF87BF7A890857FD0"
                "7AC6A60361E8C8173491686D461B2826190C2EDA5909054A9AB84D2AB9D99A90")
        need(r == (OK, d, Q), "G.1 key pair")
        need(M.pubkey_calc(d) == (OK, Q) and M.pubkey_val(Q) == (OK,) and M.keypair_val(d, Q) == (OK,),
             "G.1 pubkey calc/val")
        need(M.dh(d, M.point_bytes(M.G), 64) == (OK, Q), "G.1 DH with G")
        # G.2
        h13 = M.belt.hash(Hb[:13])
        r = M.sign(der, h13, d, gen)
        sig2 = _hx("E36B7F0377AE4C524027C387FADF1B20CE72F1530B71F2B5FD3A8C584FE2E1AED20082E30C8AF65011F4FB54649DFD3D")
        need(r == (OK, sig2), "G.2 signature")
        need(M.verify(der, h13, sig2, Q) == (OK,), "G.2 verify")
        bad = bytes([sig2[0] ^ 1]) + sig2[1:]
        need(M.verify(der, h13, bad, Q) == ("ERR_BAD_SIG",), "G.2 verify, altered sig")
        need(M.verify(der, h13, sig2, bytes([Q[0] ^ 1]) + Q[1:])[0] != OK, "G.2 verify, altered pubkey")
        # G.8
        r = M.id_extract(der, h13, sig2, Q)
        idQ = _hx("CCEEF1A313A406649D15DA0A851D486A695B641B20611776252FFDCE39C71060"
                  "7C9EA1F33C23D20DFCB8485A88BE6523A28ECC3215B47FA289D6C9BE1CE837C0")
        ide = _hx("79628979DF369BEB94DEF3299476AED414F39148AA69E31A7397E8AA70578AB3")
        need(r == (OK, ide, idQ), "G.8 id extract")
        # G.4
        r = M.key_wrap(Hb[:18], Hb[32:48], Q, gen)
        tok4 = _hx("9B4EA669DABDF100A7D4B6E6EB76EE5251912531F426750AAC8A9DBB51C54D8D"
                   "EB9289B50A46952D0531861E45A8814B008FDC65DE9FF1FA2A1F16B6A280E957A814")
        need(r == (OK, tok4), "G.4 key wrap")
        need(M.key_unwrap(tok4, Hb[32:48], d) == (OK, Hb[:18]), "G.4 key unwrap")
        need(M.key_unwrap(tok4, Hb[33:49], d) == ("ERR_BAD_KEYTOKEN",), "G.4 key unwrap, other header")
        # G.3
        h48 = M.belt.hash(Hb[:48])
        r = M.sign(der, h48, d, gen)
        sig3 = _hx("47A63C8B9C936E94B5FAB3D9CBD78366290F3210E163EEC8DB4E921E8479D4138F112CC23E6DCE65EC5FF21DF4231C28")
        need(r == (OK, sig3) and M.verify(der, h48, sig3, Q) == (OK,), "G.3 signature")
        # G.5
        r = M.key_wrap(Hb[:32], Hb[64:80], Q, gen)
        tok5 = _hx("4856093A0F6C13015FC8E15F1B23A76202D2F4BA6E5EC52B78658477F6486DE6"
                   "87AFAEEA0EF7BC1326A7DCE7A10BA10E3F91C0126044B22267BF30BD6F1DA29E"
                   "0647CF39C1D59A56BB0194E0F4F8A2BB")
        need(r == (OK, tok5) and M.key_unwrap(tok5, Hb[64:80], d) == (OK, Hb[:32]), "G.5 key wrap/unwrap")
        # G.6, G.7 (one-time keys of alg. 6.3.3)
        k6 = M.nonce_det(der, d, h13, None)
        need(le(k6, 32) == _hx("829614D8411DBBC4E1F2471A4004586440FD8C9553FAB6A1A45CE417AE97111E"), "G.6 nonce")
        k7 = M.nonce_det(der, d, h48, Hb[192:192 + 23])
        need(le(k7, 32) == _hx("7ADC8713283EBFA547A2AD9CDFB245AE0F7B968DF0F91CB785D1F932A3583107"), "G.7 nonce")
        r = M.sign2(der, h13, d, None)
        need(r[0] == OK and M.verify(der, h13, r[1], Q) == (OK,), "G.6 sign2 verifies in the model")
        # G.9, G.10
        hA = M.belt.hash(Hb[32:48])
        r = M.id_sign(der, h13, hA, ide, gen)
        isig9 = _hx("1697FE6A073D3B28C9D0DD832A169D7B8D342FDC47BC8AAEB6226448956E22D6CC73B62CB21B66E5C8DE0A3E234FB0C6")
        need(r == (OK, isig9), "G.9 id signature")
        need(M.id_verify(der, h13, hA, isig9, idQ, Q) == (OK,), "G.9 id verify")
        need(M.id_verify(der, h13, hA, bytes([isig9[0] ^ 1]) + isig9[1:], idQ, Q) == ("ERR_BAD_SIG",),
             "G.9 id verify, altered sig")
        need(M.id_verify(der, h13, hA, isig9, bytes([idQ[0] ^ 1]) + idQ[1:], Q)[0] != OK,
             "G.9 id verify, altered id_pubkey")
        hB = M.belt.hash(Hb[32:55])
        r = M.id_sign(der, h13, hB, ide, gen)
        isig10 = _hx("31CBA14FC2D79AFCD8F50E29F993FC2CB270BD0A79D534B3B120791400C8BB1850AD6D3C78047FCB46F18608AC7006AA")
        need(r == (OK, isig10) and M.id_verify(der, h13, hB, isig10, idQ, Q) == (OK,), "G.10 id signature")
        r = M.id_sign2(der, h13, hB, ide, None)
        need(r[0] == OK and M.id_verify(der, h13, hB, r[1], idQ, Q) == (OK,), "id_sign2 verifies in the model")
    finally:
        gen.close()
    # rejection-sampling convention
    q = M.q
    need(M.rand_nz(Tape(le(0, 32) + le(q, 32) + le(5, 32))) == 5, "rand_nz skips 0 and q")
    need(M.rand_nz(Tape(le(q, 32) * RETRIES + le(q - 1, 32))) == q - 1, "rand_nz: B_PER_IMPOSSIBLE bad + good -> good")
    need(M.rand_nz(Tape(le(q, 32) * (RETRIES + 1) + le(q - 1, 32))) is None, "rand_nz: B_PER_IMPOSSIBLE + 1 bad -> failure")
    # other levels: internal consistency only (no appendix vectors for l = 192, 256 in the repository)
    for l in levels:
        if l == 128:
            continue
        M = Bign(lib, l)
        d = le(M.q - 2, M.no)
        Q = M.pubkey_calc(d)[1]
        Hh = le(M.q + 5, M.no)
        r = M.sign2(der, Hh, d, b"t")
        need(r[0] == OK and M.verify(der, Hh, r[1], Q) == (OK,), "l=%d sign2/verify consistent (H >= q)" % l)
        r = M.key_wrap(bytes(range(40)), None, Q, Tape(le(7, M.no)))
        need(r[0] == OK and M.key_unwrap(r[1], None, d) == (OK, bytes(range(40))), "l=%d wrap/unwrap consistent" % l)
    return passed
