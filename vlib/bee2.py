"""ctypes binding to a libbee2.so built by build.py, with exact-size heap buffers.

Every pointer handed to bee2 is a fresh libc malloc() of exactly the requested
size (ASan-intercepted when the process runs with LD_PRELOAD=libasan.so), so a
one-octet over-read or over-write lands in a red zone.
"""
import ctypes, os
from . import build, proto

_libc = ctypes.CDLL(None)
_libc.malloc.restype = ctypes.c_void_p
_libc.malloc.argtypes = [ctypes.c_size_t]
_libc.free.restype = None
_libc.free.argtypes = [ctypes.c_void_p]
_memmove = ctypes.memmove
_string_at = ctypes.string_at

ERR_OK = 0

W32_CFGS = {"asan32", "rel32", "dbg32"}


def errcode(name, _cache={}):
    """Numeric value of ERR_* from err.h of the current tree."""
    if not _cache:
        import re
        txt = open(os.path.join(build.REPO, "include/bee2/core/err.h"), encoding="utf-8", errors="replace").read()
        for m in re.finditer(r"#define\s+(ERR_\w+)\s+(?:_ERR_REG\(|\(\(err_t\))(\d+)\)", txt):
            _cache[m.group(1)] = int(m.group(2))
        _cache["ERR_OK"] = 0
        _cache["ERR_MAX"] = 0xFFFFFFFF
    return _cache[name]


def errname(code, _rev={}):
    if not _rev:
        errcode("ERR_OK")
        for k, v in errcode.__defaults__[0].items():
            _rev.setdefault(v, k)
    return _rev.get(code, "ERR_%d" % code)


class Lib:
    def __init__(self, cfg, libdir=None):
        self.cfg = cfg
        self.libdir = libdir or build.build(cfg)
        self.dll = ctypes.CDLL(os.path.join(self.libdir, "libbee2.so"))
        self.W = 4 if cfg in W32_CFGS else 8
        self.B = self.W * 8
        self.protos = proto.parse_headers()
        self._fn = {}
        self._live = []
        self.sizes = {}
        self.fill = 0xA5

    # ---- functions -------------------------------------------------------
    def declare(self, name, ret, args):
        f = getattr(self.dll, name)
        f.restype = proto.ctype(ret, self.W)
        f.argtypes = [proto.ctype(a, self.W) for a in args]
        self._fn[name] = f
        return f

    @property
    def fillbyte(self):
        """the fill pattern as one octet (0x5A when buffers are left unfilled for memcheck)"""
        f = self.fill
        return f if isinstance(f, int) and 0 <= f <= 255 else 0x5A

    def has(self, name):
        try:
            getattr(self.dll, name)
            return True
        except AttributeError:
            return False

    def __getattr__(self, name):
        fn = self.__dict__["_fn"].get(name)
        if fn is not None:
            return fn
        if name.startswith("_"):
            raise AttributeError(name)
        p = self.protos.get(name)
        if p is None:
            raise AttributeError("no prototype for " + name)
        ret, args, _ = p
        if "..." in args:
            f = getattr(self.dll, name)
            f.restype = proto.ctype(ret, self.W)
            self._fn[name] = f
            return f
        return self.declare(name, ret, args)

    def addr(self, name):
        return ctypes.cast(getattr(self.dll, name), ctypes.c_void_p).value

    # ---- memory ----------------------------------------------------------
    def alloc(self, n, fill=None):
        p = _libc.malloc(n)
        if p is None:
            p = 0
        f = self.fill if fill is None else fill
        if n and f is not None and f >= 0:
            ctypes.memset(p, f, n)      # fill < 0: leave the block as malloc returned it (memcheck: undefined)
        self._live.append(p)
        self.sizes[p] = n
        return p

    def mk(self, data):
        n = len(data)
        p = _libc.malloc(n) or 0
        if n:
            _memmove(p, bytes(data), n)
        self._live.append(p)
        self.sizes[p] = n
        return p

    def cstr(self, s):
        if isinstance(s, str):
            s = s.encode()
        return self.mk(s + b"\0")

    def rd(self, p, n):
        return _string_at(p, n) if n else b""

    def wr(self, p, data):
        if len(data):
            _memmove(p, bytes(data), len(data))

    def release(self):
        for p in self._live:
            _libc.free(p)
        self._live = []
        self.sizes = {}

    def free_one(self, p):
        self._live.remove(p)
        _libc.free(p)

    # ---- words -----------------------------------------------------------
    def mkw(self, x, n):
        """n-word little-endian representation of integer x"""
        return self.mk(x.to_bytes(n * self.W, "little"))

    def rdw(self, p, n):
        return int.from_bytes(self.rd(p, n * self.W), "little")

    def outw(self, n, fill=None):
        return self.alloc(n * self.W, fill)

    def rd_size(self, p):
        return int.from_bytes(self.rd(p, 8), "little")

    def mk_size(self, v):
        return self.mk((v & (2**64 - 1)).to_bytes(8, "little"))
