"""Python side of drv/wrapalloc.c (libwa.so, LD_PRELOADed into the worker): allocation-failure injection,
allocation balance and snapshots of released blocks; forked twin execution."""
import ctypes, os, pickle, signal, struct, subprocess, hashlib
from . import build
from .core import Harness


def build_libwa():
    src = os.path.join(build.VERIF, "drv", "wrapalloc.c")
    h = hashlib.sha256(open(src, "rb").read()).hexdigest()[:12]
    os.makedirs(build.CACHE, exist_ok=True)
    out = os.path.join(build.CACHE, "libwa-%s.so" % h)
    if not os.path.exists(out):
        tmp = out + ".tmp%d" % os.getpid()
        r = subprocess.run(["gcc", "-O2", "-fPIC", "-shared", "-o", tmp, src], capture_output=True, text=True)
        if r.returncode != 0:
            raise RuntimeError("libwa build failed: " + r.stderr)
        os.rename(tmp, out)
    return out


class WA:
    def __init__(self, lib):
        self.lib = lib
        g = ctypes.CDLL(None)
        try:
            g.wa_present
        except AttributeError:
            raise Harness("libwa.so is not preloaded into this worker")
        self.g = g
        g.wa_begin.argtypes = [ctypes.c_long]
        g.wa_set_range.argtypes = [ctypes.c_size_t, ctypes.c_size_t]
        g.wa_overrun_size.restype = ctypes.c_size_t
        for n in ("wa_nalloc", "wa_nfree", "wa_failed", "wa_live", "wa_overruns"):
            getattr(g, n).restype = ctypes.c_long
        g.wa_live_bytes.restype = ctypes.c_size_t
        g.wa_snap_size.restype = ctypes.c_size_t
        g.wa_snap_size.argtypes = [ctypes.c_int]
        g.wa_snap_how.argtypes = [ctypes.c_int]
        g.wa_snap_data.restype = ctypes.c_void_p
        g.wa_snap_data.argtypes = [ctypes.c_int]
        g.wa_snap_addr.restype = ctypes.c_size_t
        g.wa_snap_addr.argtypes = [ctypes.c_int]
        g.wa_live_size.restype = ctypes.c_size_t
        g.wa_live_size.argtypes = [ctypes.c_int]
        g.wa_live_data.restype = ctypes.c_void_p
        g.wa_live_data.argtypes = [ctypes.c_int]
        # text range of libbee2.so
        lo, hi = None, None
        for line in open("/proc/self/maps"):
            if "libbee2.so" in line and " r-xp " in line:
                a, b = line.split()[0].split("-")
                a, b = int(a, 16), int(b, 16)
                lo = a if lo is None else min(lo, a)
                hi = b if hi is None else max(hi, b)
        if lo is None:
            raise Harness("libbee2.so text mapping not found")
        g.wa_set_range(lo, hi)

    def run(self, fn, args, fail_at=0):
        """call fn(*args) with recording on; returns (ret, info)"""
        g = self.g
        g.wa_begin(fail_at)
        ret = fn(*args)
        g.wa_end()
        snaps = []
        for i in range(g.wa_nsnaps()):
            n = g.wa_snap_size(i)
            snaps.append((g.wa_snap_how(i), ctypes.string_at(g.wa_snap_data(i), n) if n else b"", g.wa_snap_addr(i)))
        # blocks the call obtained and did not release (how = 2): inspected like released ones
        leaked = []
        for i in range(g.wa_live()):
            n = g.wa_live_size(i)
            leaked.append((2, ctypes.string_at(g.wa_live_data(i), n) if n else b"", g.wa_live_data(i) or 0))
        info = {"nalloc": g.wa_nalloc(), "nfree": g.wa_nfree(), "failed": g.wa_failed(), "live": g.wa_live(),
                "live_bytes": g.wa_live_bytes(), "overflow": g.wa_overflow(), "snaps": snaps, "leaked": leaked,
                "overruns": g.wa_overruns(), "overrun_block_size": g.wa_overrun_size()}
        g.wa_release_leaked()
        return ret, info


def in_twins(funcs, timeout=60):
    """run funcs[0]() and funcs[1]() in two processes that start from the *same* memory image: one child is forked, it
    forks the second twin at once, and only then do the two pick their function.  (Forking the twins one after the other
    from the parent would give them different heaps: the parent stores the first twin's results in between.)
    Returns [(status, result), (status, result)] like in_child."""
    pipes = [os.pipe(), os.pipe(), os.pipe()]          # results of twin 0, of twin 1, exit status of twin 1
    pid = os.fork()
    if pid == 0:
        pid2 = os.fork()
        idx = 1 if pid2 == 0 else 0
        try:
            for k, (r, w) in enumerate(pipes):
                os.close(r)
                if k != idx and not (idx == 0 and k == 2):
                    os.close(w)
            signal.alarm(timeout)
            res = funcs[idx]()
            data = pickle.dumps(res)
            with os.fdopen(pipes[idx][1], "wb") as f:
                f.write(struct.pack("<Q", len(data)))
                f.write(data)
            if idx == 0:
                signal.alarm(timeout + 30)
                _, st2 = os.waitpid(pid2, 0)
                os.write(pipes[2][1], struct.pack("<i", st2))
            os._exit(0)
        except BaseException:
            import traceback
            try:
                os.write(2, traceback.format_exc().encode())
            except Exception:
                pass
            os._exit(97)
    raws = []
    for r, w in pipes:
        os.close(w)
    for r, w in pipes:
        chunks = []
        with os.fdopen(r, "rb") as f:
            while True:
                b = f.read(1 << 16)
                if not b:
                    break
                chunks.append(b)
        raws.append(b"".join(chunks))
    _, status = os.waitpid(pid, 0)

    def decode(status, raw):
        if status is None:
            return ("exit", "status-of-second-twin-unknown")
        if os.WIFSIGNALED(status):
            sig = os.WTERMSIG(status)
            return ("timeout", None) if sig == signal.SIGALRM else ("signal", sig)
        code = os.WEXITSTATUS(status)
        if code != 0:
            return ("exit", code)
        if len(raw) < 8:
            return ("exit", "no-result")
        (n,) = struct.unpack("<Q", raw[:8])
        return ("ok", pickle.loads(raw[8:8 + n]))
    st2 = struct.unpack("<i", raws[2])[0] if len(raws[2]) == 4 else None
    if st2 is None and len(raws[1]) >= 8:
        st2 = 0                                        # twin 0 died before it could report, twin 1 delivered its result
    return [decode(status, raws[0]), decode(st2, raws[1])]


def in_child(func, timeout=60):
    """run func() in a forked child; returns ("ok", result) | ("signal", signo) | ("exit", code) | ("timeout", None)"""
    r, w = os.pipe()
    pid = os.fork()
    if pid == 0:
        try:
            os.close(r)
            signal.alarm(timeout)
            res = func()
            data = pickle.dumps(res)
            with os.fdopen(w, "wb") as f:
                f.write(struct.pack("<Q", len(data)))
                f.write(data)
            os._exit(0)
        except BaseException:
            import traceback
            try:
                os.write(2, traceback.format_exc().encode())
            except Exception:
                pass
            os._exit(97)
    os.close(w)
    chunks = []
    with os.fdopen(r, "rb") as f:
        while True:
            b = f.read(1 << 16)
            if not b:
                break
            chunks.append(b)
    _, status = os.waitpid(pid, 0)
    raw = b"".join(chunks)
    if os.WIFSIGNALED(status):
        sig = os.WTERMSIG(status)
        return ("timeout", None) if sig == signal.SIGALRM else ("signal", sig)
    code = os.WEXITSTATUS(status)
    if code != 0:
        return ("exit", code)
    if len(raw) < 8:
        return ("exit", -1)
    n = struct.unpack("<Q", raw[:8])[0]
    return ("ok", pickle.loads(raw[8:8 + n]))
