"""Build /repo's current working tree in a named configuration.

Compiles the sources listed in /repo/src/CMakeLists.txt directly with the
compiler (16 jobs) into <cache>/<cfg>-<hash>/{libbee2.a, libbee2.so}.  The
cache key covers every byte of /repo/src and /repo/include, the flag string and
the compiler version, so an edited tree always rebuilds.
"""
import hashlib, os, re, shutil, subprocess, sys, time
from concurrent.futures import ThreadPoolExecutor

REPO = os.environ.get("VERIF_REPO", "/repo")
VERIF = os.path.dirname(os.path.dirname(os.path.abspath(__file__)))
CACHE = os.path.join(VERIF, ".cache", "build")

WARN = "-w"
HOOK = "-DBEE2_VERIF"
REL = "-O3 -fno-strict-aliasing -DNDEBUG"

CONFIGS = {
    # name: (compiler, cflags, ldflags)
    "asan64": ("gcc", "-O1 -g -fno-omit-frame-pointer -fsanitize=address -fsanitize=bounds,null "
                      "-fno-sanitize-recover=all -fno-common " + HOOK + " -DBEE2_VERIF_EXACT_BLOB",
               "-fsanitize=address -fsanitize=bounds,null"),
    "asan32": ("gcc", "-O1 -g -fno-omit-frame-pointer -fsanitize=address -fsanitize=bounds,null "
                      "-fno-sanitize-recover=all -fno-common " + HOOK + " -DBEE2_VERIF_EXACT_BLOB -DBEE2_VERIF_W32",
               "-fsanitize=address -fsanitize=bounds,null"),
    "rel64": ("gcc", REL + " -g", ""),
    "rel32": ("gcc", REL + " -g " + HOOK + " -DBEE2_VERIF_W32", ""),
    "fast64": ("gcc", REL + " -DSAFE_FAST", ""),
    "dbg64": ("gcc", "-O0 -g", ""),
    "dbg32": ("gcc", "-O0 -g " + HOOK + " -DBEE2_VERIF_W32", ""),
    "o1": ("gcc", "-O1 -fno-strict-aliasing -DNDEBUG", ""),
    "o2": ("gcc", "-O2 -fno-strict-aliasing -DNDEBUG", ""),
    "clangrel": ("clang-14", REL + " -g -gdwarf-4", ""),
    "bash32": ("gcc", REL + " -DBASH_32", ""),
    "sse2": ("gcc", REL + " -DBASH_SSE2 -msse2", ""),
    "avx2": ("gcc", REL + " -DBASH_AVX2 -mavx2", ""),
    "avx512": ("gcc", REL + " -DBASH_AVX512 -mavx512f -fno-asynchronous-unwind-tables", ""),
    "tsan": ("gcc", "-O1 -g -fsanitize=thread -DNDEBUG " + HOOK + " -DBEE2_VERIF_YIELD -DBEE2_VERIF_BLOB_COUNT", "-fsanitize=thread"),
    "tsandbg": ("gcc", "-O1 -g -fsanitize=thread " + HOOK + " -DBEE2_VERIF_YIELD -DBEE2_VERIF_BLOB_COUNT", "-fsanitize=thread"),
    "relyield": ("gcc", REL + " -g " + HOOK + " -DBEE2_VERIF_YIELD -DBEE2_VERIF_BLOB_COUNT", ""),
    "msan": ("clang-14", "-O1 -g -fno-omit-frame-pointer -fsanitize=memory -fsanitize-memory-track-origins=2 "
                         + HOOK + " -DBEE2_VERIF_EXACT_BLOB", "-fsanitize=memory"),
    "tracepc": ("gcc", REL + " -fsanitize-coverage=trace-pc", ""),
    "cov": ("gcc", "-O0 -g --coverage", "--coverage"),
}


def sources():
    txt = open(os.path.join(REPO, "src", "CMakeLists.txt"), encoding="utf-8").read()
    m = re.search(r"set\(src\s+(.*?)\)", txt, re.S)
    return [s for s in m.group(1).split() if s.endswith(".c")]


_tree_hash_cache = {}


def tree_hash():
    """SHA-256 over every file under /repo/src and /repo/include."""
    key = REPO
    h = hashlib.sha256()
    for top in ("src", "include"):
        for root, dirs, files in os.walk(os.path.join(REPO, top)):
            dirs.sort()
            for f in sorted(files):
                p = os.path.join(root, f)
                h.update(p.encode())
                with open(p, "rb") as fh:
                    h.update(fh.read())
    return h.hexdigest()


def _cc_version(cc):
    return subprocess.run([cc, "--version"], capture_output=True, text=True).stdout.splitlines()[0]


def have_cpu_flag(flag):
    try:
        return flag in open("/proc/cpuinfo").read()
    except OSError:
        return False


def config_available(cfg):
    if cfg == "avx2":
        return have_cpu_flag(" avx2")
    if cfg == "avx512":
        return have_cpu_flag(" avx512f")
    if cfg == "sse2":
        return have_cpu_flag(" sse2")
    return True


def build(cfg, quiet=True):
    """Return directory containing libbee2.a / libbee2.so for this configuration
    of the *current* /repo tree."""
    cc, cflags, ldflags = CONFIGS[cfg]
    th = tree_hash()
    key = hashlib.sha256((th + cfg + cc + cflags + ldflags + _cc_version(cc)).encode()).hexdigest()[:16]
    out = os.path.join(CACHE, "%s-%s" % (cfg, key))
    stamp = os.path.join(out, "OK")
    if os.path.exists(stamp):
        try:
            os.utime(stamp, None)          # last use: the cleanup below goes by this, never by the age of the build
        except OSError:
            pass
        return out
    os.makedirs(CACHE, exist_ok=True)
    # one builder per configuration at a time (several checks / helpers may run concurrently)
    import fcntl
    lockf = open(os.path.join(CACHE, ".lock-" + cfg), "w")
    fcntl.flock(lockf, fcntl.LOCK_EX)
    try:
        return _build_locked(cfg, cc, cflags, ldflags, th, out, stamp, quiet)
    finally:
        fcntl.flock(lockf, fcntl.LOCK_UN)
        lockf.close()


def _build_locked(cfg, cc, cflags, ldflags, th, out, stamp, quiet):
    if os.path.exists(stamp):
        return out
    # remove stale builds of the same configuration (disk), but not ones that may still be in use
    now = time.time()
    for d in os.listdir(CACHE):
        if d.startswith(cfg + "-") and os.path.join(CACHE, d) != out:
            full = os.path.join(CACHE, d)
            try:
                st = os.path.join(full, "OK")
                last = os.path.getmtime(st) if os.path.exists(st) else os.path.getmtime(full)
                if now - last > 3 * 3600:          # not used for three hours (a running check touches the stamp at every job)
                    shutil.rmtree(full, ignore_errors=True)
            except OSError:
                pass
    tmp = out + ".tmp%d" % os.getpid()
    shutil.rmtree(tmp, ignore_errors=True)
    os.makedirs(tmp)
    srcs = sources()
    t0 = time.time()

    def comp(s):
        o = os.path.join(tmp, s.replace("/", "_")[:-2] + ".o")
        cmd = [cc] + cflags.split() + [WARN, "-fPIC", "-I" + os.path.join(REPO, "include"),
                                        "-I" + os.path.join(REPO, "src"), "-c",
                                        os.path.join(REPO, "src", s), "-o", o]
        r = subprocess.run(cmd, capture_output=True, text=True)
        if r.returncode != 0:
            raise RuntimeError("compile failed: %s\n%s" % (" ".join(cmd), r.stderr))
        return o

    with ThreadPoolExecutor(16) as ex:
        objs = list(ex.map(comp, srcs))
    subprocess.run(["ar", "rcs", os.path.join(tmp, "libbee2.a")] + objs, check=True)
    cmd = [cc, "-shared", "-o", os.path.join(tmp, "libbee2.so")] + objs + ldflags.split() + ["-ldl", "-lpthread"]
    r = subprocess.run(cmd, capture_output=True, text=True)
    if r.returncode != 0:
        raise RuntimeError("link failed: %s\n%s" % (" ".join(cmd), r.stderr))
    for o in objs:
        if cfg != "cov":
            os.unlink(o)
    with open(os.path.join(tmp, "INFO"), "w") as f:
        f.write("cfg=%s\ncc=%s\ncflags=%s\ntree=%s\n" % (cfg, cc, cflags, th))
    try:
        os.rename(tmp, out)
    except OSError:
        # somebody else produced the same build meanwhile
        if os.path.exists(stamp):
            shutil.rmtree(tmp, ignore_errors=True)
            return out
        shutil.rmtree(out, ignore_errors=True)
        os.rename(tmp, out)
    open(stamp, "w").close()
    if not quiet:
        sys.stderr.write("[build] %s in %.1fs -> %s\n" % (cfg, time.time() - t0, out))
    return out


def build_harness(cfg, name, srcs, extra_cflags="", extra_ldflags="", lib_static=True, harness_cflags=None):
    """Compile C harness files (paths relative to /verif/drv) against the
    library built in configuration cfg; returns executable path."""
    libdir = build(cfg)
    cc, cflags, ldflags = CONFIGS[cfg]
    h = hashlib.sha256()
    for s in srcs:
        h.update(open(os.path.join(VERIF, "drv", s), "rb").read())
    h.update((extra_cflags + extra_ldflags + str(harness_cflags)).encode())
    exe = os.path.join(libdir, "%s-%s" % (name, h.hexdigest()[:12]))
    if os.path.exists(exe):
        return exe
    hc = cflags if harness_cflags is None else harness_cflags
    cmd = [cc] + hc.split() + extra_cflags.split() + [WARN, "-I" + os.path.join(REPO, "include"),
           "-I" + os.path.join(REPO, "src"), "-I" + os.path.join(VERIF, "drv")] + \
          [os.path.join(VERIF, "drv", s) for s in srcs] + \
          [os.path.join(libdir, "libbee2.a")] + ldflags.split() + extra_ldflags.split() + \
          ["-ldl", "-lpthread", "-o", exe + ".tmp%d" % os.getpid()]
    r = subprocess.run(cmd, capture_output=True, text=True)
    if r.returncode != 0:
        raise RuntimeError("harness build failed: %s\n%s" % (" ".join(cmd), r.stderr))
    os.rename(exe + ".tmp%d" % os.getpid(), exe)
    return exe


if __name__ == "__main__":
    for c in sys.argv[1:]:
        print(build(c, quiet=False))
