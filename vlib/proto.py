"""Parse the public prototypes of /repo/include/bee2 into ctypes signatures.

Done at run time from the current tree, so that a changed header is followed.
Type codes: p pointer, z size_t, w word, i int/bool_t/enum, u u32/err_t,
q u64, h u16, o octet, v void, t tm_time_t, f function pointer, d double
"""
import os, re, ctypes

from .build import REPO

SCALARS = {
    "size_t": "z", "word": "w", "int": "i", "bool_t": "i", "err_t": "u", "u32": "u",
    "u64": "q", "u16": "h", "octet": "o", "u8": "o", "void": "v", "tm_time_t": "t",
    "tm_ticks_t": "q", "unsigned": "u", "char": "o", "dword": "W", "long": "l",
    "i32": "i", "btok_pwd_event": "i", "btok_pin_state": "i", "btok_auth_state": "i",
    "double": "d", "mt_mtx_t": "p", "blob_t": "p",
}
FPTR = {"gen_i", "read_i", "write_i", "ec_f", "bign_certval_i", "bake_certval_i", "util_destructor_i",
        "qr_from_i", "mt_thread_f", "bake_certval_i", "btok_bauth_certval_i", "bign_dh_kdf_i"}


def _strip_comments(s):
    s = re.sub(r"/\*.*?\*/", " ", s, flags=re.S)
    s = re.sub(r"//[^\n]*", " ", s)
    return s


def _code(decl):
    d = decl.strip()
    if d == "void" or d == "":
        return None
    if d == "...":
        return "..."
    if "(*" in d:
        return "f"
    d = re.sub(r"\b(const|register|struct|volatile)\b", " ", d)
    if "*" in d or "[" in d:
        return "p"
    toks = d.split()
    # last token is the parameter name unless declaration is a bare type
    ty = toks[0] if len(toks) >= 1 else ""
    if ty in FPTR or ty.endswith("_i") or ty.endswith("_f"):
        return "f"
    if ty in SCALARS:
        return SCALARS[ty]
    if ty.endswith("_t") or ty.endswith("_o"):
        # struct by value is not used in the public API; enums are ints
        return "i"
    raise KeyError(ty)


def parse_headers(incdir=None):
    incdir = incdir or os.path.join(REPO, "include", "bee2")
    protos = {}
    for root, _, files in os.walk(incdir):
        for f in sorted(files):
            if not f.endswith(".h"):
                continue
            txt = _strip_comments(open(os.path.join(root, f), encoding="utf-8", errors="replace").read())
            txt = re.sub(r"^\s*#.*$", "", txt, flags=re.M)
            for m in re.finditer(r"(?:^|[;}\n])\s*([A-Za-z_][\w\s\*]*?)\b(SAFE|FAST)?\(?\s*(\w+)\s*\)?\s*\(([^;{}()]*(?:\([^()]*\)[^;{}()]*)*)\)\s*;", txt):
                ret, wrap, name, args = m.group(1).strip(), m.group(2), m.group(3), m.group(4)
                if "typedef" in ret or ret == "" or ret.startswith("return"):
                    continue
                try:
                    rc = _code(ret + " x") if "*" not in ret else "p"
                    parts = [a for a in re.split(r",(?![^()]*\))", args)]
                    ac = []
                    for a in parts:
                        c = _code(a)
                        if c is None:
                            continue
                        ac.append(c)
                except KeyError as e:
                    continue
                names = [name]
                if wrap == "SAFE":
                    names = [name]
                elif wrap == "FAST":
                    names = [name + "_fast"]
                for n in names:
                    protos[n] = (rc or "v", ac, os.path.relpath(os.path.join(root, f), incdir))
    return protos


def ctype(code, wbytes):
    return {
        "p": ctypes.c_void_p, "z": ctypes.c_size_t, "i": ctypes.c_int, "u": ctypes.c_uint32,
        "q": ctypes.c_uint64, "h": ctypes.c_uint16, "o": ctypes.c_ubyte, "v": None,
        "t": ctypes.c_int64, "f": ctypes.c_void_p, "l": ctypes.c_long, "d": ctypes.c_double,
        "w": ctypes.c_uint64 if wbytes == 8 else ctypes.c_uint32,
        "W": ctypes.c_uint64,
    }[code]


if __name__ == "__main__":
    p = parse_headers()
    print(len(p))
    import sys
    for n in sys.argv[1:]:
        print(n, p.get(n))
