/* C18 harness: threads racing on mtCallOnce / mtAtomic* / the shared RNG.
   Built against the tsan (TSan reports are the oracle) and relyield (value monitors at speed)
   configurations. Prints one JSON object on stdout. */
#define _GNU_SOURCE
#include <pthread.h>
#include <sched.h>
#include <stdio.h>
#include <stdlib.h>
#include <string.h>
#include <stdint.h>
#include <time.h>
#include <unistd.h>
#include "bee2/core/mt.h"
#include "bee2/core/rng.h"
#include "bee2/core/mem.h"
#include "bee2/core/util.h"
#include "bee2/core/err.h"

extern void (*bee2_verif_yield)(int);
extern long bee2_verif_blob_live;	/* hook BEE2_VERIF_BLOB_COUNT: blobs created and not yet closed */

#define MAXT 32
static int T = 4;
static uint64_t SEED = 1;
static int YIELD_MODE = 1;	/* 0 none, 1 mixed, 2 heavy */
static pthread_barrier_t bar;

static __thread uint64_t prng;
static __thread int my_tid;

static uint64_t xs(void)
{
	uint64_t x = prng;
	x ^= x << 13, x ^= x >> 7, x ^= x << 17;
	return prng = x;
}

static void seed_thread(int tid, uint64_t salt)
{
	my_tid = tid;
	prng = (SEED * 0x9E3779B97F4A7C15ull) ^ ((uint64_t)(tid + 1) * 0xD1B54A32D192ED03ull) ^ salt;
	if (!prng) prng = 88172645463325252ull;
	xs(), xs();
}

static void do_yield(int point)
{
	uint64_t r;
	if (!YIELD_MODE) return;
	r = xs();
	switch ((r >> 8) % (YIELD_MODE == 2 ? 4 : 8))
	{
	case 0: sched_yield(); break;
	case 1: { struct timespec ts = {0, (long)(1000 + (r >> 20) % 60000)}; nanosleep(&ts, 0); break; }
	case 2: { volatile int i, n = (int)((r >> 20) % 2000); for (i = 0; i < n; ++i); break; }
	default: break;
	}
}

/* global ticket for interleaving signatures */
static size_t ticket;
static size_t progress;		/* heartbeat only */
static uint64_t sig_acc[MAXT];
static void sig_event(int op)
{
	size_t t = __atomic_add_fetch(&ticket, 1, __ATOMIC_RELAXED);
	/* order-sensitive fold, per thread; combined at the end */
	sig_acc[my_tid] = sig_acc[my_tid] * 0x100000001B3ull ^ (t * 31 + (size_t)op);
}
static uint64_t sig_final(void)
{
	uint64_t h = 1469598103934665603ull; int i;
	for (i = 0; i < T; ++i) h = (h ^ sig_acc[i]) * 0x100000001B3ull;
	return h;
}

/* ------------------------------------------------------------------ once */
static size_t* once_arr;
static int* once_cnt;			/* plain, written by the initialiser only */
static unsigned char (*once_payload)[64];
static volatile int once_cur;
static int NTRIG = 256;
static long once_bad_count, once_bad_payload, once_bad_ret;

static void once_init_fn(void)
{
	int i = once_cur, k;
	do_yield(100);
	once_cnt[i]++;
	for (k = 0; k < 64; ++k)
		once_payload[i][k] = (unsigned char)(i * 7 + k);
	do_yield(101);
}

static void* once_thread(void* arg)
{
	int tid = (int)(intptr_t)arg, i, k;
	long bad_cnt = 0, bad_pl = 0, bad_ret = 0;
	seed_thread(tid, 0x1111);
	for (i = 0; i < NTRIG; ++i)
	{
		pthread_barrier_wait(&bar);
		if (tid == 0) once_cur = i;
		pthread_barrier_wait(&bar);
		do_yield(102);
		if (!mtCallOnce(&once_arr[i], once_init_fn)) ++bad_ret;
		sig_event(i & 0xFF);
		/* effects must be visible to every caller that returns */
		if (once_cnt[i] != 1) ++bad_cnt;
		for (k = 0; k < 64; ++k)
			if (once_payload[i][k] != (unsigned char)(i * 7 + k)) { ++bad_pl; break; }
	}
	__atomic_add_fetch(&once_bad_count, bad_cnt, __ATOMIC_RELAXED);
	__atomic_add_fetch(&once_bad_payload, bad_pl, __ATOMIC_RELAXED);
	__atomic_add_fetch(&once_bad_ret, bad_ret, __ATOMIC_RELAXED);
	return 0;
}

static int mode_once(void)
{
	pthread_t th[MAXT]; int i; long final_bad = 0;
	once_arr = calloc(NTRIG, sizeof(size_t));
	once_cnt = calloc(NTRIG, sizeof(int));
	once_payload = calloc(NTRIG, 64);
	pthread_barrier_init(&bar, 0, T);
	for (i = 0; i < T; ++i) pthread_create(&th[i], 0, once_thread, (void*)(intptr_t)i);
	for (i = 0; i < T; ++i) pthread_join(th[i], 0);
	for (i = 0; i < NTRIG; ++i) if (once_cnt[i] != 1 || once_arr[i] != 1) ++final_bad;
	printf("{\"mode\":\"once\",\"threads\":%d,\"triggers\":%d,\"callers\":%ld,\"bad_count_seen\":%ld,"
		"\"bad_payload_seen\":%ld,\"bad_ret\":%ld,\"final_bad\":%ld,\"sig\":\"%016llx\"}\n",
		T, NTRIG, (long)T * NTRIG, once_bad_count, once_bad_payload, once_bad_ret, final_bad,
		(unsigned long long)sig_final());
	return 0;
}

/* ---------------------------------------------------------------- atomic */
static size_t actr;
static int MOPS = 20000;
static size_t* aret[MAXT];

static void* atomic_thread(void* arg)
{
	int tid = (int)(intptr_t)arg, i;
	seed_thread(tid, 0x2222);
	pthread_barrier_wait(&bar);
	for (i = 0; i < MOPS; ++i)
	{
		aret[tid][i] = mtAtomicIncr(&actr);
		if ((i & 1023) == 0) { __atomic_add_fetch(&progress, 1, __ATOMIC_RELAXED); do_yield(200); }
	}
	pthread_barrier_wait(&bar);
	/* CAS-increment phase */
	for (i = 0; i < MOPS; ++i)
	{
		size_t old;
		do old = __atomic_load_n(&actr, __ATOMIC_RELAXED); while (mtAtomicCmpSwap(&actr, old, old + 1) != old);
		aret[tid][MOPS + i] = old + 1;
		if ((i & 1023) == 0) { __atomic_add_fetch(&progress, 1, __ATOMIC_RELAXED); do_yield(201); }
	}
	pthread_barrier_wait(&bar);
	for (i = 0; i < MOPS; ++i)
	{
		aret[tid][2 * MOPS + i] = mtAtomicDecr(&actr);
		if ((i & 1023) == 0) { __atomic_add_fetch(&progress, 1, __ATOMIC_RELAXED); do_yield(202); }
	}
	return 0;
}

static int cmp_sz(const void* a, const void* b)
{
	size_t x = *(const size_t*)a, y = *(const size_t*)b;
	return x < y ? -1 : x > y;
}

static int mode_atomic(void)
{
	pthread_t th[MAXT]; int i, ph; long bad[3] = {0, 0, 0};
	size_t n = (size_t)T * MOPS, k;
	size_t* all = malloc(n * sizeof(size_t));
	pthread_barrier_init(&bar, 0, T);
	for (i = 0; i < T; ++i) aret[i] = calloc(3 * (size_t)MOPS, sizeof(size_t));
	for (i = 0; i < T; ++i) pthread_create(&th[i], 0, atomic_thread, (void*)(intptr_t)i);
	for (i = 0; i < T; ++i) pthread_join(th[i], 0);
	for (ph = 0; ph < 3; ++ph)
	{
		for (i = 0; i < T; ++i) memcpy(all + (size_t)i * MOPS, aret[i] + (size_t)ph * MOPS, MOPS * sizeof(size_t));
		qsort(all, n, sizeof(size_t), cmp_sz);
		/* phase 0: 1..n ; phase 1: n+1..2n ; phase 2: 0..2n-1 decreasing => sorted 2n-n..2n-1 */
		for (k = 0; k < n; ++k)
		{
			size_t want = ph == 0 ? k + 1 : ph == 1 ? n + k + 1 : n + k;
			if (all[k] != want) ++bad[ph];
		}
	}
	printf("{\"mode\":\"atomic\",\"threads\":%d,\"ops\":%zu,\"final\":%zu,\"final_expected\":%zu,"
		"\"bad_incr\":%ld,\"bad_cas\":%ld,\"bad_decr\":%ld}\n",
		T, 3 * n, actr, n, bad[0], bad[1], bad[2]);
	return 0;
}

/* ------------------------------------------------------------------- rng */
static int ROUNDS = 6, OPS = 30;
static size_t shadow;			/* harness's own reference count, updated atomically */
static long rng_bad_valid, rng_short, rng_create_err, rng_quiescent_checks, rng_ops;
typedef struct { unsigned char b[32]; } blk_t;
static blk_t* blocks[MAXT]; static size_t nblocks[MAXT], capblocks[MAXT];
static int FIRSTRACE = 0;

static void log_blocks(int tid, const unsigned char* buf, size_t count)
{
	size_t i;
	for (i = 0; i + 32 <= count; i += 32)
	{
		if (nblocks[tid] == capblocks[tid])
		{
			capblocks[tid] = capblocks[tid] ? 2 * capblocks[tid] : 1024;
			blocks[tid] = realloc(blocks[tid], capblocks[tid] * sizeof(blk_t));
		}
		memcpy(blocks[tid][nblocks[tid]++].b, buf + i, 32);
	}
}

static err_t extra_source(size_t* read, void* buf, size_t count, void* state)
{
	/* additional entropy source handed to rngCreate: deterministic per thread */
	size_t i;
	for (i = 0; i < count; ++i) ((unsigned char*)buf)[i] = (unsigned char)(xs() >> 24);
	*read = count;
	return ERR_OK;
}

static void* rng_thread(void* arg)
{
	int tid = (int)(intptr_t)arg, r, i, held = 0;
	unsigned char buf[160];
	long bad_valid = 0, shortr = 0, cerr = 0, q = 0, ops = 0;
	seed_thread(tid, 0x3333);
	for (r = 0; r < ROUNDS; ++r)
	{
		pthread_barrier_wait(&bar);
		if (FIRSTRACE && r == 0 && (tid & 1))
		{
			/* a query, not a use: allowed without a reference, also during the very first rngCreate */
			(void)rngIsValid();
			sig_event(7);
		}
		for (i = 0; i < OPS; ++i)
		{
			uint64_t x = xs();
			int op = (int)((x >> 16) % 16);
			do_yield(300);
			++ops;
			if (held == 0 || op == 0 || op == 1)
			{
				if (held < 3 || op == 0)
				{
					err_t e = rngCreate((x >> 40) & 1 ? extra_source : 0, 0);
					if (e == ERR_OK) { ++held; __atomic_add_fetch(&shadow, 1, __ATOMIC_SEQ_CST); }
					else ++cerr;
					sig_event(0);
					continue;
				}
			}
			if (held == 0) continue;
			if (op <= 7)
			{
				size_t count = 32 * (1 + (x >> 32) % 4);
				memset(buf, 0, sizeof(buf));
				rngStepR2(buf, count, 0);
				if (memcmp(buf + count - 16, "\0\0\0\0\0\0\0\0\0\0\0\0\0\0\0\0", 16) == 0) ++shortr;
				log_blocks(tid, buf, count);
				sig_event(1);
			}
			else if (op <= 9)
			{
				size_t count = 32 * (1 + (x >> 32) % 2);
				memset(buf, 0, sizeof(buf));
				rngStepR(buf, count, 0);
				if (memcmp(buf + count - 16, "\0\0\0\0\0\0\0\0\0\0\0\0\0\0\0\0", 16) == 0) ++shortr;
				log_blocks(tid, buf, count);
				sig_event(2);
			}
			else if (op <= 11)
			{
				rngRekey();
				sig_event(3);
			}
			else if (op <= 13)
			{
				if (!rngIsValid()) ++bad_valid;	/* we hold a reference */
				sig_event(4);
			}
			else
			{
				rngClose();
				--held; __atomic_sub_fetch(&shadow, 1, __ATOMIC_SEQ_CST);
				sig_event(5);
			}
		}
		/* on odd rounds drop everything so that the last close / re-create path is raced */
		if (r & 1)
			while (held) { rngClose(); --held; __atomic_sub_fetch(&shadow, 1, __ATOMIC_SEQ_CST); sig_event(5); }
		pthread_barrier_wait(&bar);
		/* quiescent point: every thread compares the generator's view with the shadow count */
		{
			size_t s = __atomic_load_n(&shadow, __ATOMIC_SEQ_CST);
			bool_t v = rngIsValid();
			++q;
			if ((s > 0) != (v != 0)) ++bad_valid;
		}
		pthread_barrier_wait(&bar);
	}
	while (held) { rngClose(); --held; __atomic_sub_fetch(&shadow, 1, __ATOMIC_SEQ_CST); }
	__atomic_add_fetch(&rng_bad_valid, bad_valid, __ATOMIC_RELAXED);
	__atomic_add_fetch(&rng_short, shortr, __ATOMIC_RELAXED);
	__atomic_add_fetch(&rng_create_err, cerr, __ATOMIC_RELAXED);
	__atomic_add_fetch(&rng_quiescent_checks, q, __ATOMIC_RELAXED);
	__atomic_add_fetch(&rng_ops, ops, __ATOMIC_RELAXED);
	return 0;
}

static int cmp_blk(const void* a, const void* b) { return memcmp(a, b, 32); }

static int mode_rng(void)
{
	pthread_t th[MAXT]; int i; size_t n = 0, k, dups = 0; blk_t* all;
	int end_valid; char dup_hex[65] = "";
	pthread_barrier_init(&bar, 0, T);
	for (i = 0; i < T; ++i) pthread_create(&th[i], 0, rng_thread, (void*)(intptr_t)i);
	for (i = 0; i < T; ++i) pthread_join(th[i], 0);
	end_valid = rngIsValid();	/* all references returned: must be invalid */
	for (i = 0; i < T; ++i) n += nblocks[i];
	all = malloc((n + 1) * sizeof(blk_t));
	for (i = 0, k = 0; i < T; ++i) { memcpy(all + k, blocks[i], nblocks[i] * sizeof(blk_t)); k += nblocks[i]; }
	qsort(all, n, sizeof(blk_t), cmp_blk);
	for (k = 1; k < n; ++k)
		if (memcmp(all[k].b, all[k - 1].b, 32) == 0)
		{
			if (!dups) { int j; for (j = 0; j < 32; ++j) sprintf(dup_hex + 2 * j, "%02x", all[k].b[j]); }
			++dups;
		}
	printf("{\"mode\":\"rng\",\"threads\":%d,\"ops\":%ld,\"blocks\":%zu,\"dup_blocks\":%zu,\"dup_sample\":\"%s\","
		"\"short_reads\":%ld,\"bad_valid\":%ld,\"end_valid\":%d,\"shadow_end\":%zu,\"create_err\":%ld,"
		"\"quiescent_checks\":%ld,\"blobs_live_end\":%ld,\"sig\":\"%016llx\"}\n",
		T, rng_ops, n, dups, dup_hex, rng_short, rng_bad_valid, end_valid, shadow, rng_create_err,
		rng_quiescent_checks, __atomic_load_n(&bee2_verif_blob_live, __ATOMIC_SEQ_CST), (unsigned long long)sig_final());
	return 0;
}

/* ---------------------------------------------------------------- onexit */
/* concurrent registration of exit handlers (util.c: the list behind rngCreate's clean-up): every registered handler must
   be called exactly once at exit; the report is printed by an atexit function registered first, i.e. run last */
static long onexit_calls, onexit_false, onexit_expected;
static void onexit_h(void) { __atomic_add_fetch(&onexit_calls, 1, __ATOMIC_RELAXED); }
static void onexit_report(void)
{
	printf("{\"mode\":\"onexit\",\"threads\":%d,\"expected\":%ld,\"called\":%ld,\"ret_false\":%ld,\"sig\":\"%016llx\"}\n",
		T, onexit_expected, onexit_calls, onexit_false, (unsigned long long)sig_final());
	fflush(stdout);
}
static void* onexit_thread(void* arg)
{
	int tid = (int)(intptr_t)arg, i; long bad = 0;
	seed_thread(tid, 0x4444);
	pthread_barrier_wait(&bar);
	for (i = 0; i < NTRIG; ++i)
	{
		if ((i & 7) == 0) do_yield(400);
		if (!utilOnExit(onexit_h)) ++bad;
		sig_event(i & 0xFF);
	}
	__atomic_add_fetch(&onexit_false, bad, __ATOMIC_RELAXED);
	return 0;
}
static int mode_onexit(void)
{
	pthread_t th[MAXT]; int i;
	atexit(onexit_report);
	onexit_expected = (long)T * NTRIG;
	pthread_barrier_init(&bar, 0, T);
	for (i = 0; i < T; ++i) pthread_create(&th[i], 0, onexit_thread, (void*)(intptr_t)i);
	for (i = 0; i < T; ++i) pthread_join(th[i], 0);
	return 0;
}

/* heartbeat: an unpinned thread reports the number of completed operations every second, so that the driver can tell
   "slow on a loaded machine" (the count moves) from "stuck" (it does not) without a wall-clock verdict */
static void* heartbeat(void* arg)
{
	char buf[64];
	(void)arg;
	for (;;)
	{
		struct timespec ts = {1, 0};
		int n = snprintf(buf, sizeof(buf), "P %zu\n", __atomic_load_n(&ticket, __ATOMIC_RELAXED) + __atomic_load_n(&progress, __ATOMIC_RELAXED));
		if (write(2, buf, (size_t)n) < 0) break;
		nanosleep(&ts, 0);
	}
	return 0;
}

int main(int argc, char** argv)
{
	const char* mode = argc > 1 ? argv[1] : "once";
	int i;
	pthread_t hb;
	pthread_create(&hb, 0, heartbeat, 0);
	pthread_detach(hb);
	for (i = 2; i + 1 < argc; i += 2)
	{
		if (!strcmp(argv[i], "-t")) T = atoi(argv[i + 1]);
		else if (!strcmp(argv[i], "-s")) SEED = strtoull(argv[i + 1], 0, 10);
		else if (!strcmp(argv[i], "-y")) YIELD_MODE = atoi(argv[i + 1]);
		else if (!strcmp(argv[i], "-n")) NTRIG = MOPS = OPS = atoi(argv[i + 1]);
		else if (!strcmp(argv[i], "-r")) ROUNDS = atoi(argv[i + 1]);
		else if (!strcmp(argv[i], "-f")) FIRSTRACE = atoi(argv[i + 1]);
		else if (!strcmp(argv[i], "-c"))
		{
			/* restrict to k CPUs (which ones depends on the seed, so that concurrent harness processes do not all share CPU 0) */
			cpu_set_t set; int k, nc = atoi(argv[i + 1]);
			long ncpu = sysconf(_SC_NPROCESSORS_ONLN);
			if (ncpu < 1) ncpu = 1;
			CPU_ZERO(&set);
			for (k = 0; k < nc; ++k) CPU_SET((int)((SEED + (uint64_t)k) % (uint64_t)ncpu), &set);
			sched_setaffinity(0, sizeof(set), &set);
		}
	}
	if (T < 1) T = 1;
	if (T > MAXT) T = MAXT;
	bee2_verif_yield = do_yield;
	seed_thread(0, 0);
	if (!strcmp(mode, "once")) return mode_once();
	if (!strcmp(mode, "atomic")) return mode_atomic();
	if (!strcmp(mode, "rng")) return mode_rng();
	if (!strcmp(mode, "onexit")) return mode_onexit();
	fprintf(stderr, "unknown mode\n");
	return 2;
}
