/*
C08 harness: exhaustive TL-level decoding of all octet strings of length 0..3.

  tl_exhaust run <first_lo> <first_hi> <skip> <with_empty>
      enumerates (optionally the empty string, then) for every first octet f in
      [first_lo, first_hi): [f], [f a], [f a b] for all a, b; the first <skip> inputs
      are not executed (resume after a crash).  Every input is copied into a fresh
      malloc(len) block, so a 1-octet over-read is an ASan report.  Each input goes
      through derTLDec, derDec, derDec2/3/4, derIsValid, derIsValid2, derStartsWith,
      derTSEQDecStart, derTOCTDec (probe, then copy into malloc(len)) and, where the
      oracle accepts, back through derTLEnc / derEnc (re-encoding must reproduce the input); every
      result is compared with the oracle below.
      stdout: JSON lines {"class":..,"n":..}, {"mismatch":key,"n":..,"input":hex,...}, {"done":N}
      on death (ASan / abort): {"crash_index":i,"input":hex,"fn":name} on stderr.
  tl_exhaust one <hex>
      the same for one literal input of at most 8 octets (replays).
  tl_exhaust oracle
      reads hex strings (one per line) from stdin and prints the oracle's verdict for
      each, so that the Python model ref/der.py can be compared with it.

The oracle is written independently of bee2 and of the Python model: it parses
leniently (BER), re-encodes tag and length canonically and demands that the
re-encoding equals the octets it read.
*/
#include <stdio.h>
#include <stdlib.h>
#include <string.h>
#include <signal.h>
#include <unistd.h>
#include "bee2/core/der.h"

extern void __sanitizer_set_death_callback(void (*)(void)) __attribute__((weak));

/* ---------------------------------------------------------------- oracle */

typedef struct
{
	int ok_tl;			/* tag and length fields are canonical */
	int ok_v;			/* ... and the value fits into the buffer */
	u32 tag;
	size_t len;
	size_t tl;
	size_t tn;			/* tag octets when the tag field alone is fine, else 0 */
	const char* why;
} verdict_t;

static size_t canon_tag(octet out[8], octet first, unsigned long long num)
{
	octet grp[12];
	size_t g = 0, i = 0;
	if (num < 31)
	{
		out[0] = (octet)((first & 0xE0) | (octet)num);
		return 1;
	}
	do
		grp[g++] = (octet)(num % 128), num /= 128;
	while (num);
	out[i++] = first | 0x1F;
	while (g--)
		out[i++] = (octet)(grp[g] | (g ? 0x80 : 0));
	return i;
}

static size_t canon_len(octet out[12], unsigned long long len)
{
	octet grp[8];
	size_t g = 0, i = 0;
	if (len <= 127)
	{
		out[0] = (octet)len;
		return 1;
	}
	while (len)
		grp[g++] = (octet)(len % 256), len /= 256;
	out[i++] = (octet)(0x80 + g);
	while (g--)
		out[i++] = grp[g];
	return i;
}

static verdict_t oracle(const octet* b, size_t n)
{
	verdict_t v;
	octet c[16];
	size_t i, cn, r;
	unsigned long long num = 0, len = 0;
	memset(&v, 0, sizeof v);
	v.why = "ok";
	/* T */
	if (n == 0)
	{
		v.why = "tag-missing";
		return v;
	}
	i = 1;
	if ((b[0] & 0x1F) == 0x1F)
	{
		for (;;)
		{
			if (i >= n)
			{
				v.why = "tag-truncated";
				return v;
			}
			if (i >= 4)
			{
				v.why = "tag-exceeds-u32";
				return v;
			}
			num = num * 128 + (b[i] & 0x7F);
			if ((b[i++] & 0x80) == 0)
				break;
		}
		cn = canon_tag(c, b[0], num);
		if (cn != i || memcmp(c, b, i) != 0)
		{
			v.why = (b[1] & 0x7F) == 0 ? "tag-leading-zero" : "tag-long-form-for-small-number";
			return v;
		}
	}
	v.tn = i;
	for (v.tag = 0, cn = 0; cn < i; ++cn)
		v.tag = v.tag * 256 + b[cn];
	/* L */
	if (i >= n)
	{
		v.why = "len-missing";
		return v;
	}
	if (b[i] < 0x80)
		len = b[i], r = 0;
	else if (b[i] == 0x80)
	{
		v.why = "len-indefinite-0x80";
		return v;
	}
	else if (b[i] == 0xFF)
	{
		v.why = "len-reserved-0xFF";
		return v;
	}
	else
	{
		size_t k;
		r = b[i] - 0x80;
		if (n - i - 1 < r)
		{
			v.why = "len-truncated";
			return v;
		}
		for (k = 0; k < r; ++k)
		{
			if (len >> 56)
			{
				v.why = b[i + 1] ? "len-exceeds-size_t" : "len-leading-zero";
				return v;
			}
			len = len * 256 + b[i + 1 + k];
		}
		if (len == 0xFFFFFFFFFFFFFFFFull)
		{
			v.why = "len-exceeds-size_t";
			return v;
		}
		cn = canon_len(c, len);
		if (cn != r + 1 || memcmp(c, b + i, cn) != 0)
		{
			v.why = b[i + 1] == 0 ? "len-leading-zero" : "len-long-form-for-short";
			return v;
		}
	}
	v.ok_tl = 1;
	v.len = (size_t)len;
	v.tl = i + 1 + r;
	/* V */
	if (len > n - v.tl)
	{
		v.why = "value-truncated";
		return v;
	}
	v.ok_v = 1;
	return v;
}

/* ------------------------------------------------------------ bookkeeping */

typedef struct
{
	char key[96];
	unsigned long long n;
	char input[16];
	char got[64];
	char want[64];
} mis_t;

static mis_t mis[128];
static size_t mis_n;

typedef struct
{
	const char* name;
	unsigned long long n;
} cls_t;
static cls_t cls[48];
static size_t cls_n;

static octet cur_in[8];
static size_t cur_n;
static const char* cur_fn = "-";
static unsigned long long cur_idx;

static void hexs(char* out, const octet* b, size_t n)
{
	size_t i;
	for (i = 0; i < n; ++i)
		sprintf(out + 2 * i, "%02x", b[i]);
	out[2 * n] = 0;
}

static void dump(int partial);

static void on_death(void)
{
	char h[20], line[160];
	int l;
	dump(1);
	hexs(h, cur_in, cur_n);
	l = snprintf(line, sizeof line, "\n{\"crash_index\":%llu,\"input\":\"%s\",\"fn\":\"%s\"}\n", cur_idx, h, cur_fn);
	if (write(2, line, (size_t)l) < 0)
		return;
}

static void on_signal(int sig)
{
	on_death();
	_exit(128 + sig);
}

static void count_class(const char* name)
{
	size_t i;
	for (i = 0; i < cls_n; ++i)
		if (cls[i].name == name || strcmp(cls[i].name, name) == 0)
		{
			++cls[i].n;
			return;
		}
	cls[cls_n].name = name, cls[cls_n++].n = 1;
}

static void mismatch(const char* fn, const char* kind, const char* why, unsigned long long got, unsigned long long want)
{
	char key[96];
	size_t i;
	snprintf(key, sizeof key, "%s:%s:%s", fn, kind, why);
	for (i = 0; i < mis_n; ++i)
		if (strcmp(mis[i].key, key) == 0)
		{
			++mis[i].n;
			return;
		}
	if (mis_n == sizeof mis / sizeof mis[0])
		return;
	strcpy(mis[mis_n].key, key);
	mis[mis_n].n = 1;
	hexs(mis[mis_n].input, cur_in, cur_n);
	snprintf(mis[mis_n].got, sizeof mis[0].got, "%llu", got);
	snprintf(mis[mis_n].want, sizeof mis[0].want, "%llu", want);
	++mis_n;
}

/* compare a size_t-returning decoder: want == SIZE_MAX means "must fail" */
static void judge(const char* fn, size_t got, size_t want, const char* why)
{
	if (got == want)
		return;
	if (want == SIZE_MAX)
		mismatch(fn, "accepts-invalid", why, got, want);
	else if (got == SIZE_MAX)
		mismatch(fn, "rejects-valid", why, got, want);
	else
		mismatch(fn, "wrong-length", why, got, want);
}

static void dump(int partial)
{
	size_t i;
	/* the input being processed when the process dies was counted into its class but not finished */
	for (i = 0; i < cls_n; ++i)
		printf("{\"class\":\"%s\",\"n\":%llu}\n", cls[i].name, cls[i].n);
	for (i = 0; i < mis_n; ++i)
		printf("{\"mismatch\":\"%s\",\"n\":%llu,\"input\":\"%s\",\"got\":\"%s\",\"want\":\"%s\"}\n",
			mis[i].key, mis[i].n, mis[i].input, mis[i].got, mis[i].want);
	if (!partial)
		printf("{\"done\":%llu}\n", cur_idx);
	fflush(stdout);
}

/* -------------------------------------------------------------- one input */

static u32* p_tag;
static size_t* p_len;
static const octet** p_val;
static der_anchor_t* p_anchor;

static void one(const octet* in, size_t n)
{
	verdict_t v = oracle(in, n);
	octet* p = (octet*)malloc(n);
	size_t r, want_tl, want_all;
	u32 other;
	int enc_ok = 1;
	if (n && !p)
		abort();
	memcpy(p, in, n);
	memcpy(cur_in, in, n), cur_n = n;
	want_tl = v.ok_tl ? v.tl : SIZE_MAX;
	want_all = v.ok_v ? v.tl + v.len : SIZE_MAX;
	count_class(v.ok_v ? (v.tl + v.len == n ? "tl:ok-exact" : "tl:ok-prefix") : v.why);
	/* derTLDec */
	cur_fn = "derTLDec";
	*p_tag = 0xA5A5A5A5, *p_len = 0xA5A5A5A5;
	r = derTLDec(p_tag, p_len, p, n);
	judge("derTLDec", r, want_tl, v.why);
	if (r == want_tl && v.ok_tl)
	{
		if (*p_tag != v.tag)
			mismatch("derTLDec", "wrong-tag", v.why, *p_tag, v.tag);
		if (*p_len != v.len)
			mismatch("derTLDec", "wrong-len", v.why, *p_len, v.len);
	}
	r = derTLDec(0, 0, p, n);
	judge("derTLDec", r, want_tl, v.why);
	/* derDec */
	cur_fn = "derDec";
	*p_tag = 0xA5A5A5A5, *p_len = 0xA5A5A5A5, *p_val = 0;
	r = derDec(p_tag, p_val, p_len, p, n);
	judge("derDec", r, want_all, v.why);
	if (r != SIZE_MAX && r > n)
		mismatch("derDec", "consumed>input", v.why, r, n);
	if (r == want_all && v.ok_v)
	{
		if (*p_tag != v.tag)
			mismatch("derDec", "wrong-tag", v.why, *p_tag, v.tag);
		if (*p_len != v.len)
			mismatch("derDec", "wrong-len", v.why, *p_len, v.len);
		if (*p_val != p + v.tl)
			mismatch("derDec", "wrong-val-pointer", v.why, (size_t)(*p_val - p), v.tl);
	}
	r = derDec(0, 0, 0, p, n);
	judge("derDec", r, want_all, v.why);
	/* derIsValid / derIsValid2 */
	cur_fn = "derIsValid";
	r = (size_t)derIsValid(p, n);
	if ((r != 0) != (v.ok_v && v.tl + v.len == n))
		mismatch("derIsValid", r ? "accepts-invalid" : "rejects-valid", v.ok_v ? "trailing-octets" : v.why, r, !r);
	if (v.tn)
	{
		cur_fn = "derIsValid2";
		r = (size_t)derIsValid2(p, n, v.tag);
		if ((r != 0) != (v.ok_v && v.tl + v.len == n))
			mismatch("derIsValid2", r ? "accepts-invalid" : "rejects-valid", v.ok_v ? "trailing-octets" : v.why, r, !r);
		other = v.tag ^ (v.tn == 1 ? 0x01 : 0x0100);
		if ((other & 0x1F) != 0x1F || v.tn > 1)
		{
			r = (size_t)derIsValid2(p, n, other);
			if (r)
				mismatch("derIsValid2", "accepts-other-tag", v.why, r, 0);
		}
	}
	/* derStartsWith: expectation only where the header fixes it (a complete TL follows
	   => TRUE for its tag; a tag field that is itself malformed => FALSE for any tag) */
	cur_fn = "derStartsWith";
	if (v.ok_tl)
	{
		r = (size_t)derStartsWith(p, n, v.tag);
		if (!r)
			mismatch("derStartsWith", "rejects-valid", v.why, r, 1);
	}
	else if (!v.tn && n)
	{
		u32 t = 0;
		size_t k;
		for (k = 0; k < n && k < 4; ++k)
		{
			t = t * 256 + p[k];
			r = (size_t)derStartsWith(p, n, t);
			if (r)
				mismatch("derStartsWith", "accepts-invalid", v.why, r, 0);
		}
	}
	/* re-encoding: what was accepted as canonical must be what the encoder produces */
	if (v.tn)
	{
		cur_fn = "derTLEnc";
		r = derTLEnc(0, v.tag, v.ok_tl ? v.len : 0);
		if (r == SIZE_MAX)
			enc_ok = 0, mismatch("derTLEnc", "rejects-valid", v.tn == 3 ? "tag3" : v.tn == 2 ? "tag2" : "tag1", r, v.tn + 1);
		else if (v.ok_tl)
		{
			octet* e = (octet*)malloc(r);
			if (r != v.tl || derTLEnc(e, v.tag, v.len) != r || memcmp(e, p, r) != 0)
				mismatch("derTLEnc", "reencode-differs", v.why, r, v.tl);
			free(e);
			if (v.ok_v)
			{
				cur_fn = "derEnc";
				r = derEnc(0, v.tag, p + v.tl, v.len);
				e = (octet*)malloc(r == SIZE_MAX ? 0 : r);
				if (r != v.tl + v.len || derEnc(e, v.tag, p + v.tl, v.len) != r || memcmp(e, p, r) != 0)
					mismatch("derEnc", "reencode-differs", v.why, r, v.tl + v.len);
				free(e);
			}
		}
	}
	if (v.tn)
	{
		/* derDec2 / derDec3 / derDec4 with the right and a wrong expectation */
		cur_fn = "derDec2";
		*p_len = 0xA5A5A5A5, *p_val = 0;
		r = derDec2(p_val, p_len, p, n, v.tag);
		judge("derDec2", r, want_all, v.why);
		if (r == want_all && v.ok_v && (*p_len != v.len || *p_val != p + v.tl))
			mismatch("derDec2", "wrong-output", v.why, *p_len, v.len);
		other = v.tag ^ (v.tn == 1 ? 0x01 : 0x0100);
		if ((other & 0x1F) != 0x1F || v.tn > 1)
		{
			r = derDec2(0, 0, p, n, other);
			judge("derDec2(other-tag)", r, SIZE_MAX, v.why);
		}
		cur_fn = "derDec3";
		if (v.ok_tl)
		{
			*p_val = 0;
			r = derDec3(p_val, p, n, v.tag, v.len);
			judge("derDec3", r, want_all, v.why);
			r = derDec3(0, p, n, v.tag, v.len + 1);
			judge("derDec3(len+1)", r, SIZE_MAX, v.why);
		}
		if (v.ok_v)
		{
			octet* val = (octet*)malloc(v.len);
			octet* val2 = (octet*)malloc(v.len + 1);
			memcpy(val, p + v.tl, v.len);
			cur_fn = "derDec4";
			r = derDec4(p, n, v.tag, val, v.len);
			judge("derDec4", r, want_all, v.why);
			if (v.len)
			{
				val[v.len - 1] ^= 0x80;
				r = derDec4(p, n, v.tag, val, v.len);
				judge("derDec4(other-value)", r, SIZE_MAX, v.why);
			}
			memcpy(val2, p + v.tl, v.len), val2[v.len] = 0;
			r = derDec4(p, n, v.tag, val2, v.len + 1);
			judge("derDec4(longer-value)", r, SIZE_MAX, v.why);
			free(val), free(val2);
		}
		/* derTOCTDec: probe, then copy into exactly len octets */
		cur_fn = "derTOCTDec";
		*p_len = 0xA5A5A5A5;
		r = derTOCTDec(0, p_len, p, n, v.tag);
		judge("derTOCTDec", r, want_all, v.why);
		if (r != SIZE_MAX && *p_len > n)
			mismatch("derTOCTDec", "len>input", v.why, *p_len, n);
		else if (r != SIZE_MAX)
		{
			octet* val = (octet*)malloc(*p_len);
			size_t r2 = derTOCTDec(val, 0, p, n, v.tag);
			if (r2 != r)
				mismatch("derTOCTDec", "probe-vs-copy", v.why, r2, r);
			else if (v.ok_v && *p_len == v.len && memcmp(val, p + v.tl, v.len) != 0)
				mismatch("derTOCTDec", "wrong-value", v.why, 0, 0);
			free(val);
		}
		/* derTSEQDecStart */
		if ((p[0] & 0x20) && enc_ok)	/* the library asserts derTIsValid(tag) here; see derTLEnc:rejects-valid-tag */
		{
			cur_fn = "derTSEQDecStart";
			memset(p_anchor, 0xA5, sizeof *p_anchor);
			r = derTSEQDecStart(p_anchor, p, n, v.tag);
			judge("derTSEQDecStart", r, want_tl, v.why);
			if (r == want_tl && v.ok_tl && (p_anchor->len != v.len || p_anchor->tag != v.tag || p_anchor->der != p))
				mismatch("derTSEQDecStart", "wrong-anchor", v.why, p_anchor->len, v.len);
		}
	}
	cur_fn = "-";
	free(p);
}

/* ------------------------------------------------------------------ main */

static int hexval(int c)
{
	if (c >= '0' && c <= '9')
		return c - '0';
	if (c >= 'a' && c <= 'f')
		return c - 'a' + 10;
	if (c >= 'A' && c <= 'F')
		return c - 'A' + 10;
	return -1;
}

int main(int argc, char* argv[])
{
	size_t i;
	if (argc >= 2 && strcmp(argv[1], "oracle") == 0)
	{
		char line[4096];
		octet buf[2048];
		while (fgets(line, sizeof line, stdin))
		{
			size_t n = 0;
			verdict_t v;
			for (i = 0; hexval(line[i]) >= 0 && hexval(line[i + 1]) >= 0; i += 2)
				buf[n++] = (octet)(hexval(line[i]) * 16 + hexval(line[i + 1]));
			v = oracle(buf, n);
			printf("{\"ok_tl\":%d,\"ok_v\":%d,\"tag\":%u,\"len\":%llu,\"tl\":%llu,\"why\":\"%s\"}\n",
				v.ok_tl, v.ok_v, (unsigned)v.tag, (unsigned long long)v.len, (unsigned long long)v.tl, v.why);
		}
		return 0;
	}
	if (argc == 3 && strcmp(argv[1], "one") == 0)
	{
		octet buf[2048];
		size_t n = 0;
		for (i = 0; hexval(argv[2][i]) >= 0 && hexval(argv[2][i + 1]) >= 0 && n < sizeof buf; i += 2)
			buf[n++] = (octet)(hexval(argv[2][i]) * 16 + hexval(argv[2][i + 1]));
		if (__sanitizer_set_death_callback)
			__sanitizer_set_death_callback(on_death);
		else
			signal(SIGABRT, on_signal), signal(SIGSEGV, on_signal), signal(SIGBUS, on_signal);
		p_tag = (u32*)malloc(sizeof(u32));
		p_len = (size_t*)malloc(sizeof(size_t));
		p_val = (const octet**)malloc(sizeof(octet*));
		p_anchor = (der_anchor_t*)malloc(sizeof(der_anchor_t));
		if (n > sizeof cur_in)
			n = sizeof cur_in;
		one(buf, n);
		cur_idx = 1;
		dump(0);
		return 0;
	}
	if (argc == 6 && strcmp(argv[1], "run") == 0)
	{
		unsigned lo = (unsigned)atoi(argv[2]), hi = (unsigned)atoi(argv[3]);
		unsigned long long skip = strtoull(argv[4], 0, 10);
		int with_empty = atoi(argv[5]);
		unsigned f, a, b;
		octet in[4];
		if (__sanitizer_set_death_callback)
			__sanitizer_set_death_callback(on_death);
		else
			signal(SIGABRT, on_signal), signal(SIGSEGV, on_signal), signal(SIGBUS, on_signal);
		p_tag = (u32*)malloc(sizeof(u32));
		p_len = (size_t*)malloc(sizeof(size_t));
		p_val = (const octet**)malloc(sizeof(octet*));
		p_anchor = (der_anchor_t*)malloc(sizeof(der_anchor_t));
		cur_idx = 0;
#define RUN(n) do { if (cur_idx >= skip) one(in, n); ++cur_idx; } while (0)
		if (with_empty)
			RUN(0);
		for (f = lo; f < hi; ++f)
		{
			in[0] = (octet)f;
			RUN(1);
			for (a = 0; a < 256; ++a)
			{
				in[1] = (octet)a;
				RUN(2);
				for (b = 0; b < 256; ++b)
				{
					in[2] = (octet)b;
					RUN(3);
				}
			}
		}
		dump(0);
		return 0;
	}
	fprintf(stderr, "usage: tl_exhaust run <lo> <hi> <skip> <with_empty> | tl_exhaust one <hex> | tl_exhaust oracle\n");
	return 2;
}
