/* C14 harness.
   mode "taint": run under valgrind memcheck on the Release build: secret operands are marked undefined; memcheck
                 then reports every conditional jump (UninitCondition) that depends on them.
   mode "trace": Release flags + -fsanitize-coverage=trace-pc on the library: the sequence of executed edges of each
                 target is folded into a hash; for fixed lengths the hash must not depend on operand values.
   Every target has its own noinline entry ct_<name> so that reports can be attributed by stack. */
#include <stdio.h>
#include <stdlib.h>
#include <string.h>
#include <stdint.h>
#include "bee2/defs.h"
#include "bee2/core/mem.h"
#include "bee2/core/hex.h"
#include "bee2/core/u16.h"
#include "bee2/core/u32.h"
#include "bee2/core/u64.h"
#include "bee2/core/word.h"
#include "bee2/math/ww.h"
#include "bee2/math/zz.h"
#include "bee2/crypto/belt.h"
#include "bee2/crypto/bash.h"

#ifdef CT_TAINT
#include <valgrind/memcheck.h>
#define SECRET(p, n) VALGRIND_MAKE_MEM_UNDEFINED((p), (n))
#define PUBLIC(p, n) VALGRIND_MAKE_MEM_DEFINED((p), (n))
#else
#define SECRET(p, n) ((void)0)
#define PUBLIC(p, n) ((void)0)
#endif

#define NOINLINE __attribute__((noinline))

/* ---- trace-pc ------------------------------------------------------------ */
static volatile int trace_on;
static uint64_t trace_hash;
static uint64_t trace_edges;
void __sanitizer_cov_trace_pc(void)
{
	if (trace_on)
	{
		uint64_t pc = (uint64_t)(uintptr_t)__builtin_return_address(0);
		trace_hash = (trace_hash ^ pc) * 0x100000001B3ull;
		trace_hash ^= trace_hash >> 29;
		++trace_edges;
	}
}

/* ---- prng ---------------------------------------------------------------- */
static uint64_t prng = 88172645463325252ull;
static uint64_t xs(void)
{
	prng ^= prng << 13, prng ^= prng >> 7, prng ^= prng << 17;
	return prng;
}
static void fill(void* p, size_t n)
{
	size_t i;
	for (i = 0; i < n; ++i) ((octet*)p)[i] = (octet)(xs() >> 32);
}

/* operand variants: 0 equal/zero-ish, 1 differ at a chosen position, 2 random, 3 extreme */
#define MAXW 20
static word A[2 * MAXW + 4], Bv[2 * MAXW + 4], C[2 * MAXW + 4], MOD[MAXW + 2], PAR[MAXW + 4];
static octet STACK[16384];
static octet M1_[176], M2_[176];
static size_t OFF;	/* misalignment of the presented buffers: 0, 1, 4 */
#define M1 (M1_ + OFF)
#define M2 (M2_ + OFF)
static char HEX[330];
static volatile size_t sink;

static void gen_pair_words(size_t n, int variant)
{
	size_t i;
	switch (variant & 3)
	{
	case 0:
		fill(A, n * sizeof(word)); memcpy(Bv, A, n * sizeof(word)); break;
	case 1:
		fill(A, n * sizeof(word)); memcpy(Bv, A, n * sizeof(word));
		if (n) { i = (size_t)(variant >> 2) % n; Bv[i] ^= (word)1 << ((variant >> 6) % B_PER_W); }
		break;
	case 2:
		fill(A, n * sizeof(word)); fill(Bv, n * sizeof(word)); break;
	default:
		for (i = 0; i < n; ++i) A[i] = (variant & 4) ? WORD_MAX : 0, Bv[i] = (variant & 8) ? WORD_MAX : 0;
	}
}

static void gen_pair_mem(size_t n, int variant)
{
	size_t i;
	switch (variant & 3)
	{
	case 0: fill(M1, n); memcpy(M2, M1, n); break;
	case 1: fill(M1, n); memcpy(M2, M1, n); if (n) M2[(size_t)(variant >> 2) % n] ^= (octet)(1 << ((variant >> 7) & 7)); break;
	case 2: fill(M1, n); fill(M2, n); break;
	default: for (i = 0; i < n; ++i) M1[i] = (variant & 4) ? 0xFF : 0, M2[i] = (variant & 8) ? 0xFF : 0;
	}
}

/* modulus with the top bit of the top word set, odd; a, b < mod */
static void gen_mod(size_t n, int variant, int crand)
{
	size_t i;
	fill(MOD, n * sizeof(word));
	MOD[n - 1] |= (word)1 << (B_PER_W - 1);
	MOD[0] |= 1;
	if (crand)
	{
		/* B^n - c, 0 < c < B */
		for (i = 1; i < n; ++i) MOD[i] = WORD_MAX;
		MOD[0] = (word)0 - (word)((xs() | 1) & 0xFFFF) ;
		if (n == 1) MOD[0] |= (word)1 << (B_PER_W - 1);
	}
	/* a, b */
	fill(A, n * sizeof(word)); fill(Bv, n * sizeof(word));
	A[n - 1] &= WORD_MAX >> 1, Bv[n - 1] &= WORD_MAX >> 1;	/* < 2^(Bn-1) <= mod */
	switch (variant & 3)
	{
	case 0: memset(A, 0, n * sizeof(word)); break;
	case 1: memcpy(A, MOD, n * sizeof(word)); zzSubW2(A, n, 1); break;			/* mod - 1 */
	case 3: memcpy(A, MOD, n * sizeof(word)); zzSubW2(A, n, 1); memcpy(Bv, A, n * sizeof(word)); break;
	default: break;
	}
}

/* ---- targets ------------------------------------------------------------- */
typedef struct { const char* name; void (*run)(size_t len, int variant, int fast); size_t lo, hi; int has_fast; } target_t;

#define T_MEM2(nm, call_safe, call_fast) \
static NOINLINE void ct_##nm(size_t n, int v, int fast) { \
	gen_pair_mem(n, v); SECRET(M1, n); SECRET(M2, n); trace_on = 1; \
	sink = fast ? (size_t)(call_fast) : (size_t)(call_safe); trace_on = 0; PUBLIC((void*)&sink, sizeof(sink)); PUBLIC(M1, n); PUBLIC(M2, n); }

T_MEM2(memEq, memEq(M1, M2, n), memEq_fast(M1, M2, n))
T_MEM2(memCmp, memCmp(M1, M2, n), memCmp_fast(M1, M2, n))
T_MEM2(memCmpRev, memCmpRev(M1, M2, n), memCmpRev_fast(M1, M2, n))
T_MEM2(memIsZero, memIsZero(M1, n), memIsZero_fast(M1, n))
T_MEM2(memIsRep, memIsRep(M1, n, 0xFF), memIsRep_fast(M1, n, 0xFF))

static NOINLINE void ct_hexEq(size_t n, int v, int fast)
{
	gen_pair_mem(n, v);
	hexFrom(HEX, M2, n);
	if (v & 16) hexLower(HEX);
	SECRET(M1, n); trace_on = 1;
	sink = fast ? (size_t)hexEq_fast(M1, HEX) : (size_t)hexEq(M1, HEX);
	trace_on = 0; PUBLIC((void*)&sink, sizeof(sink)); PUBLIC(M1, n);
}
static NOINLINE void ct_hexEqRev(size_t n, int v, int fast)
{
	gen_pair_mem(n, v);
	hexFrom(HEX, M2, n);
	SECRET(M1, n); trace_on = 1;
	sink = fast ? (size_t)hexEqRev_fast(M1, HEX) : (size_t)hexEqRev(M1, HEX);
	trace_on = 0; PUBLIC((void*)&sink, sizeof(sink)); PUBLIC(M1, n);
}

#define T_WW2(nm, call_safe, call_fast) \
static NOINLINE void ct_##nm(size_t n, int v, int fast) { \
	word w; gen_pair_words(n, v); w = (v & 16) ? (n ? A[0] : 0) : (word)xs(); \
	SECRET(A, n * sizeof(word)); SECRET(Bv, n * sizeof(word)); SECRET(&w, sizeof(w)); trace_on = 1; \
	sink = fast ? (size_t)(call_fast) : (size_t)(call_safe); trace_on = 0; PUBLIC((void*)&sink, sizeof(sink)); \
	PUBLIC(A, n * sizeof(word)); PUBLIC(Bv, n * sizeof(word)); }

T_WW2(wwEq, wwEq(A, Bv, n), wwEq_fast(A, Bv, n))
T_WW2(wwCmp, wwCmp(A, Bv, n), wwCmp_fast(A, Bv, n))
T_WW2(wwCmp2, wwCmp2(A, n, Bv, n), wwCmp2_fast(A, n, Bv, n))
T_WW2(wwCmpW, wwCmpW(A, n, w), wwCmpW_fast(A, n, w))
T_WW2(wwIsZero, wwIsZero(A, n), wwIsZero_fast(A, n))
T_WW2(wwIsW, wwIsW(A, n, w), wwIsW_fast(A, n, w))
T_WW2(wwIsRepW, wwIsRepW(A, n, w), wwIsRepW_fast(A, n, w))

static NOINLINE void ct_zzIsSumEq(size_t n, int v, int fast)
{
	gen_pair_words(n, v);
	if (v & 16) zzAdd(C, A, Bv, n); else fill(C, n * sizeof(word));
	SECRET(A, n * sizeof(word)); SECRET(Bv, n * sizeof(word)); SECRET(C, n * sizeof(word)); trace_on = 1;
	sink = fast ? (size_t)zzIsSumEq_fast(C, A, Bv, n) : (size_t)zzIsSumEq(C, A, Bv, n);
	trace_on = 0; PUBLIC((void*)&sink, sizeof(sink)); PUBLIC(A, n * sizeof(word)); PUBLIC(Bv, n * sizeof(word)); PUBLIC(C, n * sizeof(word));
}
static NOINLINE void ct_zzIsSumWEq(size_t n, int v, int fast)
{
	word w = (word)xs();
	gen_pair_words(n, v);
	if (v & 16) { memcpy(Bv, A, n * sizeof(word)); zzAddW2(Bv, n, w); }
	SECRET(A, n * sizeof(word)); SECRET(Bv, n * sizeof(word)); SECRET(&w, sizeof(w)); trace_on = 1;
	sink = fast ? (size_t)zzIsSumWEq_fast(Bv, A, n, w) : (size_t)zzIsSumWEq(Bv, A, n, w);
	trace_on = 0; PUBLIC((void*)&sink, sizeof(sink)); PUBLIC(A, n * sizeof(word)); PUBLIC(Bv, n * sizeof(word));
}

#define T_ZZMOD(nm, call_safe, call_fast) \
static NOINLINE void ct_##nm(size_t n, int v, int fast) { \
	word w = (word)xs(); gen_mod(n, v, 0); if (n == 1) w %= MOD[0]; else if (v & 4) w = 0; \
	SECRET(A, n * sizeof(word)); SECRET(Bv, n * sizeof(word)); SECRET(&w, sizeof(w)); trace_on = 1; \
	if (fast) { call_fast; } else { call_safe; } trace_on = 0; \
	PUBLIC(A, n * sizeof(word)); PUBLIC(Bv, n * sizeof(word)); PUBLIC(C, n * sizeof(word)); }

T_ZZMOD(zzAddMod, zzAddMod(C, A, Bv, MOD, n), zzAddMod_fast(C, A, Bv, MOD, n))
T_ZZMOD(zzSubMod, zzSubMod(C, A, Bv, MOD, n), zzSubMod_fast(C, A, Bv, MOD, n))
T_ZZMOD(zzAddWMod, zzAddWMod(C, A, w, MOD, n), zzAddWMod_fast(C, A, w, MOD, n))
T_ZZMOD(zzSubWMod, zzSubWMod(C, A, w, MOD, n), zzSubWMod_fast(C, A, w, MOD, n))
T_ZZMOD(zzNegMod, zzNegMod(C, A, MOD, n), zzNegMod_fast(C, A, MOD, n))
T_ZZMOD(zzDoubleMod, zzDoubleMod(C, A, MOD, n), zzDoubleMod_fast(C, A, MOD, n))
T_ZZMOD(zzHalfMod, zzHalfMod(C, A, MOD, n), zzHalfMod_fast(C, A, MOD, n))

/* reductions: [2n]a */
static void gen_red(size_t n, int v, int crand, int mont)
{
	gen_mod(n, 2, crand);
	fill(Bv, n * sizeof(word));
	switch (v & 3)
	{
	case 0: memset(A, 0, 2 * n * sizeof(word)); break;
	case 1: /* k * mod */
		zzMul(A, MOD, n, Bv, n, STACK); break;
	case 2:
		fill(A, 2 * n * sizeof(word));
		if (mont) { /* a < mod * R : take (random n words) * mod + (random < mod) is overkill; use t*mod + small */
			zzMul(A, MOD, n, Bv, n, STACK); if (A[0] != WORD_MAX) A[0] += 1; }
		break;
	default: /* mod*R - 1 region / all ones */
		if (mont) { memset(Bv, 0xFF, n * sizeof(word)); zzMul(A, MOD, n, Bv, n, STACK); }
		else memset(A, 0xFF, 2 * n * sizeof(word));
	}
}
#define T_RED(nm, crand, mont, prep, call_safe, call_fast) \
static NOINLINE void ct_##nm(size_t n, int v, int fast) { \
	gen_red(n, v, crand, mont); prep; \
	SECRET(A, 2 * n * sizeof(word)); trace_on = 1; \
	if (fast) { call_fast; } else { call_safe; } trace_on = 0; PUBLIC(A, 2 * n * sizeof(word)); }

T_RED(zzRedCrand, 1, 0, (void)0, zzRedCrand(A, MOD, n, STACK), zzRedCrand_fast(A, MOD, n, STACK))
T_RED(zzRedBarr, 0, 0, zzRedBarrStart(PAR, MOD, n, STACK), zzRedBarr(A, MOD, n, PAR, STACK), zzRedBarr_fast(A, MOD, n, PAR, STACK))
T_RED(zzRedMont, 0, 1, (void)0, zzRedMont(A, MOD, n, wordNegInv(MOD[0]), STACK), zzRedMont_fast(A, MOD, n, wordNegInv(MOD[0]), STACK))
T_RED(zzRedCrandMont, 1, 1, (void)0, zzRedCrandMont(A, MOD, n, wordNegInv(MOD[0]), STACK), zzRedCrandMont_fast(A, MOD, n, wordNegInv(MOD[0]), STACK))

#define T_U(nm, type, call_safe, call_fast) \
static NOINLINE void ct_##nm(size_t n, int v, int fast) { \
	type w = (type)xs(); if ((v & 3) == 0) w = 0; else if ((v & 3) == 1) w = (type)((type)1 << ((unsigned)(v >> 2) % (8 * sizeof(type)))); \
	else if ((v & 3) == 3) w = (type)~(type)0; \
	SECRET(&w, sizeof(w)); trace_on = 1; sink = fast ? (call_fast) : (call_safe); trace_on = 0; PUBLIC((void*)&sink, sizeof(sink)); }
T_U(u16CTZ, u16, u16CTZ(w), u16CTZ_fast(w))
T_U(u16CLZ, u16, u16CLZ(w), u16CLZ_fast(w))
T_U(u32CTZ, u32, u32CTZ(w), u32CTZ_fast(w))
T_U(u32CLZ, u32, u32CLZ(w), u32CLZ_fast(w))
T_U(u64CTZ, u64, u64CTZ(w), u64CTZ_fast(w))
T_U(u64CLZ, u64, u64CLZ(w), u64CLZ_fast(w))

/* ---- belt / bash verification entry points and primitives --------------------------------------------------
   key, data and tag are secret.  `v & 1` selects a right or a wrong tag (wrong at position (v>>1) % taglen). */
static octet KEY[32], IV[16], DATA[256], AD[64], TAG_[80], HDR_[32];
#define TAG (TAG_ + OFF)
#define HDR (HDR_ + OFF)
static octet STATE[4096] __attribute__((aligned(16)));

static void gen_sym(size_t n)
{
	fill(KEY, 32); fill(IV, 16); fill(DATA, n); fill(AD, 48); fill(HDR, 16);
}
static void spoil(octet* tag, size_t len, int v)
{
	if (v & 1) tag[(size_t)(v >> 1) % len] ^= (octet)(1 << ((v >> 5) & 7));
}

static NOINLINE void ct_beltMACStepV(size_t n, int v, int fast)
{
	gen_sym(n);
	beltMAC(TAG, DATA, n, KEY, 32); spoil(TAG, 8, v);
	SECRET(KEY, 32); SECRET(DATA, n); SECRET(TAG, 8); trace_on = 1;
	beltMACStart(STATE, KEY, 32); beltMACStepA(DATA, n, STATE);
	sink = (n & 1) ? (size_t)beltMACStepV2(TAG, 8, STATE) : (size_t)beltMACStepV(TAG, STATE);
	trace_on = 0; PUBLIC((void*)&sink, sizeof(sink)); PUBLIC(STATE, sizeof(STATE)); PUBLIC(KEY, 32); PUBLIC(DATA, n); PUBLIC(TAG, 8);
}
static NOINLINE void ct_beltHashStepV(size_t n, int v, int fast)
{
	gen_sym(n);
	beltHash(TAG, DATA, n); spoil(TAG, 32, v);
	SECRET(DATA, n); SECRET(TAG, 32); trace_on = 1;
	beltHashStart(STATE); beltHashStepH(DATA, n, STATE);
	sink = (n & 1) ? (size_t)beltHashStepV2(TAG, 32, STATE) : (size_t)beltHashStepV(TAG, STATE);
	trace_on = 0; PUBLIC((void*)&sink, sizeof(sink)); PUBLIC(STATE, sizeof(STATE)); PUBLIC(DATA, n); PUBLIC(TAG, 32);
}
static NOINLINE void ct_beltHMACStepV(size_t n, int v, int fast)
{
	gen_sym(n);
	beltHMAC(TAG, DATA, n, KEY, 32); spoil(TAG, 32, v);
	SECRET(KEY, 32); SECRET(DATA, n); SECRET(TAG, 32); trace_on = 1;
	beltHMACStart(STATE, KEY, 32); beltHMACStepA(DATA, n, STATE);
	sink = (n & 1) ? (size_t)beltHMACStepV2(TAG, 32, STATE) : (size_t)beltHMACStepV(TAG, STATE);
	trace_on = 0; PUBLIC((void*)&sink, sizeof(sink)); PUBLIC(STATE, sizeof(STATE)); PUBLIC(KEY, 32); PUBLIC(DATA, n); PUBLIC(TAG, 32);
}
static NOINLINE void ct_bashHashStepV(size_t n, int v, int fast)
{
	gen_sym(n);
	bashHash(TAG, 128, DATA, n); spoil(TAG, 32, v);
	SECRET(DATA, n); SECRET(TAG, 32); trace_on = 1;
	bashHashStart(STATE, 128); bashHashStepH(DATA, n, STATE);
	sink = (size_t)bashHashStepV(TAG, 32, STATE);
	trace_on = 0; PUBLIC((void*)&sink, sizeof(sink)); PUBLIC(STATE, sizeof(STATE)); PUBLIC(DATA, n); PUBLIC(TAG, 32);
}
static octet CT[256];
static NOINLINE void ct_beltDWPStepV(size_t n, int v, int fast)
{
	gen_sym(n);
	beltDWPWrap(CT, TAG, DATA, n, AD, 48, KEY, 32, IV); spoil(TAG, 8, v);
	SECRET(KEY, 32); SECRET(CT, n); SECRET(TAG, 8); SECRET(AD, 48); trace_on = 1;
	beltDWPStart(STATE, KEY, 32, IV); beltDWPStepI(AD, 48, STATE); beltDWPStepA(CT, n, STATE);
	sink = (size_t)beltDWPStepV(TAG, STATE);
	beltDWPStepD(CT, n, STATE);
	trace_on = 0; PUBLIC((void*)&sink, sizeof(sink)); PUBLIC(STATE, sizeof(STATE)); PUBLIC(KEY, 32); PUBLIC(CT, n); PUBLIC(TAG, 8); PUBLIC(AD, 48);
}
static NOINLINE void ct_beltCHEStepV(size_t n, int v, int fast)
{
	gen_sym(n);
	beltCHEWrap(CT, TAG, DATA, n, AD, 48, KEY, 32, IV); spoil(TAG, 8, v);
	SECRET(KEY, 32); SECRET(CT, n); SECRET(TAG, 8); SECRET(AD, 48); trace_on = 1;
	beltCHEStart(STATE, KEY, 32, IV); beltCHEStepI(AD, 48, STATE); beltCHEStepA(CT, n, STATE);
	sink = (size_t)beltCHEStepV(TAG, STATE);
	beltCHEStepD(CT, n, STATE);
	trace_on = 0; PUBLIC((void*)&sink, sizeof(sink)); PUBLIC(STATE, sizeof(STATE)); PUBLIC(KEY, 32); PUBLIC(CT, n); PUBLIC(TAG, 8); PUBLIC(AD, 48);
}
/* high-level unwraps: exactly the accept/reject decision inside the function itself is allowed */
static NOINLINE void ct_beltDWPUnwrap(size_t n, int v, int fast)
{
	gen_sym(n);
	beltDWPWrap(CT, TAG, DATA, n, AD, 48, KEY, 32, IV); spoil(TAG, 8, v);
	SECRET(KEY, 32); SECRET(CT, n); SECRET(TAG, 8); SECRET(AD, 48); trace_on = 1;
	sink = (size_t)beltDWPUnwrap(DATA, CT, n, AD, 48, TAG, KEY, 32, IV);
	trace_on = 0; PUBLIC((void*)&sink, sizeof(sink)); PUBLIC(KEY, 32); PUBLIC(CT, n); PUBLIC(TAG, 8); PUBLIC(AD, 48); PUBLIC(DATA, n);
}
static NOINLINE void ct_beltCHEUnwrap(size_t n, int v, int fast)
{
	gen_sym(n);
	beltCHEWrap(CT, TAG, DATA, n, AD, 48, KEY, 32, IV); spoil(TAG, 8, v);
	SECRET(KEY, 32); SECRET(CT, n); SECRET(TAG, 8); SECRET(AD, 48); trace_on = 1;
	sink = (size_t)beltCHEUnwrap(DATA, CT, n, AD, 48, TAG, KEY, 32, IV);
	trace_on = 0; PUBLIC((void*)&sink, sizeof(sink)); PUBLIC(KEY, 32); PUBLIC(CT, n); PUBLIC(TAG, 8); PUBLIC(AD, 48); PUBLIC(DATA, n);
}
static NOINLINE void ct_beltKWPUnwrap(size_t n, int v, int fast)
{
	if (n < 16) n = 16;
	gen_sym(n);
	beltKWPWrap(CT, DATA, n, HDR, KEY, 32);
	if (v & 1) CT[(size_t)(v >> 1) % (n + 16)] ^= 0x10;
	SECRET(KEY, 32); SECRET(CT, n + 16); SECRET(HDR, 16); trace_on = 1;
	sink = (size_t)beltKWPUnwrap(DATA, CT, n + 16, HDR, KEY, 32);
	trace_on = 0; PUBLIC((void*)&sink, sizeof(sink)); PUBLIC(KEY, 32); PUBLIC(CT, n + 16); PUBLIC(HDR, 16); PUBLIC(DATA, n);
}
/* header == NULL (an all-zero header is expected): rejected tokens whose recovered header agrees with it in the first
   0..15 octets must be indistinguishable from each other (a scan that stops at the first wrong octet is not) */
static NOINLINE void ct_beltKWPUnwrap0(size_t n, int v, int fast)
{
	octet hdr[16];
	size_t k = (size_t)(v >> 1) % 16, i;
	if (n < 16) n = 16;
	gen_sym(n);
	memset(hdr, 0, 16);
	if (v & 1)
		for (i = k; i < 16; ++i) hdr[i] = (octet)(HDR[i] | 1);		/* first wrong octet at position k */
	beltKWPWrap(CT, DATA, n, hdr, KEY, 32);
	SECRET(KEY, 32); SECRET(CT, n + 16); trace_on = 1;
	sink = (size_t)beltKWPUnwrap(DATA, CT, n + 16, 0, KEY, 32);
	trace_on = 0; PUBLIC((void*)&sink, sizeof(sink)); PUBLIC(KEY, 32); PUBLIC(CT, n + 16); PUBLIC(DATA, n);
}
/* symmetric primitives and modes: key and data secret, no comparison */
static NOINLINE void ct_beltModes(size_t n, int v, int fast)
{
	size_t m = n < 32 ? 32 : n, mb = m - m % 16;
	gen_sym(m);
	SECRET(KEY, 32); SECRET(DATA, m); SECRET(IV, 16); trace_on = 1;
	beltECBStart(STATE, KEY, 32); beltECBStepE(DATA, m, STATE); beltECBStepD(DATA, m, STATE);
	beltCBCStart(STATE, KEY, 32, IV); beltCBCStepE(DATA, m, STATE);
	beltCBCStart(STATE, KEY, 32, IV); beltCBCStepD(DATA, m, STATE);
	beltCFBStart(STATE, KEY, 32, IV); beltCFBStepE(DATA, m, STATE);
	beltCFBStart(STATE, KEY, 32, IV); beltCFBStepD(DATA, m, STATE);
	beltCTRStart(STATE, KEY, 32, IV); beltCTRStepE(DATA, m, STATE);
	beltBDEStart(STATE, KEY, 32, IV); beltBDEStepE(DATA, mb, STATE); beltBDEStepD(DATA, mb, STATE);
	beltSDEStart(STATE, KEY, 32); beltSDEStepE(DATA, mb, IV, STATE); beltSDEStepD(DATA, mb, IV, STATE);
	beltWBLStart(STATE, KEY, 32); beltWBLStepE(DATA, m, STATE); beltWBLStepD(DATA, m, STATE);
	beltMACStart(STATE, KEY, 32); beltMACStepA(DATA, m, STATE); beltMACStepG(TAG, STATE);
	beltHashStart(STATE); beltHashStepH(DATA, m, STATE); beltHashStepG(TAG, STATE);
	beltHMACStart(STATE, KEY, 32); beltHMACStepA(DATA, m, STATE); beltHMACStepG(TAG, STATE);
	beltDWPStart(STATE, KEY, 32, IV); beltDWPStepI(DATA, m, STATE); beltDWPStepE(DATA, m, STATE); beltDWPStepA(DATA, m, STATE); beltDWPStepG(TAG, STATE);
	beltCHEStart(STATE, KEY, 32, IV); beltCHEStepI(DATA, m, STATE); beltCHEStepE(DATA, m, STATE); beltCHEStepA(DATA, m, STATE); beltCHEStepG(TAG, STATE);
	beltKRPStart(STATE, KEY, 32, IV); beltKRPStepG(TAG, 32, IV, STATE);
	trace_on = 0; PUBLIC(STATE, sizeof(STATE)); PUBLIC(KEY, 32); PUBLIC(DATA, m); PUBLIC(IV, 16); PUBLIC(TAG, 64);
}
static NOINLINE void ct_beltModes16(size_t n, int v, int fast)
{
	/* 16- and 24-octet keys (key expansion) */
	size_t kl = (n & 1) ? 16 : 24;
	gen_sym(64);
	SECRET(KEY, 32); SECRET(DATA, 64); trace_on = 1;
	beltECBStart(STATE, KEY, kl); beltECBStepE(DATA, 48, STATE);
	beltKeyExpand(TAG, KEY, kl);
	trace_on = 0; PUBLIC(STATE, sizeof(STATE)); PUBLIC(KEY, 32); PUBLIC(DATA, 64); PUBLIC(TAG, 64);
}
static octet BSTATE[192] __attribute__((aligned(64)));
static NOINLINE void ct_bash(size_t n, int v, int fast)
{
	gen_sym(n); fill(BSTATE, 192);
	SECRET(DATA, n); SECRET(BSTATE, 192); trace_on = 1;
	bashF(BSTATE, STACK);
	bashHashStart(STATE, 256); bashHashStepH(DATA, n, STATE); bashHashStepG(TAG, 64, STATE);
	trace_on = 0; PUBLIC(STATE, sizeof(STATE)); PUBLIC(DATA, n); PUBLIC(BSTATE, 192); PUBLIC(TAG, 64);
}

#define TG(nm, lo, hi, hf) { #nm, ct_##nm, lo, hi, hf }
static const target_t targets[] = {
	TG(memEq, 0, 40, 1), TG(memCmp, 0, 40, 1), TG(memCmpRev, 0, 40, 1), TG(memIsZero, 0, 40, 1), TG(memIsRep, 0, 40, 1),
	TG(hexEq, 0, 33, 1), TG(hexEqRev, 0, 33, 1),
	TG(wwEq, 0, 16, 1), TG(wwCmp, 0, 16, 1), TG(wwCmp2, 0, 16, 1), TG(wwCmpW, 0, 16, 1), TG(wwIsZero, 0, 16, 1),
	TG(wwIsW, 0, 16, 1), TG(wwIsRepW, 0, 16, 1),
	TG(zzIsSumEq, 0, 16, 1), TG(zzIsSumWEq, 0, 16, 1),
	TG(zzAddMod, 1, 16, 1), TG(zzSubMod, 1, 16, 1), TG(zzAddWMod, 1, 16, 1), TG(zzSubWMod, 1, 16, 1), TG(zzNegMod, 1, 16, 1),
	TG(zzDoubleMod, 1, 16, 1), TG(zzHalfMod, 1, 16, 1),
	TG(zzRedCrand, 2, 16, 1), TG(zzRedBarr, 1, 16, 1), TG(zzRedMont, 1, 16, 1), TG(zzRedCrandMont, 2, 16, 1),
	TG(u16CTZ, 0, 0, 1), TG(u16CLZ, 0, 0, 1), TG(u32CTZ, 0, 0, 1), TG(u32CLZ, 0, 0, 1), TG(u64CTZ, 0, 0, 1), TG(u64CLZ, 0, 0, 1),
	TG(beltMACStepV, 0, 70, 0), TG(beltHashStepV, 0, 70, 0), TG(beltHMACStepV, 0, 70, 0), TG(bashHashStepV, 0, 200, 0),
	TG(beltDWPStepV, 0, 70, 0), TG(beltCHEStepV, 0, 70, 0),
	TG(beltDWPUnwrap, 0, 70, 2), TG(beltCHEUnwrap, 0, 70, 2), TG(beltKWPUnwrap, 16, 70, 2), TG(beltKWPUnwrap0, 16, 70, 2),
	TG(beltModes, 32, 100, 0), TG(beltModes16, 0, 1, 0), TG(bash, 0, 200, 0),
};
#define NT (sizeof(targets) / sizeof(targets[0]))

int main(int argc, char** argv)
{
	const char* mode = argc > 1 ? argv[1] : "list";
	size_t t, n; int v;
	int nvar = argc > 2 ? atoi(argv[2]) : 16;
	size_t step = argc > 3 ? (size_t)atoi(argv[3]) : 1;
	const char* only = argc > 4 ? argv[4] : 0;
	if (argc > 5) prng ^= strtoull(argv[5], 0, 10) * 0x9E3779B97F4A7C15ull, xs();
	if (!strcmp(mode, "list"))
	{
		for (t = 0; t < NT; ++t) printf("%s %zu %zu %d\n", targets[t].name, targets[t].lo, targets[t].hi, targets[t].has_fast);
		return 0;
	}
	if (!strcmp(mode, "taint"))
	{
		/* every target, SAFE edition (fast=0) and, as positive control, FAST edition (fast=1) in functions named *_fastctl */
		int fast = argc > 6 ? atoi(argv[6]) : 0;
		size_t cases = 0;
		for (t = 0; t < NT; ++t)
		{
			if (only && strcmp(only, "all") && strcmp(only, targets[t].name)) continue;
			if (fast && targets[t].has_fast != 1) continue;
			for (OFF = 0; OFF <= 4; OFF = OFF ? OFF * 4 : 1)
			for (n = targets[t].lo; n <= targets[t].hi; n += step)
				for (v = 0; v < nvar; ++v)
					targets[t].run(n, v * 7 + (int)n, fast), ++cases;
			OFF = 0;
		}
		printf("{\"mode\":\"taint\",\"fast\":%d,\"cases\":%zu}\n", fast, cases);
		return 0;
	}
	if (!strcmp(mode, "trace"))
	{
		/* per (target, length): number of distinct trace hashes over nvar value sets; SAFE must give 1 */
		int fast, firstrec = 1;
		printf("[");
		for (fast = 0; fast < 2; ++fast)
		for (t = 0; t < NT; ++t)
		{
			if (only && strcmp(only, "all") && strcmp(only, targets[t].name)) continue;
			if (fast && targets[t].has_fast != 1) continue;
			for (OFF = 0; OFF <= 4; OFF = OFF ? OFF * 4 : 1)
			for (n = targets[t].lo; n <= targets[t].hi; n += step)
			{
				uint64_t first[2] = {0, 0}, edges = 0; int distinct = 1, badv = -1, seen[2] = {0, 0};
				for (v = 0; v < nvar; ++v)
				{
					int vv = v * 7 + (int)n;
					/* verdict-split targets: accepted and rejected inputs legitimately differ in the final decision */
					int cls = targets[t].has_fast == 2 ? (vv & 1) : 0;
					trace_hash = 1469598103934665603ull, trace_edges = 0;
					targets[t].run(n, vv, fast);
					if (!seen[cls]) first[cls] = trace_hash, edges = trace_edges, seen[cls] = 1;
					else if (trace_hash != first[cls]) { ++distinct; if (badv < 0) badv = vv; }
				}
				printf("%s{\"t\":\"%s\",\"fast\":%d,\"n\":%zu,\"off\":%zu,\"diff\":%d,\"edges\":%llu,\"v\":%d}",
					firstrec ? "" : ",", targets[t].name, fast, n, OFF, distinct - 1,
					(unsigned long long)edges, badv);
				firstrec = 0;
			}
		}
		printf("]\n");
		return 0;
	}
	return 2;
}
