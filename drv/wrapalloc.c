/* libwa.so — LD_PRELOAD allocation interposer for C09 (allocation-failure injection, allocation balance)
   and C15 (snapshot of every block at the moment it is released).

   Only allocations requested from inside libbee2 (return address within the range given by wa_set_range) while
   recording is active are tracked, so the Python interpreter's own allocations (also inside callbacks) are ignored.
   Single-threaded use only (the worker calls bee2 from one thread). */
#define _GNU_SOURCE
#include <stddef.h>
#include <stdint.h>
#include <string.h>

extern void* __libc_malloc(size_t);
extern void __libc_free(void*);
extern void* __libc_realloc(void*, size_t);
extern void* __libc_calloc(size_t, size_t);

#define MAXB 8192
typedef struct { void* p; size_t n; int live; } blk_t;
typedef struct { size_t n; size_t off; int how; /* 0 free, 1 realloc-moved */ uintptr_t addr; } snap_t;

static volatile int active;
static uintptr_t lo, hi;
static blk_t tab[MAXB];
static int ntab;
static snap_t snaps[MAXB];
static int nsnaps;
static unsigned char* arena;		/* snapshot storage */
static size_t arena_cap, arena_len;
static long nalloc, nfree, fail_at, failed;
static int overflow;
/* every tracked block carries CAN octets of a known pattern behind the requested size: a write past the end of a block the
   library owns (e.g. a wipe with a wrong size on an error path) is seen when the block is released or the call ends */
#define CAN 16
static long overruns;
static size_t overrun_size, overrun_off;
static void can_set(void* p, size_t n) { memset((unsigned char*)p + n, 0xC5, CAN); }
static void can_check(void* p, size_t n)
{
	size_t i;
	const unsigned char* c = (const unsigned char*)p + n;
	for (i = 0; i < CAN; ++i)
		if (c[i] != 0xC5) { if (!overruns) overrun_size = n, overrun_off = i; ++overruns; return; }
}

static int from_lib(void* ra)
{
	uintptr_t a = (uintptr_t)ra;
	return a >= lo && a < hi;
}

static void snapshot(void* p, size_t n, int how)
{
	if (nsnaps >= MAXB) { overflow = 1; return; }
	if (arena_len + n > arena_cap)
	{
		size_t cap = arena_cap ? arena_cap : (1 << 20);
		unsigned char* q;
		while (cap < arena_len + n) cap *= 2;
		q = (unsigned char*)__libc_realloc(arena, cap);
		if (!q) { overflow = 1; return; }
		arena = q, arena_cap = cap;
	}
	memcpy(arena + arena_len, p, n);
	snaps[nsnaps].n = n, snaps[nsnaps].off = arena_len, snaps[nsnaps].how = how, snaps[nsnaps].addr = (uintptr_t)p;
	arena_len += n, ++nsnaps;
}

static int find(void* p)
{
	int i;
	for (i = ntab - 1; i >= 0; --i)
		if (tab[i].p == p && tab[i].live) return i;
	return -1;
}

static void* track_alloc(size_t n, int zero)
{
	void* p;
	++nalloc;
	if (fail_at && nalloc == fail_at) { ++failed; return 0; }
	p = zero ? __libc_calloc(1, n + CAN) : __libc_malloc(n + CAN);
	if (p)
	{
		can_set(p, n);
		if (ntab < MAXB) tab[ntab].p = p, tab[ntab].n = n, tab[ntab].live = 1, ++ntab;
		else overflow = 1;
	}
	return p;
}

void* malloc(size_t n)
{
	if (active && from_lib(__builtin_return_address(0)))
		return track_alloc(n, 0);
	return __libc_malloc(n);
}

void* calloc(size_t a, size_t b)
{
	if (active && from_lib(__builtin_return_address(0)))
		return track_alloc(a * b, 1);
	return __libc_calloc(a, b);
}

void free(void* p)
{
	if (active && p)
	{
		int i = find(p);
		if (i >= 0)
		{
			can_check(p, tab[i].n);
			snapshot(p, tab[i].n, 0);
			tab[i].live = 0;
			++nfree;
		}
	}
	__libc_free(p);
}

void* realloc(void* p, size_t n)
{
	if (active && from_lib(__builtin_return_address(0)))
	{
		int i = p ? find(p) : -1;
		void* q;
		++nalloc;
		if (fail_at && nalloc == fail_at) { ++failed; return 0; }
		if (i < 0)
		{
			q = __libc_realloc(p, n + CAN);
			if (q) can_set(q, n);
			if (q && ntab < MAXB) tab[ntab].p = q, tab[ntab].n = n, tab[ntab].live = 1, ++ntab;
			return q;
		}
		/* emulate a moving realloc so that the abandoned block can be inspected: new block, copy, snapshot old, free old */
		q = __libc_malloc(n + CAN);
		if (!q) return 0;
		memcpy(q, p, tab[i].n < n ? tab[i].n : n);
		can_set(q, n);
		can_check(p, tab[i].n);
		snapshot(p, tab[i].n, 1);
		tab[i].live = 0;
		++nfree;
		__libc_free(p);
		if (ntab < MAXB) tab[ntab].p = q, tab[ntab].n = n, tab[ntab].live = 1, ++ntab;
		else overflow = 1;
		return q;
	}
	return __libc_realloc(p, n);
}

/* ---- control interface (called through ctypes) ---- */
void wa_set_range(uintptr_t l, uintptr_t h) { lo = l, hi = h; }
void wa_begin(long fail_at_n)
{
	ntab = nsnaps = 0; arena_len = 0; nalloc = nfree = failed = 0; overflow = 0; overruns = 0;
	fail_at = fail_at_n; active = 1;
}
void wa_end(void) { int i; active = 0; for (i = 0; i < ntab; ++i) if (tab[i].live) can_check(tab[i].p, tab[i].n); }
long wa_overruns(void) { return overruns; }
size_t wa_overrun_size(void) { return overrun_size; }
long wa_nalloc(void) { return nalloc; }
long wa_nfree(void) { return nfree; }
long wa_failed(void) { return failed; }
int wa_overflow(void) { return overflow; }
long wa_live(void) { int i; long k = 0; for (i = 0; i < ntab; ++i) k += tab[i].live; return k; }
size_t wa_live_bytes(void) { int i; size_t k = 0; for (i = 0; i < ntab; ++i) if (tab[i].live) k += tab[i].n; return k; }
/* blocks still allocated when the call returned (never released): index among the live ones */
static int live_idx(int k) { int i; for (i = 0; i < ntab; ++i) if (tab[i].live && k-- == 0) return i; return -1; }
size_t wa_live_size(int k) { int i = live_idx(k); return i < 0 ? 0 : tab[i].n; }
const unsigned char* wa_live_data(int k) { int i = live_idx(k); return i < 0 ? 0 : (const unsigned char*)tab[i].p; }
int wa_nsnaps(void) { return nsnaps; }
size_t wa_snap_size(int i) { return snaps[i].n; }
int wa_snap_how(int i) { return snaps[i].how; }
uintptr_t wa_snap_addr(int i) { return snaps[i].addr; }
const unsigned char* wa_snap_data(int i) { return arena + snaps[i].off; }
/* release blocks that the library leaked in a failed call so that later cases are not disturbed */
void wa_release_leaked(void) { int i; for (i = 0; i < ntab; ++i) if (tab[i].live) { __libc_free(tab[i].p); tab[i].live = 0; } }
int wa_present(void) { return 1; }
